"""Liveness self-test (thorough tier), DESIGN.md section 2.7.

Every rule registers micro-mutations: (file, old text, new text, rule expected to fire).
The mutated source is analysed *in memory* (overlay on the source model, nothing is written
to /repo).  A mutation whose ``old`` text is not present in the current source is reported
as stale and skipped (the tree has been edited); a mutation that applies but does not make
its rule fire is a dead rule and fails the run with exit 2.
"""

from __future__ import annotations

import importlib
from pathlib import Path

from . import core
from .sm import SourceModel


def run_mutant(prop: str, repo: Path, mut: dict, seed: int = 0):
    rel = mut["file"] if mut["file"].startswith("src/") else f"src/gotranx/{mut['file']}"
    p = repo / rel
    if not p.exists():
        return "stale", []
    src = p.read_text()
    if src.count(mut["old"]) < 1:
        return "stale", []
    new = src.replace(mut["old"], mut["new"], mut.get("count", 1))
    overlay = {rel: new}
    try:
        sm = SourceModel(repo, overlay=overlay)
        ctx = core.Ctx(prop, repo, "quick", sm, seed=seed, quiet=True)
        ctx.overlay = overlay
        mod = importlib.import_module(f"rules.{prop.lower()}")
        mod.run(ctx)
    except core.AnalysisError as e:
        fired = [o for o in ctx.failures() if o.rule == mut["rule"] or mut["rule"] == "*"]
        if fired:
            return ("fired", [f"{o.rule} {o.construct}" for o in fired[:3]])
        return ("analysis-error", [str(e)])
    except Exception as e:
        fired = [o for o in ctx.failures() if o.rule == mut["rule"] or mut["rule"] == "*"]
        if fired:
            return ("fired", [f"{o.rule} {o.construct}" for o in fired[:3]])
        return ("analysis-error", [f"{type(e).__name__}: {e}"])
    fired = [o for o in ctx.failures() if o.rule == mut["rule"] or mut["rule"] == "*"]
    known = {f"{k['property']}|{k['rule']}|{k['construct']}" for k in core.load_known() if k.get("status") == "open"}
    fired = [o for o in fired if core.finding_key(prop, o) not in known]
    return ("fired" if fired else "silent", [f"{o.rule} {o.construct}" for o in fired[:3]])


def run(prop: str, repo: Path, seed: int, jobs: int = 1) -> dict:
    from rules import mutants

    muts = mutants.MUTANTS.get(prop, [])
    log, dead, stale, fired = [], [], 0, 0
    samples = []
    for mut in muts:
        verdict, info = run_mutant(prop, repo, mut, seed)
        if verdict == "stale":
            stale += 1
            log.append(f"  stale (old text not in the current source): {mut['id']}")
        elif verdict == "fired":
            fired += 1
        elif verdict == "analysis-error" and mut.get("accept_analysis_error"):
            fired += 1
        else:
            dead.append(f"{mut['id']} ({mut['rule']}): {verdict} {info}")
        if len(samples) < 6:
            samples.append({"id": mut["id"], "rule": mut["rule"], "verdict": verdict, "fired": info})
    log.append(f"selftest {prop}: {len(muts)} micro-mutations, fired={fired}, stale={stale}, dead={len(dead)}")
    for d in dead:
        log.append(f"  DEAD: {d}")
    return {"mutations": len(muts), "fired": fired, "stale": stale, "dead_rules": dead, "samples": samples, "_log": log}
