"""Liveness self-test (thorough tier), DESIGN.md section 2.7.

Every rule registers micro-mutations: (file, old text, new text, rule expected to fire).
The mutated source is analysed *in memory* (overlay on the source model, nothing is written
to /repo).  A mutation whose ``old`` text is not present in the current source is reported
as stale and skipped (the tree has been edited); a mutation that applies but does not make
its rule fire is a dead rule and fails the run with exit 2.
"""

from __future__ import annotations

import importlib
from pathlib import Path

from . import core
from .sm import SourceModel


def run_mutant(prop: str, repo: Path, mut: dict, seed: int = 0):
    rel = mut["file"] if mut["file"].startswith("src/") else f"src/gotranx/{mut['file']}"
    p = repo / rel
    if not p.exists():
        return "stale", []
    src = p.read_text()
    if src.count(mut["old"]) < 1:
        return "stale", []
    new = src.replace(mut["old"], mut["new"], mut.get("count", 1))
    overlay = {rel: new}
    try:
        sm = SourceModel(repo, overlay=overlay)
        ctx = core.Ctx(prop, repo, "quick", sm, seed=seed, quiet=True)
        ctx.overlay = overlay
        mod = importlib.import_module(f"rules.{prop.lower()}")
        mod.run(ctx)
    except core.AnalysisError as e:
        fired = [o for o in ctx.failures() if o.rule == mut["rule"] or mut["rule"] == "*"]
        if fired:
            return ("fired", [f"{o.rule} {o.construct}" for o in fired[:3]])
        return ("analysis-error", [str(e)])
    except Exception as e:
        fired = [o for o in ctx.failures() if o.rule == mut["rule"] or mut["rule"] == "*"]
        if fired:
            return ("fired", [f"{o.rule} {o.construct}" for o in fired[:3]])
        return ("analysis-error", [f"{type(e).__name__}: {e}"])
    fired = [o for o in ctx.failures() if o.rule == mut["rule"] or mut["rule"] == "*"]
    known = {f"{k['property']}|{k['rule']}|{k['construct']}" for k in core.load_known() if k.get("status") == "open"}
    fired = [o for o in fired if core.finding_key(prop, o) not in known]
    return ("fired" if fired else "silent", [f"{o.rule} {o.construct}" for o in fired[:3]])


def run(prop: str, repo: Path, seed: int, jobs: int = 1) -> dict:
    from rules import mutants

    muts = mutants.MUTANTS.get(prop, [])
    log, dead, stale, fired = [], [], 0, 0
    samples = []
    for mut in muts:
        verdict, info = run_mutant(prop, repo, mut, seed)
        if verdict == "stale":
            stale += 1
            log.append(f"  stale (old text not in the current source): {mut['id']}")
        elif verdict == "fired":
            fired += 1
        elif verdict == "analysis-error" and mut.get("accept_analysis_error"):
            fired += 1
        else:
            dead.append(f"{mut['id']} ({mut['rule']}): {verdict} {info}")
        if len(samples) < 6:
            samples.append({"id": mut["id"], "rule": mut["rule"], "verdict": verdict, "fired": info})
    log.append(f"selftest {prop}: {len(muts)} micro-mutations, fired={fired}, stale={stale}, dead={len(dead)}")
    for d in dead:
        log.append(f"  DEAD: {d}")
    return {"mutations": len(muts), "fired": fired, "stale": stale, "dead_rules": dead, "samples": samples, "_log": log}


def run_seeded(prop: str, repo: Path, seed: int = 0) -> dict:
    """Regression corpus (thorough tier): every seeded change kept for this property under /verif/seeded is applied
    *in memory* (unified diff -> overlay) and must be reported by this property's rules."""
    import json

    from . import udiff

    root = core.VERIF / "seeded"
    log, missed, stale, fired_n = [], [], 0, 0
    samples = []
    dirs = sorted(d for d in root.glob(f"{prop}-*") if (d / "patch.diff").exists()) if root.exists() else []
    known = {f"{k['property']}|{k['rule']}|{k['construct']}" for k in core.load_known() if k.get("status") == "open"}
    for d in dirs:
        diff = (d / "patch.diff").read_text()

        def read(rel):
            p = repo / rel
            return p.read_text() if p.exists() else None

        try:
            overlay = udiff.apply(diff, read)
        except udiff.PatchError:
            stale += 1
            log.append(f"  stale (patch no longer applies to this tree): {d.name}")
            continue
        ctx = None
        try:
            sm = SourceModel(repo, overlay=overlay)
            ctx = core.Ctx(prop, repo, "quick", sm, seed=seed, quiet=True)
            ctx.overlay = overlay
            mod = importlib.import_module(f"rules.{prop.lower()}")
            mod.run(ctx)
        except Exception:
            pass
        fails = [o for o in (ctx.failures() if ctx else []) if core.finding_key(prop, o) not in known]
        if fails:
            fired_n += 1
        else:
            missed.append(d.name)
        if len(samples) < 4:
            samples.append({"seed": d.name, "reported": [f"{o.rule} {o.construct}" for o in fails[:2]]})
    log.insert(0, f"seeded corpus {prop}: {len(dirs)} change(s), reported={fired_n}, stale={stale}, missed={len(missed)}")
    for m in missed:
        log.append(f"  MISSED: {m}")
    return {"changes": len(dirs), "reported": fired_n, "stale": stale, "missed": missed, "samples": samples, "_log": log}


def _refactor_one(args):
    prop, repo, diff_path, seed = args
    import json

    from . import udiff

    repo = Path(repo)
    diff = Path(diff_path).read_text()

    def read(rel):
        p = repo / rel
        return p.read_text() if p.exists() else None

    try:
        overlay = udiff.apply(diff, read)
    except udiff.PatchError:
        return Path(diff_path).parent.name, "stale", [], 0
    known = {f"{k['property']}|{k['rule']}|{k['construct']}" for k in core.load_known() if k.get("status") == "open"}
    ctx, err = None, None
    try:
        sm = SourceModel(repo, overlay=overlay)
        ctx = core.Ctx(prop, repo, "quick", sm, seed=seed, quiet=True)
        ctx.overlay = overlay
        mod = importlib.import_module(f"rules.{prop.lower()}")
        mod.run(ctx)
        ctx.check_floors()
    except Exception as e:  # an analysis that breaks on behaviour-preserving code is a false alarm too
        err = f"{type(e).__name__}: {str(e)[:120]}"
    fails = [o for o in (ctx.failures() if ctx else []) if core.finding_key(prop, o) not in known]
    und = sum(1 for o in (ctx.obligations if ctx else []) if o.undecided)
    if fails or err:
        return Path(diff_path).parent.name, "alarm", [f"{o.rule} {o.construct}" for o in fails[:3]] + ([err] if err else []), und
    return Path(diff_path).parent.name, "silent", [], und


def run_refactors(prop: str, repo: Path, seed: int = 0, jobs: int = 8) -> dict:
    """Negative corpus (thorough tier): every behaviour-preserving refactoring kept under /verif/refactors (all pass
    the pinned test-suite and generate byte-identical code) is applied *in memory*; this property's rules must stay
    silent on each of them - no violation, no analysis error."""
    from concurrent.futures import ProcessPoolExecutor

    root = core.VERIF / "refactors"
    dirs = sorted(d for d in root.iterdir() if (d / "refactor.diff").exists()) if root.exists() else []
    jobs_ = [(prop, str(repo), str(d / "refactor.diff"), seed) for d in dirs]
    alarms, stale, silent, undecided = [], 0, 0, 0
    log = []
    if jobs_:
        with ProcessPoolExecutor(max(1, min(jobs, len(jobs_)))) as ex:
            for name, verdict, info, und in ex.map(_refactor_one, jobs_):
                undecided += und
                if verdict == "stale":
                    stale += 1
                elif verdict == "alarm":
                    alarms.append(f"{name}: {info}")
                else:
                    silent += 1
    log.append(f"refactor corpus {prop}: {len(dirs)} behaviour-preserving change(s), silent={silent}, stale={stale}, false alarms={len(alarms)}, undecided obligations={undecided}")
    for a in alarms:
        log.append(f"  FALSE ALARM: {a}")
    return {"changes": len(dirs), "silent": silent, "stale": stale, "false_alarms": alarms, "undecided_obligations": undecided, "_log": log}
