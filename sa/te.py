"""Term evaluator and path enumerator (TE), DESIGN.md section 2.2.

* ``enumerate_paths(stmts)`` walks a statement list (if/elif/else, continue, break, return,
  raise; nested loops are kept as opaque effects) and yields every propositionally feasible
  path as ``Path(literals, effects, exit)``.  ``a or b`` / ``a and b`` / ``not a`` in tests are
  expanded into conjunctions of literals over opaque atoms (normalised source text).
* ``TermEval`` maps expression ASTs of *expression-building code* to terms over opaque atoms,
  normalised modulo associativity/commutativity of + and *, a-b = a+(-1)b, a/b = a*b**-1 and
  folding of integer literals.  It is a syntactic normaliser, not sympy and not a solver.
"""

from __future__ import annotations

import ast
from dataclasses import dataclass, field

from .sm import dotted, norm

# ---------------------------------------------------------------------------
# paths


@dataclass
class Path:
    lits: tuple  # ((atom_text, polarity), ...)
    effects: list  # statement nodes executed, in order
    exit: str  # 'fall' | 'continue' | 'break' | 'return' | 'raise'
    exit_node: ast.AST | None = None

    def pred(self) -> str:
        return " and ".join((a if p else f"not ({a})") for a, p in self.lits) or "True"

    def has(self, atom: str, pol: bool = True) -> bool:
        return (atom, pol) in self.lits


def _expand(test, pol: bool) -> list[list[tuple[str, bool]]]:
    """DNF of (test == pol) as lists of literals."""
    if isinstance(test, ast.UnaryOp) and isinstance(test.op, ast.Not):
        return _expand(test.operand, not pol)
    if isinstance(test, ast.BoolOp):
        is_or = isinstance(test.op, ast.Or)
        vals = test.values
        if (is_or and pol) or ((not is_or) and not pol):
            # disjunction of (v_i == pol): first i-1 are (not pol), i-th is pol
            out = []
            prefix: list[list[tuple[str, bool]]] = [[]]
            for v in vals:
                for pre in prefix:
                    for alt in _expand(v, pol):
                        out.append(pre + alt)
                newprefix = []
                for pre in prefix:
                    for alt in _expand(v, not pol):
                        newprefix.append(pre + alt)
                prefix = newprefix
            return out
        # conjunction of all (v_i == pol)
        out = [[]]
        for v in vals:
            new = []
            for pre in out:
                for alt in _expand(v, pol):
                    new.append(pre + alt)
            out = new
        return out
    return [[(norm(test), pol)]]


def _feasible(lits) -> bool:
    seen = {}
    for a, p in lits:
        if a in seen and seen[a] != p:
            return False
        seen[a] = p
    return True


def _dedupe(lits):
    out = []
    for l in lits:
        if l not in out:
            out.append(l)
    return out


def enumerate_paths(stmts, max_paths: int = 4096) -> list[Path]:
    """All feasible paths through ``stmts`` (one pass; loops inside are opaque effects)."""
    results: list[Path] = []

    def go(todo: list, lits: list, effects: list):
        if len(results) > max_paths:
            raise RuntimeError("too many paths")
        if not todo:
            results.append(Path(tuple(lits), effects, "fall"))
            return
        st, rest = todo[0], todo[1:]
        if isinstance(st, ast.If):
            for alt in _expand(st.test, True):
                l2 = _dedupe(lits + alt)
                if _feasible(l2):
                    go(list(st.body) + rest, l2, list(effects))
            for alt in _expand(st.test, False):
                l2 = _dedupe(lits + alt)
                if _feasible(l2):
                    go(list(st.orelse) + rest, l2, list(effects))
            return
        if isinstance(st, ast.Continue):
            results.append(Path(tuple(lits), effects, "continue", st))
            return
        if isinstance(st, ast.Break):
            results.append(Path(tuple(lits), effects, "break", st))
            return
        if isinstance(st, ast.Return):
            results.append(Path(tuple(lits), effects + [st], "return", st))
            return
        if isinstance(st, ast.Raise):
            results.append(Path(tuple(lits), effects + [st], "raise", st))
            return
        if isinstance(st, ast.Try):
            # the try body is taken as the normal path; handlers are separate (exceptional) paths
            go(list(st.body) + list(st.orelse) + list(st.finalbody) + rest, lits, list(effects))
            return
        if isinstance(st, ast.With):
            go(list(st.body) + rest, lits, effects + [st])
            return
        go(rest, lits, effects + [st])

    go(list(stmts), [], [])
    return results


# ---------------------------------------------------------------------------
# terms


def _key(t) -> str:
    return repr(t)


def num(n) -> tuple:
    return ("num", n)


def atom(s: str) -> tuple:
    return ("atom", s)


def is_num(t) -> bool:
    return isinstance(t, tuple) and t and t[0] == "num"


def mk_add(args) -> tuple:
    flat, const = [], 0
    for a in args:
        if a[0] == "+":
            for b in a[1]:
                if is_num(b):
                    const += b[1]
                else:
                    flat.append(b)
        elif is_num(a):
            const += a[1]
        else:
            flat.append(a)
    if const != 0:
        flat.append(num(const))
    if not flat:
        return num(0)
    if len(flat) == 1:
        return flat[0]
    return ("+", tuple(sorted(flat, key=_key)))


def mk_mul(args) -> tuple:
    flat, const = [], 1
    for a in args:
        if a[0] == "*":
            for b in a[1]:
                if is_num(b):
                    const *= b[1]
                else:
                    flat.append(b)
        elif is_num(a):
            const *= a[1]
        else:
            flat.append(a)
    if const == 0:
        return num(0)
    if const != 1:
        flat.append(num(const))
    if not flat:
        return num(1)
    if len(flat) == 1:
        return flat[0]
    return ("*", tuple(sorted(flat, key=_key)))


def mk_pow(b, e) -> tuple:
    if is_num(e) and e[1] == 1:
        return b
    if is_num(b) and is_num(e) and isinstance(e[1], int) and e[1] >= 0 and isinstance(b[1], int):
        return num(b[1] ** e[1])
    return ("^", b, e)


def show(t) -> str:
    k = t[0]
    if k == "num":
        return str(t[1])
    if k == "atom":
        return t[1]
    if k == "+":
        return "(" + " + ".join(show(x) for x in t[1]) + ")"
    if k == "*":
        return "(" + " * ".join(show(x) for x in t[1]) + ")"
    if k == "^":
        return f"({show(t[1])} ** {show(t[2])})"
    if k == "fn":
        return f"{t[1]}(" + ", ".join(show(x) for x in t[2]) + ")"
    if k == "ite":
        return f"ITE({show(t[1])}, {show(t[2])}, {show(t[3])})"
    if k == "rel":
        return f"({show(t[2])} {t[1]} {show(t[3])})"
    if k == "pw":
        return "Piecewise(" + ", ".join(f"({show(e)}, {show(c)})" for e, c in t[1]) + ")"
    return repr(t)


_REL = {ast.Gt: ">", ast.Lt: "<", ast.GtE: ">=", ast.LtE: "<=", ast.Eq: "==", ast.NotEq: "!="}


class TermEval:
    """Evaluate an expression AST to a normalised term.

    ``env`` maps local names to terms (filled while walking a path); ``atoms`` maps dotted source
    texts to canonical atom names (role binding, e.g. ``x.state.symbol`` -> STATE); ``funcs``
    maps dotted callee names to handlers (name -> callable(list of arg terms, keywords) -> term).
    """

    IDENTITY_CALLS = {"relational_to_piecewise", "sympify", "sp.sympify", "sympy.sympify", "cast", "typing.cast", "float", "sympy.S", "sp.S"}

    def __init__(self, env=None, atoms=None, funcs=None):
        self.env = dict(env or {})
        self.atoms = dict(atoms or {})
        self.funcs = dict(funcs or {})

    def ev(self, n) -> tuple:
        d = dotted(n) if isinstance(n, (ast.Name, ast.Attribute)) else None
        if d is not None and d in self.atoms:
            return atom(self.atoms[d])
        if isinstance(n, ast.Name):
            if n.id in self.env:
                return self.env[n.id]
            return atom(n.id)
        if isinstance(n, ast.Attribute):
            if d is not None:
                root = d.split(".")[0]
                if root in self.env and d.count(".") >= 1:
                    t = self.env[root]
                    for a in d.split(".")[1:]:
                        t = ("fn", "attr:" + a, (t,))
                    return t
                # sympy singletons
                tail = d.split(".")[-1]
                if d.split(".")[0] in ("sp", "sympy") and tail in ("Zero", "One", "NegativeOne"):
                    return num({"Zero": 0, "One": 1, "NegativeOne": -1}[tail])
                return atom(d)
            return atom(norm(n))
        if isinstance(n, ast.Constant):
            if isinstance(n.value, bool):
                return atom(str(n.value))
            if isinstance(n.value, (int, float)):
                return num(n.value)
            return atom(repr(n.value))
        if isinstance(n, ast.UnaryOp):
            v = self.ev(n.operand)
            if isinstance(n.op, ast.USub):
                return mk_mul([num(-1), v])
            if isinstance(n.op, ast.UAdd):
                return v
            if isinstance(n.op, ast.Not):
                return ("fn", "not", (v,))
            return ("fn", "~", (v,))
        if isinstance(n, ast.BinOp):
            l, r = self.ev(n.left), self.ev(n.right)
            if isinstance(n.op, ast.Add):
                return mk_add([l, r])
            if isinstance(n.op, ast.Sub):
                return mk_add([l, mk_mul([num(-1), r])])
            if isinstance(n.op, ast.Mult):
                return mk_mul([l, r])
            if isinstance(n.op, ast.Div):
                return mk_mul([l, mk_pow(r, num(-1))])
            if isinstance(n.op, ast.Pow):
                return mk_pow(l, r)
            return ("fn", type(n.op).__name__, (l, r))
        if isinstance(n, ast.Compare) and len(n.ops) == 1:
            op = _REL.get(type(n.ops[0]))
            if op:
                return ("rel", op, self.ev(n.left), self.ev(n.comparators[0]))
            if isinstance(n.ops[0], (ast.In, ast.NotIn, ast.Is, ast.IsNot)):
                nm = {ast.In: "in", ast.NotIn: "not in", ast.Is: "is", ast.IsNot: "is not"}[type(n.ops[0])]
                return ("fn", nm, (self.ev(n.left), self.ev(n.comparators[0])))
            return atom(norm(n))
        if isinstance(n, ast.Call):
            return self.call(n)
        if isinstance(n, ast.Tuple):
            return ("fn", "tuple", tuple(self.ev(e) for e in n.elts))
        if isinstance(n, ast.IfExp):
            return ("ite", self.ev(n.test), self.ev(n.body), self.ev(n.orelse))
        return atom(norm(n))

    def call(self, n: ast.Call) -> tuple:
        d = dotted(n.func) or norm(n.func)
        kws = {k.arg: k.value for k in n.keywords if k.arg}
        if d in self.funcs:
            return self.funcs[d](self, n)
        tail = d.split(".")[-1]
        head = d.split(".")[0]
        args = [a for a in n.args]
        if d in self.IDENTITY_CALLS and args:
            return self.ev(args[-1] if tail == "cast" else args[0])
        if head in ("sp", "sympy") or d in ("abs",):
            ev_kw = kws.get("evaluate")
            if tail == "Add":
                return mk_add([self.ev(a) for a in args])
            if tail == "Mul":
                return mk_mul([self.ev(a) for a in args])
            if tail == "Pow" and len(args) == 2:
                return mk_pow(self.ev(args[0]), self.ev(args[1]))
            if tail == "Integer" and len(args) == 1:
                return self.ev(args[0])
            if tail in ("exp", "log", "Abs", "abs", "sqrt", "sin", "cos", "Eq", "Piecewise"):
                name = {"abs": "Abs"}.get(tail, tail)
                if name == "Eq" and len(args) == 2:
                    return ("rel", "==", self.ev(args[0]), self.ev(args[1]))
                if name == "Piecewise":
                    return self._piecewise(args)
                return ("fn", name, tuple(self.ev(a) for a in args))
            if tail == "Symbol" and args:
                return ("fn", "Symbol", (self.ev(args[0]),))
        if d == "sympy.functions.Piecewise" or tail == "Piecewise":
            return self._piecewise(args)
        # method calls on terms: x.diff(y)
        if isinstance(n.func, ast.Attribute) and n.func.attr == "diff" and len(args) == 1:
            return ("fn", "diff", (self.ev(n.func.value), self.ev(args[0])))
        return ("fn", d, tuple(self.ev(a) for a in args) + tuple(("fn", f"kw:{k}", (self.ev(v),)) for k, v in sorted(kws.items())))

    def _piecewise(self, args) -> tuple:
        pairs = []
        for a in args:
            if isinstance(a, ast.Tuple) and len(a.elts) == 2:
                pairs.append((self.ev(a.elts[0]), self.ev(a.elts[1])))
            else:
                pairs.append((self.ev(a), atom("?")))
        return ("pw", tuple(pairs))


def parse_term(text: str, env=None, atoms=None, funcs=None) -> tuple:
    """Evaluate a reference formula written as a Python expression."""
    return TermEval(env, atoms, funcs).ev(ast.parse(text, mode="eval").body)
