"""Term evaluator and path enumerator (TE), DESIGN.md section 2.2.

* ``enumerate_paths(stmts)`` walks a statement list (if/elif/else, continue, break, return,
  raise; nested loops are kept as opaque effects) and yields every propositionally feasible
  path as ``Path(literals, effects, exit)``.  ``a or b`` / ``a and b`` / ``not a`` in tests are
  expanded into conjunctions of literals over opaque atoms (normalised source text).
* ``TermEval`` maps expression ASTs of *expression-building code* to terms over opaque atoms,
  normalised modulo associativity/commutativity of + and *, a-b = a+(-1)b, a/b = a*b**-1 and
  folding of integer literals.  It is a syntactic normaliser, not sympy and not a solver.
"""

from __future__ import annotations

import ast
from dataclasses import dataclass, field

from .sm import dotted, norm

# ---------------------------------------------------------------------------
# paths


@dataclass
class Path:
    lits: tuple  # ((atom_text, polarity), ...)
    effects: list  # statement nodes executed, in order
    exit: str  # 'fall' | 'continue' | 'break' | 'return' | 'raise'
    exit_node: ast.AST | None = None

    def pred(self) -> str:
        return " and ".join((a if p else f"not ({a})") for a, p in self.lits) or "True"

    def has(self, atom: str, pol: bool = True) -> bool:
        return (atom, pol) in self.lits


def _expand(test, pol: bool) -> list[list[tuple[str, bool]]]:
    """DNF of (test == pol) as lists of literals."""
    if isinstance(test, ast.UnaryOp) and isinstance(test.op, ast.Not):
        return _expand(test.operand, not pol)
    if isinstance(test, ast.BoolOp):
        is_or = isinstance(test.op, ast.Or)
        vals = test.values
        if (is_or and pol) or ((not is_or) and not pol):
            # disjunction of (v_i == pol): first i-1 are (not pol), i-th is pol
            out = []
            prefix: list[list[tuple[str, bool]]] = [[]]
            for v in vals:
                for pre in prefix:
                    for alt in _expand(v, pol):
                        out.append(pre + alt)
                newprefix = []
                for pre in prefix:
                    for alt in _expand(v, not pol):
                        newprefix.append(pre + alt)
                prefix = newprefix
            return out
        # conjunction of all (v_i == pol)
        out = [[]]
        for v in vals:
            new = []
            for pre in out:
                for alt in _expand(v, pol):
                    new.append(pre + alt)
            out = new
        return out
    return [[(norm(test), pol)]]


def _feasible(lits) -> bool:
    seen = {}
    for a, p in lits:
        if a in seen and seen[a] != p:
            return False
        seen[a] = p
    return True


def _dedupe(lits):
    out = []
    for l in lits:
        if l not in out:
            out.append(l)
    return out


def _resolve_bool_locals(st: ast.If, effects: list) -> ast.If:
    """A test that names a local bound (on this path) to a boolean combination is expanded through that definition,
    so that `flag = a and not b; if flag:` gives the same literals as `if a and not b:`."""
    import copy

    defs: dict[str, ast.AST] = {}
    for e in effects:
        if isinstance(e, ast.Assign) and len(e.targets) == 1 and isinstance(e.targets[0], ast.Name):
            v = e.value
            if isinstance(v, ast.BoolOp) or (isinstance(v, ast.UnaryOp) and isinstance(v.op, ast.Not)):
                defs[e.targets[0].id] = v
            else:
                defs.pop(e.targets[0].id, None)
        elif isinstance(e, (ast.AugAssign, ast.AnnAssign)) and isinstance(e.target, ast.Name):
            defs.pop(e.target.id, None)
    if not defs or not any(isinstance(n, ast.Name) and n.id in defs for n in ast.walk(st.test)):
        return st

    class R(ast.NodeTransformer):
        def visit_Name(self, node):
            if node.id in defs and isinstance(node.ctx, ast.Load):
                return self.visit(copy.deepcopy(defs[node.id]))
            return node

    new = copy.copy(st)
    new.test = R().visit(copy.deepcopy(st.test))
    return new


def enumerate_paths(stmts, max_paths: int = 4096) -> list[Path]:
    """All feasible paths through ``stmts`` (one pass; loops inside are opaque effects)."""
    results: list[Path] = []

    def go(todo: list, lits: list, effects: list):
        if len(results) > max_paths:
            raise RuntimeError("too many paths")
        if not todo:
            results.append(Path(tuple(lits), effects, "fall"))
            return
        st, rest = todo[0], todo[1:]
        if isinstance(st, ast.If):
            st = _resolve_bool_locals(st, effects)
            for alt in _expand(st.test, True):
                l2 = _dedupe(lits + alt)
                if _feasible(l2):
                    go(list(st.body) + rest, l2, list(effects))
            for alt in _expand(st.test, False):
                l2 = _dedupe(lits + alt)
                if _feasible(l2):
                    go(list(st.orelse) + rest, l2, list(effects))
            return
        if isinstance(st, ast.Continue):
            results.append(Path(tuple(lits), effects, "continue", st))
            return
        if isinstance(st, ast.Break):
            results.append(Path(tuple(lits), effects, "break", st))
            return
        if isinstance(st, ast.Return):
            results.append(Path(tuple(lits), effects + [st], "return", st))
            return
        if isinstance(st, ast.Raise):
            results.append(Path(tuple(lits), effects + [st], "raise", st))
            return
        if isinstance(st, ast.Try):
            # the try body is taken as the normal path; handlers are separate (exceptional) paths
            go(list(st.body) + list(st.orelse) + list(st.finalbody) + rest, lits, list(effects))
            return
        if isinstance(st, ast.With):
            go(list(st.body) + rest, lits, effects + [st])
            return
        go(rest, lits, effects + [st])

    go(list(stmts), [], [])
    return results


# ---------------------------------------------------------------------------
# terms


def _key(t) -> str:
    return repr(t)


def num(n) -> tuple:
    return ("num", n)


def atom(s: str) -> tuple:
    return ("atom", s)


def is_num(t) -> bool:
    return isinstance(t, tuple) and t and t[0] == "num"


def mk_add(args) -> tuple:
    flat, const = [], 0
    for a in args:
        if a[0] == "+":
            for b in a[1]:
                if is_num(b):
                    const += b[1]
                else:
                    flat.append(b)
        elif is_num(a):
            const += a[1]
        else:
            flat.append(a)
    if const != 0:
        flat.append(num(const))
    if not flat:
        return num(0)
    if len(flat) == 1:
        return flat[0]
    return ("+", tuple(sorted(flat, key=_key)))


def mk_mul(args) -> tuple:
    flat, const = [], 1
    for a in args:
        if a[0] == "*":
            for b in a[1]:
                if is_num(b):
                    const *= b[1]
                else:
                    flat.append(b)
        elif is_num(a):
            const *= a[1]
        else:
            flat.append(a)
    if const == 0:
        return num(0)
    if const != 1:
        flat.append(num(const))
    if not flat:
        return num(1)
    if len(flat) == 1:
        return flat[0]
    return ("*", tuple(sorted(flat, key=_key)))


def mk_pow(b, e) -> tuple:
    if is_num(e) and e[1] == 1:
        return b
    if is_num(b) and is_num(e) and isinstance(e[1], int) and e[1] >= 0 and isinstance(b[1], int):
        return num(b[1] ** e[1])
    return ("^", b, e)


def show(t) -> str:
    k = t[0]
    if k == "num":
        return str(t[1])
    if k == "atom":
        return t[1]
    if k == "+":
        return "(" + " + ".join(show(x) for x in t[1]) + ")"
    if k == "*":
        return "(" + " * ".join(show(x) for x in t[1]) + ")"
    if k == "^":
        return f"({show(t[1])} ** {show(t[2])})"
    if k == "fn":
        return f"{t[1]}(" + ", ".join(show(x) for x in t[2]) + ")"
    if k == "ite":
        return f"ITE({show(t[1])}, {show(t[2])}, {show(t[3])})"
    if k == "rel":
        return f"({show(t[2])} {t[1]} {show(t[3])})"
    if k == "pw":
        return "Piecewise(" + ", ".join(f"({show(e)}, {show(c)})" for e, c in t[1]) + ")"
    return repr(t)


_REL = {ast.Gt: ">", ast.Lt: "<", ast.GtE: ">=", ast.LtE: "<=", ast.Eq: "==", ast.NotEq: "!="}


def _is_strterm(t) -> bool:
    return (t[0] == "atom" and isinstance(t[1], str) and len(t[1]) >= 2 and t[1][0] in "'\"" and t[1][-1] == t[1][0]) or (t[0] == "fn" and t[1] == "cat")


def _mk_cat(parts) -> tuple:
    flat = []
    for p in parts:
        if p[0] == "fn" and p[1] == "cat":
            flat.extend(p[2])
        else:
            flat.append(p)
    out = []
    for p in flat:
        if out and _is_strterm(p) and p[0] == "atom" and out[-1][0] == "atom" and _is_strterm(out[-1]):
            import ast as _a

            out[-1] = atom(repr(_a.literal_eval(out[-1][1]) + _a.literal_eval(p[1])))
        else:
            out.append(p)
    out = [p for p in out if not (p[0] == "atom" and p[1] in ("''", '""'))]
    if len(out) == 1:
        return out[0]
    return ("fn", "cat", tuple(out))


class TermEval:
    """Evaluate an expression AST to a normalised term.

    ``env`` maps local names to terms (filled while walking a path); ``atoms`` maps dotted source
    texts to canonical atom names (role binding, e.g. ``x.state.symbol`` -> STATE); ``funcs``
    maps dotted callee names to handlers (name -> callable(list of arg terms, keywords) -> term).
    """

    IDENTITY_CALLS = {"relational_to_piecewise", "sympify", "sp.sympify", "sympy.sympify", "cast", "typing.cast", "float", "sympy.S", "sp.S"}

    def __init__(self, env=None, atoms=None, funcs=None):
        self.env = dict(env or {})
        self.atoms = dict(atoms or {})
        self.funcs = dict(funcs or {})

    def ev(self, n) -> tuple:
        d = dotted(n) if isinstance(n, (ast.Name, ast.Attribute)) else None
        if d is not None and d in self.atoms:
            return atom(self.atoms[d])
        if isinstance(n, ast.Name):
            if n.id in self.env:
                return self.env[n.id]
            return atom(n.id)
        if isinstance(n, ast.Attribute):
            if d is not None:
                root = d.split(".")[0]
                if root in self.env and d.count(".") >= 1:
                    t = self.env[root]
                    for a in d.split(".")[1:]:
                        t = ("fn", "attr:" + a, (t,))
                    return t
                # sympy singletons
                tail = d.split(".")[-1]
                if d.split(".")[0] in ("sp", "sympy") and tail in ("Zero", "One", "NegativeOne"):
                    return num({"Zero": 0, "One": 1, "NegativeOne": -1}[tail])
                return atom(d)
            return atom(norm(n))
        if isinstance(n, ast.Constant):
            if isinstance(n.value, bool):
                return atom(str(n.value))
            if isinstance(n.value, (int, float)):
                return num(n.value)
            return atom(repr(n.value))
        if isinstance(n, ast.UnaryOp):
            v = self.ev(n.operand)
            if isinstance(n.op, ast.USub):
                return mk_mul([num(-1), v])
            if isinstance(n.op, ast.UAdd):
                return v
            if isinstance(n.op, ast.Not):
                return ("fn", "not", (v,))
            return ("fn", "~", (v,))
        if isinstance(n, ast.JoinedStr):
            parts = []
            for v in n.values:
                if isinstance(v, ast.Constant):
                    parts.append(atom(repr(str(v.value))))
                elif v.format_spec is None and v.conversion in (-1, 115):
                    parts.append(self.ev(v.value))
                else:
                    return atom(norm(n))
            return _mk_cat(parts)
        if isinstance(n, ast.BinOp):
            l, r = self.ev(n.left), self.ev(n.right)
            if isinstance(n.op, ast.Add) and (_is_strterm(l) or _is_strterm(r)):
                return _mk_cat([l, r])  # string concatenation is not commutative
            if isinstance(n.op, ast.Add):
                return mk_add([l, r])
            if isinstance(n.op, ast.Sub):
                return mk_add([l, mk_mul([num(-1), r])])
            if isinstance(n.op, ast.Mult):
                return mk_mul([l, r])
            if isinstance(n.op, ast.Div):
                return mk_mul([l, mk_pow(r, num(-1))])
            if isinstance(n.op, ast.Pow):
                return mk_pow(l, r)
            return ("fn", type(n.op).__name__, (l, r))
        if isinstance(n, ast.Compare) and len(n.ops) == 1:
            op = _REL.get(type(n.ops[0]))
            if op:
                return ("rel", op, self.ev(n.left), self.ev(n.comparators[0]))
            if isinstance(n.ops[0], (ast.In, ast.NotIn, ast.Is, ast.IsNot)):
                nm = {ast.In: "in", ast.NotIn: "not in", ast.Is: "is", ast.IsNot: "is not"}[type(n.ops[0])]
                return ("fn", nm, (self.ev(n.left), self.ev(n.comparators[0])))
            return atom(norm(n))
        if isinstance(n, ast.Call):
            return self.call(n)
        if isinstance(n, ast.Tuple):
            return ("fn", "tuple", tuple(self.ev(e) for e in n.elts))
        if isinstance(n, ast.IfExp):
            return ("ite", self.ev(n.test), self.ev(n.body), self.ev(n.orelse))
        return atom(norm(n))

    def call(self, n: ast.Call) -> tuple:
        d = dotted(n.func) or norm(n.func)
        kws = {k.arg: k.value for k in n.keywords if k.arg}
        if d in self.funcs:
            return self.funcs[d](self, n)
        tail = d.split(".")[-1]
        head = d.split(".")[0]
        args = [a for a in n.args]
        if d in self.IDENTITY_CALLS and args:
            return self.ev(args[-1] if tail == "cast" else args[0])
        if head in ("sp", "sympy") or d in ("abs",):
            ev_kw = kws.get("evaluate")
            if tail == "Add":
                return mk_add([self.ev(a) for a in args])
            if tail == "Mul":
                return mk_mul([self.ev(a) for a in args])
            if tail == "Pow" and len(args) == 2:
                return mk_pow(self.ev(args[0]), self.ev(args[1]))
            if tail == "Integer" and len(args) == 1:
                return self.ev(args[0])
            if tail in ("exp", "log", "Abs", "abs", "sqrt", "sin", "cos", "Eq", "Piecewise"):
                name = {"abs": "Abs"}.get(tail, tail)
                if name == "Eq" and len(args) == 2:
                    return ("rel", "==", self.ev(args[0]), self.ev(args[1]))
                if name == "Piecewise":
                    return self._piecewise(args)
                return ("fn", name, tuple(self.ev(a) for a in args))
            if tail == "Symbol" and args:
                return ("fn", "Symbol", (self.ev(args[0]),))
        if d == "sympy.functions.Piecewise" or tail == "Piecewise":
            return self._piecewise(args)
        # method calls on terms: x.diff(y)
        if isinstance(n.func, ast.Attribute) and n.func.attr == "diff" and len(args) == 1:
            return ("fn", "diff", (self.ev(n.func.value), self.ev(args[0])))
        return ("fn", d, tuple(self.ev(a) for a in args) + tuple(("fn", f"kw:{k}", (self.ev(v),)) for k, v in sorted(kws.items())))

    def _piecewise(self, args) -> tuple:
        pairs = []
        for a in args:
            if isinstance(a, ast.Tuple) and len(a.elts) == 2:
                pairs.append((self.ev(a.elts[0]), self.ev(a.elts[1])))
            else:
                pairs.append((self.ev(a), atom("?")))
        return ("pw", tuple(pairs))


def parse_term(text: str, env=None, atoms=None, funcs=None) -> tuple:
    """Evaluate a reference formula written as a Python expression."""
    return TermEval(env, atoms, funcs).ev(ast.parse(text, mode="eval").body)


# ---------------------------------------------------------------------------
# partial evaluation of small dispatch functions (operator tables)


class _Raise(Exception):
    def __init__(self, exc_name: str):
        self.exc_name = exc_name


class _Unknown(Exception):
    pass


class PEval:
    """Specialise a small function for constant values of some parameters and return the term it builds.

    Handles the shapes a dispatch function takes in practice: ``if op == "+": return ...`` chains, early returns,
    ``TABLE[op](a, b)`` with a module-level dict of lambdas / helper functions, ``try: f = TABLE[op] except KeyError:
    raise ...``, ``match``-less helper calls.  Everything else is 'unknown' (never guessed).  Nothing is executed:
    conditions are decided only when they compare constants."""

    def __init__(self, module: ast.Module, atoms=None, identity=(), distinct=()):
        self.module = module
        self.distinct = set(distinct)
        self.atoms = dict(atoms or {})
        self.identity = set(identity)
        self.mod_defs: dict[str, ast.AST] = {}
        for st in module.body:
            if isinstance(st, ast.FunctionDef):
                self.mod_defs[st.name] = st
            elif isinstance(st, ast.Assign) and len(st.targets) == 1 and isinstance(st.targets[0], ast.Name):
                self.mod_defs[st.targets[0].id] = st.value
            elif isinstance(st, ast.AnnAssign) and isinstance(st.target, ast.Name) and st.value is not None:
                self.mod_defs[st.target.id] = st.value

    # values: ('const', python value) | term tuples | ('callable', node, closure_env) | ('dict', {key: node}, env)
    def run(self, fn: ast.FunctionDef, args: dict, depth: int = 0):
        if depth > 6:
            raise _Unknown()
        env = dict(args)
        return self._block(fn.body, env, depth)

    def outcome(self, fn: ast.FunctionDef, args: dict):
        try:
            return ("return", self.run(fn, args))
        except _Raise as r:
            return ("raise", r.exc_name)
        except _Unknown:
            return ("unknown", None)

    def _block(self, stmts, env, depth):
        for st in stmts:
            if isinstance(st, ast.Expr):
                continue
            if isinstance(st, (ast.Assign, ast.AnnAssign)):
                tgts = st.targets if isinstance(st, ast.Assign) else [st.target]
                if st.value is None:
                    continue
                v = self._ev(st.value, env, depth)
                for t in tgts:
                    if isinstance(t, ast.Name):
                        env[t.id] = v
                    else:
                        raise _Unknown()
                continue
            if isinstance(st, ast.Return):
                if st.value is None:
                    return ("const", None)
                return self._ev(st.value, env, depth)
            if isinstance(st, ast.Raise):
                name = "Exception"
                if st.exc is not None:
                    e = st.exc.func if isinstance(st.exc, ast.Call) else st.exc
                    name = (dotted(e) or "Exception").split(".")[-1]
                raise _Raise(name)
            if isinstance(st, ast.If):
                c = self._test(st.test, env, depth)
                if c is None:
                    raise _Unknown()
                r = self._block(st.body if c else st.orelse, env, depth)
                if r is not None:
                    return r
                continue
            if isinstance(st, ast.Try):
                try:
                    r = self._block(st.body, env, depth)
                    if r is not None:
                        return r
                    r = self._block(st.orelse, env, depth)
                    if r is not None:
                        return r
                except _Raise as exc:
                    handled = False
                    for h in st.handlers:
                        names = []
                        if h.type is None:
                            names = [exc.exc_name]
                        else:
                            ts = h.type.elts if isinstance(h.type, ast.Tuple) else [h.type]
                            names = [(dotted(t) or "").split(".")[-1] for t in ts]
                        if exc.exc_name in names or "Exception" in names or "BaseException" in names or (exc.exc_name == "KeyError" and "LookupError" in names):
                            handled = True
                            r = self._block(h.body, env, depth)
                            if r is not None:
                                return r
                            break
                    if not handled:
                        raise
                continue
            if isinstance(st, ast.Pass):
                continue
            raise _Unknown()
        return None

    def _test(self, t, env, depth):
        if isinstance(t, ast.UnaryOp) and isinstance(t.op, ast.Not):
            c = self._test(t.operand, env, depth)
            return None if c is None else (not c)
        if isinstance(t, ast.BoolOp):
            vals = [self._test(v, env, depth) for v in t.values]
            if any(v is None for v in vals):
                return None
            return all(vals) if isinstance(t.op, ast.And) else any(vals)
        if isinstance(t, ast.Compare) and len(t.ops) == 1:
            try:
                l = self._ev(t.left, env, depth)
                r = self._ev(t.comparators[0], env, depth)
            except (_Unknown, _Raise):
                return None
            op = t.ops[0]
            if l[0] == "const" and r[0] == "const":
                if isinstance(op, (ast.Eq, ast.Is)):
                    return l[1] == r[1]
                if isinstance(op, (ast.NotEq, ast.IsNot)):
                    return l[1] != r[1]
                if isinstance(op, ast.In):
                    try:
                        return l[1] in r[1]
                    except TypeError:
                        return None
                if isinstance(op, ast.NotIn):
                    try:
                        return l[1] not in r[1]
                    except TypeError:
                        return None
            if isinstance(op, (ast.Is, ast.IsNot, ast.Eq, ast.NotEq)) and {l[0], r[0]} & {"callable", "dict"} and "const" in (l[0], r[0]):
                c = l if l[0] == "const" else r
                if c[1] is None:
                    return isinstance(op, (ast.IsNot, ast.NotEq))
            if l[0] in ("const", "atom") and r[0] == "dict" and isinstance(op, (ast.In, ast.NotIn)):
                res = l in r[1]
                return res if isinstance(op, ast.In) else not res
            if isinstance(op, (ast.Eq, ast.Is, ast.NotEq, ast.IsNot)) and l[0] in ("const", "atom") and r[0] in ("const", "atom"):
                # enum members / constants known to be pairwise distinct
                if l == r:
                    return isinstance(op, (ast.Eq, ast.Is))
                if self._distinct(l) and self._distinct(r):
                    return isinstance(op, (ast.NotEq, ast.IsNot))
        return None

    def _ev(self, n, env, depth):
        if isinstance(n, ast.Constant):
            return ("const", n.value)
        if isinstance(n, (ast.Tuple, ast.List, ast.Set)):
            vals = [self._ev(e, env, depth) for e in n.elts]
            if all(v[0] == "const" for v in vals):
                return ("const", tuple(v[1] for v in vals))
            return ("fn", "tuple", tuple(vals))
        if isinstance(n, ast.Name):
            if n.id in env:
                return env[n.id]
            if n.id in self.mod_defs:
                d = self.mod_defs[n.id]
                if isinstance(d, ast.FunctionDef):
                    return ("callable", d, {})
                return self._ev(d, {}, depth + 1)
            if n.id in self.atoms:
                return atom(self.atoms[n.id])
            return atom(n.id)
        if isinstance(n, ast.Lambda):
            return ("callable", n, dict(env))
        if isinstance(n, ast.Dict):
            keys = {}
            for k, v in zip(n.keys, n.values):
                if k is None:
                    raise _Unknown()
                kv = self._ev(k, env, depth)
                if kv[0] not in ("const", "atom"):
                    raise _Unknown()
                keys[kv] = (v, dict(env))
            return ("dict", keys)
        if isinstance(n, ast.Subscript):
            base = self._ev(n.value, env, depth)
            key = self._ev(n.slice, env, depth)
            if base[0] == "dict" and key[0] in ("const", "atom"):
                if key not in base[1]:
                    raise _Raise("KeyError")
                node, cenv = base[1][key]
                return self._ev(node, cenv, depth + 1)
            raise _Unknown()
        if isinstance(n, ast.Call):
            d = dotted(n.func)
            # dict.get(key[, default])
            if isinstance(n.func, ast.Attribute) and n.func.attr == "get" and n.args:
                base = self._ev(n.func.value, env, depth)
                key = self._ev(n.args[0], env, depth)
                if base[0] == "dict" and key[0] in ("const", "atom"):
                    if key in base[1]:
                        node, cenv = base[1][key]
                        return self._ev(node, cenv, depth + 1)
                    if len(n.args) > 1:
                        return self._ev(n.args[1], env, depth)
                    return ("const", None)
            if d is not None and (d in self.identity or d.split(".")[-1] in self.identity) and (n.args or len(n.keywords) == 1):
                return self._ev(n.args[0] if n.args else n.keywords[0].value, env, depth)
            # callable held in a local / module-level helper
            callee = None
            if isinstance(n.func, ast.Name):
                if n.func.id in env and isinstance(env[n.func.id], tuple) and env[n.func.id][0] == "callable":
                    callee = env[n.func.id]
                elif n.func.id in self.mod_defs and isinstance(self.mod_defs[n.func.id], (ast.FunctionDef, ast.Lambda)):
                    callee = ("callable", self.mod_defs[n.func.id], {})
            elif isinstance(n.func, (ast.Subscript, ast.Call)):
                v = self._ev(n.func, env, depth)
                if v[0] == "callable":
                    callee = v
            if callee is not None:
                return self._apply(callee, n, env, depth)
            # sympy constructors and everything else: build a term with TermEval on evaluated arguments
            targs = []
            for a in n.args:
                targs.append(self._term(self._ev(a, env, depth)))
            tail = (d or "").split(".")[-1]
            head = (d or "").split(".")[0]
            if head in ("sp", "sympy"):
                if tail == "Add":
                    return mk_add(targs)
                if tail == "Mul":
                    return mk_mul(targs)
                if tail == "Pow" and len(targs) == 2:
                    return mk_pow(targs[0], targs[1])
                if tail == "Integer" and len(targs) == 1:
                    return targs[0]
            return ("fn", d or norm(n.func), tuple(targs))
        if isinstance(n, ast.UnaryOp) and isinstance(n.op, ast.USub):
            return mk_mul([num(-1), self._term(self._ev(n.operand, env, depth))])
        if isinstance(n, ast.UnaryOp) and isinstance(n.op, ast.UAdd):
            return self._ev(n.operand, env, depth)
        if isinstance(n, ast.BinOp):
            l, r = self._term(self._ev(n.left, env, depth)), self._term(self._ev(n.right, env, depth))
            if isinstance(n.op, ast.Add):
                return mk_add([l, r])
            if isinstance(n.op, ast.Sub):
                return mk_add([l, mk_mul([num(-1), r])])
            if isinstance(n.op, ast.Mult):
                return mk_mul([l, r])
            if isinstance(n.op, ast.Div):
                return mk_mul([l, mk_pow(r, num(-1))])
            if isinstance(n.op, ast.Pow):
                return mk_pow(l, r)
        if isinstance(n, ast.Attribute):
            d = dotted(n)
            if d:
                tail = d.split(".")[-1]
                if d.split(".")[0] in ("sp", "sympy") and tail in ("Zero", "One", "NegativeOne"):
                    return num({"Zero": 0, "One": 1, "NegativeOne": -1}[tail])
                return atom(d)
        raise _Unknown()

    def _distinct(self, v) -> bool:
        return v[0] == "const" or (v[0] == "atom" and v[1] in self.distinct)

    def env_before(self, fn: ast.FunctionDef, args: dict, stop: ast.AST):
        """Environment reached at the top-level statement of ``fn`` that contains ``stop`` (None when the statements
        before it are not understood, ('raise', name) when they raise)."""
        env = dict(args)
        try:
            for st in fn.body:
                if any(x is stop for x in ast.walk(st)):
                    return env
                r = self._block([st], env, 0)
                if r is not None:
                    return None
        except _Raise as e:
            return ("raise", e.exc_name)
        except _Unknown:
            return None
        return None

    def _term(self, v):
        if v[0] == "const":
            if isinstance(v[1], bool) or v[1] is None:
                return atom(str(v[1]))
            if isinstance(v[1], (int, float)):
                return num(v[1])
            return atom(repr(v[1]))
        if v[0] in ("callable", "dict"):
            raise _Unknown()
        return v

    def _apply(self, callee, call: ast.Call, env, depth):
        _, node, cenv = callee
        a = node.args
        params = [p.arg for p in a.posonlyargs + a.args]
        bound = dict(cenv)
        for i, arg in enumerate(call.args):
            if i >= len(params):
                raise _Unknown()
            bound[params[i]] = self._ev(arg, env, depth)
        for k in call.keywords:
            if k.arg is None:
                raise _Unknown()
            bound[k.arg] = self._ev(k.value, env, depth)
        defaults = dict(zip(params[len(params) - len(a.defaults):], a.defaults))
        for p in params:
            if p not in bound and p in defaults:
                bound[p] = self._ev(defaults[p], {}, depth)
        if isinstance(node, ast.Lambda):
            return self._ev(node.body, bound, depth + 1)
        r = self._block(node.body, bound, depth + 1)
        if r is None:
            return ("const", None)
        return r
