"""AST-level inlining of package-local helper calls.

Rules that analyse the statements of a function (loops, path tables, keyword wiring) must not depend on
whether a maintainer extracted part of the function into a helper.  ``inline_function`` returns a copy of a
function's ast in which calls to *simple* helpers - methods of the same class hierarchy called through
``self.``, functions of the same module called by name - are replaced by the helper's body:

* the helper's parameters are bound to the call's arguments by substitution (arguments that are plain
  names / attributes / constants are substituted textually; anything else is first assigned to a fresh local),
* ``return e`` at the tail of the helper becomes an assignment to a fresh local that replaces the call,
* locals of the helper are renamed with a unique prefix.

A helper is inlined only if every ``return`` is in tail position (last statement, or last statement of the
branches of a tail ``if``); generators, recursion, ``*args`` calls and nested functions are left alone.
Nothing is executed.
"""

from __future__ import annotations

import ast
import copy
import itertools

from .sm import Func, SourceModel, dotted, norm

_counter = itertools.count()

SIMPLE_ARG = (ast.Name, ast.Attribute, ast.Constant)

# private helpers that the rules address by name (they are analysed as functions of their own, never expanded)
NO_INLINE = {
    "_doprint", "_format", "_formatter", "_comment", "_shape_info", "_rhs_arguments", "_scheme_arguments", "_index", "_print_Piecewise",
    "_find_dependencies", "_handle_assignments", "_missing_variables_assignments", "_set_symbol", "_set_unit", "_print", "_module_format",
    "_print_nested", "_call_userfunc", "_call_userfunc_token",
}


def _tail_returns_only(body) -> bool:
    """All Return statements are in tail position."""

    def tail_ok(stmts) -> bool:
        for i, st in enumerate(stmts):
            last = i == len(stmts) - 1
            if isinstance(st, ast.Return):
                if not last:
                    return False
                continue
            if isinstance(st, ast.If) and last:
                if not tail_ok(st.body):
                    return False
                if st.orelse and not tail_ok(st.orelse):
                    return False
                continue
            # a non-tail statement must not contain a return at all
            for n in ast.walk(st):
                if isinstance(n, ast.Return):
                    return False
                if isinstance(n, (ast.Yield, ast.YieldFrom)):
                    return False
        return True

    return tail_ok(body)


def _ends_in_return(stmts) -> bool:
    if not stmts:
        return False
    last = stmts[-1]
    if isinstance(last, ast.Return):
        return True
    if isinstance(last, ast.If):
        return bool(last.orelse) and _ends_in_return(last.body) and _ends_in_return(last.orelse)
    if isinstance(last, ast.Raise):
        return True
    return False


class _Subst(ast.NodeTransformer):
    def __init__(self, mapping: dict[str, ast.AST], rename: dict[str, str]):
        self.mapping = mapping
        self.rename = rename

    def visit_Name(self, node):
        if node.id in self.mapping and isinstance(node.ctx, ast.Load):
            return copy.deepcopy(self.mapping[node.id])
        if node.id in self.rename:
            return ast.copy_location(ast.Name(self.rename[node.id], node.ctx), node)
        return node

    def visit_FunctionDef(self, node):
        return node  # nested definitions are left untouched

    visit_Lambda = visit_FunctionDef


def _returns_to_assign(stmts, target: str):
    out = []
    for st in stmts:
        if isinstance(st, ast.Return):
            val = st.value if st.value is not None else ast.Constant(None)
            out.append(ast.copy_location(ast.Assign([ast.Name(target, ast.Store())], val, lineno=st.lineno), st))
        elif isinstance(st, ast.If):
            new = copy.copy(st)
            new.body = _returns_to_assign(st.body, target)
            new.orelse = _returns_to_assign(st.orelse, target)
            out.append(new)
        else:
            out.append(st)
    return out


class Inliner:
    def __init__(self, sm: SourceModel, max_depth: int = 3):
        self.sm = sm
        self.max_depth = max_depth

    # -- callee resolution ---------------------------------------------------------------
    def resolve(self, f: Func, call: ast.Call) -> Func | None:
        """Only *private* helpers (leading underscore) and functions nested in the caller are expanded: public
        functions and methods are the vocabulary the rules are phrased in."""
        fn = call.func
        if any(isinstance(a, ast.Starred) for a in call.args) or any(k.arg is None for k in call.keywords):
            return None
        cname = fn.attr if isinstance(fn, ast.Attribute) else (fn.id if isinstance(fn, ast.Name) else "")
        nested = self.sm.funcs.get((f.rel, f"{f.qualname}.{cname}")) if isinstance(fn, ast.Name) else None
        if nested is not None:
            return nested
        if not cname.startswith("_") or cname.startswith("__") or cname in NO_INLINE or cname.startswith("_print_"):
            return None
        if isinstance(fn, ast.Attribute) and isinstance(fn.value, ast.Name) and fn.value.id == "self":
            cls = f.qualname.split(".")[0] if "." in f.qualname else None
            seen = set()
            while cls and cls not in seen:
                seen.add(cls)
                for (rel, qn), c in self.sm.classes.items():
                    if qn == cls and fn.attr in c.methods:
                        m = c.methods[fn.attr]
                        decs = m.decorators()
                        if any(d.split(".")[-1] in ("property", "cached_property", "abstractmethod", "staticmethod", "classmethod") for d in decs):
                            return None
                        return m
                bases = [c.bases for (rel, qn), c in self.sm.classes.items() if qn == cls]
                cls = bases[0][0].split(".")[-1] if bases and bases[0] else None
            return None
        if isinstance(fn, ast.Name):
            g = self.sm.funcs.get((f.rel, fn.id))
            if g is not None and "." not in g.qualname:
                return g
        return None

    def inlinable(self, g: Func) -> bool:
        a = g.node.args
        if a.vararg or a.kwarg:
            return False
        body = [s for s in g.node.body if not (isinstance(s, ast.Expr) and isinstance(s.value, ast.Constant))]
        if not body or len(list(ast.walk(g.node))) > 1500:
            return False
        if any(isinstance(n, (ast.Yield, ast.YieldFrom, ast.Global, ast.Nonlocal)) for n in ast.walk(g.node)):
            return False
        if any(isinstance(n, (ast.FunctionDef, ast.AsyncFunctionDef, ast.ClassDef)) for s in body for n in ast.walk(s)):
            return False
        return _tail_returns_only(body)

    # -- expansion --------------------------------------------------------------------------
    def expand_call(self, caller: Func, g: Func, call: ast.Call, is_method: bool):
        """-> (statements, result_name | None)"""
        uid = next(_counter)
        a = g.node.args
        params = [p.arg for p in a.posonlyargs + a.args]
        if is_method and params and params[0] in ("self", "cls"):
            params = params[1:]
        kwonly = [p.arg for p in a.kwonlyargs]
        defaults = dict(zip(params[len(params) - len(a.defaults):], a.defaults))
        for p, d in zip(a.kwonlyargs, a.kw_defaults):
            if d is not None:
                defaults[p.arg] = d
        bound: dict[str, ast.AST] = {}
        for i, arg in enumerate(call.args):
            if i >= len(params):
                return None
            bound[params[i]] = arg
        for k in call.keywords:
            if k.arg not in params + kwonly:
                return None
            bound[k.arg] = k.value
        for p in params + kwonly:
            if p not in bound:
                if p not in defaults:
                    return None
                bound[p] = defaults[p]
        pre = []
        mapping: dict[str, ast.AST] = {}
        # which parameters does the helper rebind?  those need a real local
        assigned = {n.id for n in ast.walk(g.node) if isinstance(n, ast.Name) and isinstance(n.ctx, ast.Store)}
        rename: dict[str, str] = {}
        for p, val in bound.items():
            if isinstance(val, SIMPLE_ARG) and p not in assigned:
                mapping[p] = val
            else:
                tmp = f"_il{uid}_{p}"
                pre.append(ast.Assign([ast.Name(tmp, ast.Store())], copy.deepcopy(val), lineno=call.lineno))
                rename[p] = tmp
        for name in assigned:
            if name not in rename and name not in bound:
                rename[name] = f"_il{uid}_{name}"
        # comprehension / loop targets are Store names too (covered by `assigned`)
        body = decomprehend([copy.deepcopy(s) for s in g.node.body if not (isinstance(s, ast.Expr) and isinstance(s.value, ast.Constant) and isinstance(s.value.value, str))])
        sub = _Subst(mapping, rename)
        body = [sub.visit(s) for s in body]
        result = None
        if any(isinstance(n, ast.Return) for s in body for n in ast.walk(s)):
            result = f"_il{uid}_result"
            body = _returns_to_assign(body, result)
        for s in pre + body:
            ast.fix_missing_locations(s)
        return pre + body, result

    def inline_function(self, f: Func) -> ast.FunctionDef:
        node = copy.deepcopy(f.node)
        node.body = decomprehend(node.body)
        stack = [f.qualname]

        def process_block(stmts, depth):
            out = []
            for st in stmts:
                # recurse into compound statements first
                for fld in ("body", "orelse", "finalbody"):
                    sub = getattr(st, fld, None)
                    if isinstance(sub, list) and sub and isinstance(sub[0], ast.stmt):
                        setattr(st, fld, process_block(sub, depth))
                if isinstance(st, ast.Try):
                    for h in st.handlers:
                        h.body = process_block(h.body, depth)
                if isinstance(st, (ast.FunctionDef, ast.AsyncFunctionDef, ast.ClassDef)):
                    out.append(st)
                    continue
                hoisted = []
                if depth < self.max_depth:
                    st = self._expand_in_stmt(f, st, hoisted, depth, stack, process_block)
                out.extend(hoisted)
                out.append(st)
            return out

        node.body = process_block(node.body, 0)
        ast.fix_missing_locations(node)
        return node

    def _expand_in_stmt(self, f: Func, st, hoisted: list, depth: int, stack, process_block):
        inl = self

        class T(ast.NodeTransformer):
            def visit_Lambda(self, n):
                return n

            def visit_ListComp(self, n):
                return n  # calls inside comprehensions depend on the loop variable: not hoistable

            visit_SetComp = visit_DictComp = visit_GeneratorExp = visit_ListComp

            def visit_IfExp(self, n):
                n.test = self.visit(n.test)
                return n

            def visit_BoolOp(self, n):
                if n.values:
                    n.values[0] = self.visit(n.values[0])
                return n

            def visit_Call(self, n):
                self.generic_visit(n)
                g = inl.resolve(f, n)
                if g is None or g.qualname in stack or not inl.inlinable(g):
                    return n
                is_method = isinstance(n.func, ast.Attribute)
                res = inl.expand_call(f, g, n, is_method)
                if res is None:
                    return n
                stmts, result = res
                stack.append(g.qualname)
                stmts = process_block(stmts, depth + 1)
                stack.pop()
                hoisted.extend(stmts)
                if result is None:
                    return ast.copy_location(ast.Constant(None), n)
                return ast.copy_location(ast.Name(result, ast.Load()), n)

        # only the "header" expressions of compound statements are evaluated before the body
        if isinstance(st, (ast.For, ast.AsyncFor)):
            st.iter = T().visit(st.iter)
            return st
        if isinstance(st, ast.While):
            return st
        if isinstance(st, ast.If):
            st.test = T().visit(st.test)
            return st
        if isinstance(st, (ast.With, ast.Try)):
            return st
        return T().visit(st)


def decomprehend(stmts: list) -> list:
    """Loop normal form: `x = [e for v in it if c]` / `return [...]` become explicit loops with `.append`, so that
    loop-based rules (and the inliner, which cannot hoist calls out of a comprehension) see one shape only."""
    out = []
    for st in stmts:
        for fld in ("body", "orelse", "finalbody"):
            sub = getattr(st, fld, None)
            if isinstance(sub, list) and sub and isinstance(sub[0], ast.stmt) and not isinstance(st, (ast.FunctionDef, ast.AsyncFunctionDef, ast.ClassDef)):
                setattr(st, fld, decomprehend(sub))
        if isinstance(st, ast.Try):
            for h in st.handlers:
                h.body = decomprehend(h.body)
        comp = None
        if isinstance(st, ast.Return) and isinstance(st.value, ast.ListComp):
            comp = st.value
        elif isinstance(st, ast.Assign) and len(st.targets) == 1 and isinstance(st.targets[0], ast.Name) and isinstance(st.value, ast.ListComp):
            comp = st.value
        if comp is None or len(comp.generators) != 1 or comp.generators[0].is_async:
            out.append(st)
            continue
        # only when the element contains a call (otherwise nothing is gained)
        if not any(isinstance(n, ast.Call) for n in ast.walk(comp.elt)):
            out.append(st)
            continue
        uid = next(_counter)
        acc = st.targets[0].id if isinstance(st, ast.Assign) else f"_dc{uid}_items"
        g = comp.generators[0]
        body: list = [ast.Expr(ast.Call(ast.Attribute(ast.Name(acc, ast.Load()), "append", ast.Load()), [comp.elt], []))]
        for c in reversed(g.ifs):
            body = [ast.If(c, body, [])]
        loop = ast.For(g.target, g.iter, body, [], lineno=st.lineno)
        init = ast.Assign([ast.Name(acc, ast.Store())], ast.List([], ast.Load()), lineno=st.lineno)
        new = [init, loop]
        if isinstance(st, ast.Return):
            new.append(ast.Return(ast.Name(acc, ast.Load())))
        for n in new:
            ast.copy_location(n, st)
            ast.fix_missing_locations(n)
        out.extend(new)
    return out


def inlined(sm: SourceModel, f: Func, max_depth: int = 3) -> Func:
    """A Func whose node has package-local helper calls expanded (cached on the source model)."""
    cache = sm.__dict__.setdefault("_inline_cache", {})
    key = (f.rel, f.qualname, max_depth)
    if key not in cache:
        try:
            node = Inliner(sm, max_depth).inline_function(f)
        except RecursionError:
            node = f.node
        g = Func(f.rel, f.qualname, node, f.cls)
        cache[key] = g
    return cache[key]
