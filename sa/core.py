"""Core plumbing: obligations, findings, known findings, evidence, exit protocol.

Exit protocol (DESIGN.md section 0):
  0  property held on everything analysed (KNOWN-FINDING lines may be printed)
  1  VIOLATION property=<id> replay=<path>   (a finding not listed in known_findings.json)
  2  ANALYSIS-ERROR (traceback, vanished anchor, instance floor not met)
"""

from __future__ import annotations

import dataclasses
import hashlib
import json
import os
import time
from pathlib import Path

VERIF = Path(__file__).resolve().parent.parent


class AnalysisError(Exception):
    """The analysis itself cannot run (anchor not found, floor not met)."""


@dataclasses.dataclass
class Obligation:
    rule: str
    construct: str  # file::qualname::normalised key (no line numbers)
    ok: bool
    what: str = ""
    where: str = ""  # file:line, for diagnosis only (never used as a key)
    trace: list | None = None
    nontrivial: bool = True
    undecided: bool = False


class Ctx:
    """Per-run context handed to every rule module."""

    def __init__(self, prop: str, repo: Path, tier: str, sm, seed: int = 0, quiet: bool = False):
        self.prop = prop
        self.repo = Path(repo)
        self.tier = tier
        self.sm = sm
        self.seed = seed
        self.quiet = quiet
        self.obligations: list[Obligation] = []
        self.rules_applied: dict[str, str] = {}
        self.assumptions: list[str] = []
        self.notes: list[str] = []
        self.floors: dict[str, int] = {}
        self.extra: dict = {}

    # -- registration -----------------------------------------------------
    def rule(self, rid: str, text: str, floor: int = 1) -> None:
        """``floor`` is the instance count confirmed by hand on the pinned tree.  The run fails (exit 2) when a rule
        analyses fewer than 60% of it: a rule that matches (almost) nothing would pass vacuously, but a tree that merely
        lost or merged a few instances must not trip the alarm."""
        self.rules_applied[rid] = text
        self.floors[rid] = max(1, int(floor * 0.6))

    def ok(self, rule: str, construct: str, what: str = "", where: str = "", nontrivial: bool = True):
        self.obligations.append(Obligation(rule, construct, True, what, where, None, nontrivial))

    def fail(self, rule: str, construct: str, what: str, where: str = "", trace=None):
        self.obligations.append(Obligation(rule, construct, False, what, where, trace, True))

    def check(self, cond: bool, rule: str, construct: str, what_ok: str, what_fail: str, where: str = "", trace=None):
        if cond:
            self.ok(rule, construct, what_ok, where)
        else:
            self.fail(rule, construct, what_fail, where, trace)
        return cond

    def undecided(self, rule: str, construct: str, why: str, where: str = ""):
        """The idiom this rule knows how to judge is not present (the code was restructured).  Nothing is claimed about
        the construct: no alarm (an unrecognised shape is not a deviation), but the run says so and the evidence
        counts it.  Use only when the *anchor idiom* is absent - a recognised idiom with a wrong detail is a failure."""
        o = Obligation(rule, construct, True, "UNDECIDED: " + why, where, None, False)
        o.undecided = True
        self.obligations.append(o)

    def assume(self, text: str) -> None:
        if text not in self.assumptions:
            self.assumptions.append(text)

    def broken(self, msg: str):
        raise AnalysisError(msg)

    def require(self, thing, msg: str):
        """A mechanism that a rule needs inside an anchor that *was* found.  If it is missing the current rule
        records a violation (the mechanism the property relies on is gone) and the analysis of this property stops."""
        if thing is None or thing is False or (hasattr(thing, "__len__") and len(thing) == 0):
            cur = list(self.rules_applied)[-1] if self.rules_applied else "R?"
            self.fail(cur, f"missing-mechanism::{msg[:120]}", msg + " (the mechanism this rule relies on is no longer there)")
            raise AnalysisError(msg)
        return thing

    # -- results ----------------------------------------------------------
    def failures(self) -> list[Obligation]:
        return [o for o in self.obligations if not o.ok]

    def check_floors(self) -> None:
        counts: dict[str, int] = {}
        for o in self.obligations:
            counts[o.rule] = counts.get(o.rule, 0) + 1
        # a floor guards against a rule that passes because it no longer matches anything; a rule that says
        # 'undecided' or reports a failure for some construct is not passing silently
        loud = {o.rule for o in self.obligations if not o.ok or getattr(o, "undecided", False)}
        for rid, floor in self.floors.items():
            if rid in loud:
                continue
            if counts.get(rid, 0) < floor:
                raise AnalysisError(
                    f"rule {rid} analysed {counts.get(rid, 0)} instance(s), below the confirmed floor {floor}: "
                    "a rule matching too few sites would pass vacuously"
                )


def load_known(path: Path | None = None) -> list[dict]:
    path = path or (VERIF / "known_findings.json")
    if not path.exists():
        return []
    return json.loads(path.read_text()).get("findings", [])


def finding_key(prop: str, o: Obligation) -> str:
    return f"{prop}|{o.rule}|{o.construct}"


def finish(ctx: Ctx, t0: float, level: str = "other", write_evidence: bool = True, selftest: dict | None = None) -> int:
    """Print verdict lines, write evidence and replay files, return the exit code."""
    known = [k for k in load_known() if k.get("property") == ctx.prop and k.get("status") == "open"]
    known_keys = {f"{k['property']}|{k['rule']}|{k['construct']}": k for k in known}
    fails = ctx.failures()
    new = []
    matched = set()
    for o in fails:
        key = finding_key(ctx.prop, o)
        if key in known_keys:
            matched.add(key)
        else:
            new.append(o)
    for key in sorted(matched):
        k = known_keys[key]
        print(f"KNOWN-FINDING: property={ctx.prop} rule={k['rule']} construct={k['construct']} :: {k['what']}")
    stale = [k for key, k in known_keys.items() if key not in matched]
    for k in stale:
        # an open finding that no longer reproduces is only a note (it suppresses nothing else)
        print(f"NOTE: listed finding no longer reported: rule={k['rule']} construct={k['construct']}")
    for o in ctx.obligations:
        if o.undecided:
            print(f"NOTE: undecided rule={o.rule} construct={o.construct} :: {o.what[11:][:200]}")
    rc = 0
    replay_dir = VERIF / "replay" / ctx.prop
    for o in new:
        rc = 1
        digest = hashlib.sha1(finding_key(ctx.prop, o).encode()).hexdigest()[:12]
        replay_dir.mkdir(parents=True, exist_ok=True)
        rp = replay_dir / f"{o.rule}-{digest}.json"
        rp.write_text(
            json.dumps(
                {
                    "property": ctx.prop,
                    "rule": o.rule,
                    "rule_text": ctx.rules_applied.get(o.rule, ""),
                    "construct": o.construct,
                    "where": o.where,
                    "what": o.what,
                    "trace": o.trace,
                    "repo": str(ctx.repo),
                },
                indent=1,
            )
        )
        print(f"FINDING rule={o.rule} at {o.where or '?'} construct={o.construct}\n    {o.what}")
        if o.trace:
            for line in o.trace[:12]:
                print(f"      | {line}")
        print(f"VIOLATION property={ctx.prop} replay={rp}")
    if write_evidence:
        write_evidence_file(ctx, t0, level, len(new), len(matched), selftest)
    if not ctx.quiet:
        n = len(ctx.obligations)
        und = sum(1 for o in ctx.obligations if getattr(o, "undecided", False))
        print(
            f"{ctx.prop} [{ctx.tier}] rules={len(ctx.rules_applied)} obligations={n} discharged={n - len(fails) - und} undecided={und} "
            f"known_findings={len(matched)} new_violations={len(new)} wall={time.time() - t0:.2f}s"
        )
    return rc


def write_evidence_file(ctx: Ctx, t0: float, level: str, n_new: int, n_known: int, selftest: dict | None):
    obs = ctx.obligations
    distinct = {o.construct for o in obs if o.nontrivial}
    per_rule: dict[str, dict] = {}
    for o in obs:
        d = per_rule.setdefault(o.rule, {"instances": 0, "passed": 0, "failed": 0})
        d["instances"] += 1
        d["passed" if o.ok else "failed"] += 1
    samples = []
    seen_rules: dict[str, int] = {}
    for o in obs:  # up to three samples per rule first, then failures
        if seen_rules.get(o.rule, 0) < 3 and o.nontrivial:
            seen_rules[o.rule] = seen_rules.get(o.rule, 0) + 1
            samples.append({"rule": o.rule, "construct": o.construct, "where": o.where, "verdict": "ok" if o.ok else "FAIL", "what": o.what[:300]})
    for o in obs:
        if not o.ok:
            samples.append({"rule": o.rule, "construct": o.construct, "where": o.where, "verdict": "FAIL", "what": o.what[:300]})
    cov = {
        "explanation": "static analysis of /repo source (ast / grammar loader / sympy MRO tables); rules applied: "
        + "; ".join(f"{k}: {v}" for k, v in ctx.rules_applied.items()),
        "obligations": len(obs),
        "discharged": sum(1 for o in obs if o.ok and not o.undecided),
        "evaluations": len(obs),
        "distinct_nontrivial": len(distinct),
        "rule": "one obligation per (rule, construct) instance found in the current source; non-trivial = the construct "
        "actually carries the rule's subject (counted as distinct construct keys)",
        "samples": samples[:60],
        "per_rule": per_rule,
        "floors": ctx.floors,
        "modules_parsed": len(ctx.sm.modules) if ctx.sm else 0,
        "functions_parsed": ctx.sm.n_functions if ctx.sm else 0,
        "known_findings_matched": n_known,
        "undecided": [{"rule": o.rule, "construct": o.construct, "why": o.what[11:]} for o in obs if o.undecided],
        "notes": ctx.notes,
        "exhaustive": True,
    }
    cov.update(ctx.extra)
    if selftest is not None:
        cov["selftest"] = selftest
    ev = {
        "property_id": ctx.prop,
        "tier": ctx.tier,
        "seed": ctx.seed,
        "level": level,
        "coverage": cov,
        "assumptions": ctx.assumptions,
        "wall_s": round(time.time() - t0, 3),
        "violations": n_new,
    }
    evdir = VERIF / "evidence"
    evdir.mkdir(exist_ok=True)
    tmp = evdir / f".{ctx.prop}.json.tmp{os.getpid()}"
    tmp.write_text(json.dumps(ev, indent=1, default=str))
    tmp.replace(evdir / f"{ctx.prop}.json")
