"""Printer model (PM), DESIGN.md section 2.5.

For each of the four printers (numpy, jax, c, ode-writer) and each sympy class of the producible
set P, the ``_print_<Class>`` method that sympy's dispatch would call is resolved:

* the gotranx classes are read from the ast (which ``_print_*`` methods they define, which sympy
  class they derive from) - gotranx itself is never imported;
* the sympy base class is imported and its MRO is searched (``inspect``-style, nothing is printed).

A resolved method is either a gotranx method (analysed from its own ast by the rules) or an
inherited sympy method, which must be in the vetted table below (read once for sympy 1.14; a method
that is not in the table is reported as unvetted, never silently passed).
"""

from __future__ import annotations

import ast
import importlib

from .core import AnalysisError
from .sm import Cls, Func, SourceModel, dotted, fstring_skeleton, norm

PRINTERS = {
    "numpy": ("codegen/python.py", "GotranPythonCodePrinter"),
    "jax": ("codegen/jax.py", "JaxPrinter"),
    "c": ("codegen/c.py", "GotranCCodePrinter"),
    "ode": ("codegen/ode.py", "BaseGotranODECodePrinter"),
}

P_CLASSES = [
    ("sympy", "Add"), ("sympy", "Mul"), ("sympy", "Pow"),
    ("sympy.core.numbers", "Integer"), ("sympy.core.numbers", "Zero"), ("sympy.core.numbers", "One"), ("sympy.core.numbers", "NegativeOne"),
    ("sympy.core.numbers", "Rational"), ("sympy.core.numbers", "Half"), ("sympy.core.numbers", "Float"),
    ("sympy", "Symbol"), ("sympy.core.numbers", "Pi"), ("sympy.core.numbers", "Exp1"),
    ("sympy", "exp"), ("sympy", "log"), ("sympy", "sin"), ("sympy", "cos"), ("sympy", "tan"), ("sympy", "asin"), ("sympy", "acos"), ("sympy", "atan"),
    ("sympy", "Abs"), ("sympy", "floor"), ("sympy", "Mod"), ("sympy", "Piecewise"),
    ("sympy", "StrictLessThan"), ("sympy", "LessThan"), ("sympy", "StrictGreaterThan"), ("sympy", "GreaterThan"), ("sympy", "Equality"), ("sympy", "Unequality"),
    ("sympy", "And"), ("sympy", "Or"), ("sympy", "Not"), ("sympy.logic.boolalg", "ITE"),
    ("sympy.logic.boolalg", "BooleanTrue"), ("sympy.logic.boolalg", "BooleanFalse"),
    ("sympy", "sign"), ("sympy", "DiracDelta"), ("sympy", "Indexed"), ("sympy.codegen.ast", "Assignment"),
]

# classes that only the generator side / schemes produce; the .ode writer never sees them
NOT_FOR_WRITER = {"sign", "DiracDelta", "Indexed", "Assignment"}
# ITE only arises inside the condition of a Piecewise (sympy folds a relation over a Piecewise into it); the writer has no
# name for it, and relies on the shared _print_Piecewise helper rewriting such a condition with simplify_logic
ONLY_IN_CONDITIONS = {"ITE"}


class Resolved:
    def __init__(self, printer: str, cls: str, owner: str, method: str, func: Func | None):
        self.printer, self.cls, self.owner, self.method, self.func = printer, cls, owner, method, func

    @property
    def is_gotranx(self):
        return self.func is not None

    def key(self) -> str:
        return f"{self.printer}-printer::{self.cls}"

    def __repr__(self):
        return f"{self.owner}.{self.method}"


class PrinterModel:
    def __init__(self, sm: SourceModel):
        self.sm = sm
        self.chains: dict[str, list[Cls]] = {}
        self.sympy_base: dict[str, type] = {}
        for key, (short, cname) in PRINTERS.items():
            chain = []
            c = sm.cls(short, cname)
            rel = sm.rel(short)
            cur, cur_short = c, short
            while cur is not None:
                chain.append(cur)
                nxt = None
                for b in cur.bases:
                    bn = b.split(".")[-1]
                    # a base defined in the package?
                    imps = sm.module_imports(cur_short)
                    origin = imps.get(b.split(".")[0])
                    found = None
                    for (r, q), cc in sm.classes.items():
                        if q == bn and (r == cur.rel or (origin and sm.resolve_module_rel(origin.rpartition(".")[0]) == r)):
                            found = (cc, r)
                    if found:
                        nxt, cur_short = found[0], found[1]
                        break
                    # otherwise a sympy class: import it
                    if origin and origin.startswith("sympy"):
                        modname, _, name = origin.rpartition(".")
                        try:
                            self.sympy_base[key] = getattr(importlib.import_module(modname), name)
                        except Exception as e:
                            raise AnalysisError(f"cannot import sympy base {origin} of {cname}: {e}")
                cur = nxt
            if key not in self.sympy_base:
                raise AnalysisError(f"printer class {cname}: no sympy base class found")
            self.chains[key] = chain

    def sympy_class(self, mod: str, name: str):
        return getattr(importlib.import_module(mod), name)

    def resolve(self, printer: str, mod: str, name: str) -> Resolved:
        cls = self.sympy_class(mod, name)
        base = self.sympy_base[printer]
        for c in cls.__mro__:
            meth = "_print_" + c.__name__
            for g in self.chains[printer]:
                if meth in g.methods:
                    return Resolved(printer, name, f"gotranx:{g.name}", meth, g.methods[meth])
            if hasattr(base, meth):
                for k in base.__mro__:
                    if meth in k.__dict__:
                        return Resolved(printer, name, f"sympy:{k.__name__}", meth, None)
        return Resolved(printer, name, "sympy:Printer", "emptyPrinter", None)

    def method(self, printer: str, meth: str) -> Func | None:
        for g in self.chains[printer]:
            if meth in g.methods:
                return g.methods[meth]
        return None

    def class_table(self, printer: str, name: str):
        """Constant-fold a class-level table (``_kf`` / ``_kc``) of a gotranx printer class.  The expression is a
        dict display / comprehension over the sympy base's own table; it is evaluated with only that base in scope."""
        for g in self.chains[printer]:
            tabs = g.class_assigns()
            if name in tabs:
                base = self.sympy_base[printer]
                try:
                    return eval(compile(ast.Expression(tabs[name]), "<class-table>", "eval"), {"__builtins__": {}, base.__name__: base})
                except Exception as e:
                    folded = self._fold_with_av(g, tabs[name], base)
                    if folded is not None:
                        return folded
                    raise AnalysisError(f"cannot constant-fold {g.name}.{name}: {type(e).__name__}: {e}")
        return getattr(self.sympy_base[printer], name, None)

    def _fold_with_av(self, g: Cls, node, base):
        """The table is built by module-level helpers of the package: propagate constants through them with the
        abstract evaluator (the sympy base's own tables enter as constant dicts); None when the result is not a
        dict of constants."""
        import copy

        from . import av

        env = {}

        class Sub(ast.NodeTransformer):
            def visit_Attribute(self, n):
                if isinstance(n.value, ast.Name) and n.value.id == base.__name__ and isinstance(getattr(base, n.attr, None), dict):
                    nm = f"__{base.__name__}_{n.attr}"
                    tbl = getattr(base, n.attr)
                    if not all(isinstance(k, str) and isinstance(v, str) for k, v in tbl.items()):
                        return n
                    env[nm] = ("dict", tuple((av.C(k), av.C(v)) for k, v in tbl.items()))
                    return ast.copy_location(ast.Name(id=nm, ctx=ast.Load()), n)
                return self.generic_visit(n)

        expr = Sub().visit(copy.deepcopy(node))
        ast.fix_missing_locations(expr)
        try:
            A = av.AV(self.sm, inline=lambda c: True)
            v = A.expr(expr, env, g.rel, None)
        except Exception:
            return None
        if v[0] == "dict" and all(k[0] == "c" and x[0] == "c" for k, x in v[1]):
            return {k[1]: x[1] for k, x in v[1]}
        return None


def fragments(f: Func) -> list[str]:
    """All text fragments a print method can emit: string constants, f-string skeletons, str.format templates."""
    out = []
    # string expression statements (docstrings, also those of inlined helpers) emit nothing
    noop = {id(n.value) for n in ast.walk(f.node) if isinstance(n, ast.Expr) and isinstance(n.value, ast.Constant)}
    for n in ast.walk(f.node):
        if isinstance(n, ast.JoinedStr):
            out.append(fstring_skeleton(n))
        elif isinstance(n, ast.Constant) and isinstance(n.value, str) and id(n) not in noop:
            out.append(n.value)
    return out


# ---------------------------------------------------------------------------
# vetted inherited methods (sympy 1.14.0).  Columns:
#   ok        the printed text denotes the same real function as the sympy object
#   array     element-wise on numpy arrays (no scalar-only python construct)
#   real      numeric literals are printed as floating literals where C would otherwise do integer arithmetic
#   reparse   the text is accepted by ode.lark and rebuilds the same object
V = lambda **kw: kw  # noqa: E731

VETTED: dict[tuple[str, str], dict] = {
    # ---- python printers -------------------------------------------------
    ("py", "StrPrinter._print_Add"): V(ok=True, array=True),
    ("py", "CodePrinter._print_Mul"): V(ok=True, array=True),
    ("py", "PythonCodePrinter._print_Pow"): V(ok=True, array=True, note="via _hprint_Pow; gotranx passes sqrt='numpy.sqrt'"),
    ("py", "StrPrinter._print_Integer"): V(ok=True, array=True),
    ("py", "StrPrinter._print_Zero"): V(ok=True, array=True),
    ("py", "PythonCodePrinter._print_Rational"): V(ok=True, array=True),
    ("py", "PythonCodePrinter._print_Half"): V(ok=True, array=True),
    ("py", "StrPrinter._print_Float"): V(ok=False, array=True, why="prints 15 significant digits: not every float64 survives (the repr-based override is needed)"),
    ("py", "PythonCodePrinter._print_Symbol"): V(ok=True, array=True),
    ("py", "PythonCodePrinter._print_Pi"): V(ok=True, array=True, table="_kc"),
    ("py", "PythonCodePrinter._print_Exp1"): V(ok=True, array=True, table="_kc"),
    **{("py", f"PythonCodePrinter._print_{f}"): V(ok=True, array=True, table="_kf") for f in ("exp", "log", "sin", "cos", "tan", "asin", "acos", "atan", "Abs", "floor")},
    ("py", "AbstractPythonCodePrinter._print_Mod"): V(ok=True, array=True, note="a % b: sign of the divisor, as sympy.Mod"),
    ("py", "AbstractPythonCodePrinter._print_Piecewise"): V(ok=True, array=False, why="emits `(a) if (c) else (b)`: scalar-only"),
    ("py", "AbstractPythonCodePrinter._print_Relational"): V(ok=True, array=True),
    ("py", "AbstractPythonCodePrinter._print_ITE"): V(ok=True, array=True, note="self._print(expr.rewrite(Piecewise)): printed by the printer's own _print_Piecewise (checked separately)"),
    ("py", "CodePrinter._print_And"): V(ok=True, array=False, why="emits `a and b`: scalar-only"),
    ("py", "CodePrinter._print_Or"): V(ok=True, array=False, why="emits `a or b`: scalar-only"),
    ("py", "PythonCodePrinter._print_Not"): V(ok=True, array=False, why="emits `not (a)`: scalar-only", normalised_away=True),
    ("py", "StrPrinter._print_BooleanTrue"): V(ok=True, array=True),
    ("py", "StrPrinter._print_BooleanFalse"): V(ok=True, array=True),
    ("py", "PythonCodePrinter._print_sign"): V(ok=True, array=False, why="emits `0.0 if x == 0 else math.copysign(1, x)`: scalar-only"),
    ("py", "CodePrinter._print_Function"): V(ok=True, array=True, table="_kf", note="DiracDelta -> numpy.zeros_like via the class table"),
    ("py", "PythonCodePrinter._print_Indexed"): V(ok=True, array=True),
    ("py", "CodePrinter._print_Assignment"): V(ok=True, array=True),
    # ---- C printer -----------------------------------------------------------
    ("c", "StrPrinter._print_Add"): V(ok=True),
    ("c", "C89CodePrinter._print_Mul"): V(ok=True),
    ("c", "C89CodePrinter._print_Pow"): V(ok=True, note="pow(a, b), 1.0/a, sqrt(a)"),
    ("c", "StrPrinter._print_Integer"): V(ok=False, why="an Integer operand of `/` or an Integer exponent is printed as a C int literal: 1/4 == 0, pow(2, 1/2) == 1", finding="integer-division"),
    ("c", "StrPrinter._print_Zero"): V(ok=True),
    ("c", "C89CodePrinter._print_Rational"): V(ok=True, note="p.0/q.0"),
    ("c", "C89CodePrinter._print_Float"): V(ok=False, why="prints with the printer's precision setting, not the shortest round-trip repr"),
    ("c", "C89CodePrinter._print_Symbol"): V(ok=True),
    ("c", "C89CodePrinter._print_ITE"): V(ok=True, real=True, note="self._print(expr.rewrite(Piecewise, deep=False)): printed by the printer's own _print_Piecewise (checked separately)"),
    ("c", "CodePrinter._print_Pi"): V(ok=True, note="M_PI"),
    ("c", "CodePrinter._print_Exp1"): V(ok=True, note="M_E"),
    **{("c", f"C99CodePrinter._print_{f}"): V(ok=True) for f in ("exp", "log", "sin", "cos", "tan", "asin", "acos", "atan", "Abs", "floor")},
    ("c", "C89CodePrinter._print_Mod"): V(ok=False, why="fmod(a, b) has the sign of the dividend; Mod has the sign of the divisor"),
    ("c", "C89CodePrinter._print_Piecewise"): V(ok=True, note="ternary chain; gotranx post-processes true/false"),
    ("c", "C89CodePrinter._print_Relational"): V(ok=True),
    ("c", "CodePrinter._print_And"): V(ok=True),
    ("c", "CodePrinter._print_Or"): V(ok=True),
    ("c", "CodePrinter._print_Not"): V(ok=True),
    ("c", "C89CodePrinter._print_BooleanTrue"): V(ok=True, note="`true`, rewritten to 1 inside conditionals"),
    ("c", "C89CodePrinter._print_BooleanFalse"): V(ok=True),
    ("c", "C89CodePrinter._print_sign"): V(ok=True),
    ("c", "CodePrinter._print_Function"): V(ok=True, note="DiracDelta is not a C function: sympy emits an explicit 'Not supported' marker and the translation unit does not compile (explicit failure)"),
    ("c", "C89CodePrinter._print_Indexed"): V(ok=True),
    ("c", "CodePrinter._print_Assignment"): V(ok=True),
    # ---- .ode writer ---------------------------------------------------------------
    ("ode", "StrPrinter._print_Add"): V(ok=True, reparse=True),
    ("ode", "StrPrinter._print_Mul"): V(ok=True, reparse=True),
    ("ode", "StrPrinter._print_Pow"): V(ok=True, reparse=True, note="x**y, sqrt(x), 1/x"),
    ("ode", "StrPrinter._print_Integer"): V(ok=True, reparse=True),
    ("ode", "StrPrinter._print_Zero"): V(ok=True, reparse=True),
    ("ode", "StrPrinter._print_Rational"): V(ok=True, reparse=True),
    ("ode", "StrPrinter._print_Float"): V(ok=True, reparse=True, note="all digits of the Float's own precision; matches SCIENTIFIC_NUMBER"),
    ("ode", "StrPrinter._print_Symbol"): V(ok=True, reparse=True),
    ("ode", "StrPrinter._print_Pi"): V(ok=True, reparse=True),
    ("ode", "StrPrinter._print_Exp1"): V(ok=True, reparse=False, why="prints `E`, which the grammar reads as an (undefined) variable"),
    ("ode", "StrPrinter._print_Function"): V(ok=True, reparse=True, note="ClassName(args): the class names of P's functions are grammar function names"),
    ("ode", "StrPrinter._print_Relational"): V(ok=True, reparse=False, why="prints infix `a < b`, which is not in the grammar"),
    ("ode", "StrPrinter._print_And"): V(ok=True, reparse=False, why="prints `a & b`"),
    ("ode", "StrPrinter._print_Or"): V(ok=True, reparse=False, why="prints `a | b`"),
    ("ode", "StrPrinter._print_Not"): V(ok=True, reparse=False, why="prints `~(a)`"),
    ("ode", "StrPrinter._print_BooleanTrue"): V(ok=True, reparse=False, why="prints `True`, read as a variable"),
    ("ode", "StrPrinter._print_BooleanFalse"): V(ok=True, reparse=False, why="prints `False`, read as a variable"),
}


def vetted(printer: str, r: Resolved) -> dict | None:
    fam = "py" if printer in ("numpy", "jax") else printer
    return VETTED.get((fam, f"{r.owner.split(':', 1)[1]}.{r.method}"))
