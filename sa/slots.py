"""Slot families (DESIGN.md 2.3): every producer of a (name <-> index) pair is extracted and
assigned to a family (STATE / PARAM / MONITOR / MISSING); all producers of a family must
draw their indices from order-equivalent sequences.

A sequence expression is normalised to a descriptor ``(base, args, filters)`` by inlining the
bodies of the model's accessor methods (``sorted_states`` -> ``sorted_state_derivatives`` ->
``sorted_assignments``), dropping order-preserving element maps and collecting filters.
"""

from __future__ import annotations

import ast
from dataclasses import dataclass, field

from .core import AnalysisError
from .canon import Canon
from .inline import Inliner, inlined
from .sm import Func, SourceModel, dotted, norm, call_kw, find_calls

MODEL_CLASS = "ODE"
ROOT_ACCESSOR = "sorted_assignments"


@dataclass(frozen=True)
class Desc:
    base: str
    args: tuple = ()  # sorted (name, text)
    filters: tuple = ()  # sorted canonical filter strings
    maps: tuple = ()
    opaque: bool = False
    unknown: bool = False  # opaque because the expression is not understood (as opposed to a recognised reordering)

    def show(self) -> str:
        a = ", ".join(f"{k}={v}" for k, v in self.args)
        s = f"{self.base}({a})" if self.base.endswith(ROOT_ACCESSOR) or self.args else self.base
        for f in self.filters:
            s = f"filter[{f}]({s})"
        return s


@dataclass
class Producer:
    family: str
    func: Func
    kind: str  # enumerate | counter | names-list | values-list | matrix | dict
    desc: Desc
    node: ast.AST
    detail: str = ""
    guard_ok: bool = True


class SeqNormaliser:
    def __init__(self, sm: SourceModel):
        self.sm = sm
        self.model = sm.cls("ode.py", MODEL_CLASS)
        self.methods = self.model.methods

    # ------------------------------------------------------------------
    def is_model_recv(self, node, f: Func) -> bool:
        d = dotted(node)
        if d is None:
            return False
        if d in ("self.ode", "ode"):
            return True
        if d == "self" and f.cls == MODEL_CLASS:
            return True
        return False

    def local_def(self, f: Func, name: str):
        """The single assignment ``name = value`` in f (None if zero or several, or a loop/with target)."""
        vals = []
        for n in ast.walk(f.node):
            if isinstance(n, ast.Assign):
                for t in n.targets:
                    if isinstance(t, ast.Name) and t.id == name:
                        vals.append(n.value)
                    elif isinstance(t, (ast.Tuple, ast.List)) and any(isinstance(e, ast.Name) and e.id == name for e in t.elts):
                        vals.append(None)
            elif isinstance(n, ast.AnnAssign) and isinstance(n.target, ast.Name) and n.target.id == name:
                vals.append(n.value)
            elif isinstance(n, (ast.For, ast.comprehension)):
                tg = n.target
                if any(isinstance(e, ast.Name) and e.id == name for e in ast.walk(tg)):
                    vals.append(None)
            elif isinstance(n, ast.AugAssign) and isinstance(n.target, ast.Name) and n.target.id == name:
                vals.append(None)
        if len(vals) == 1 and vals[0] is not None:
            return vals[0]
        return None

    def canon_filter(self, cond, var: str, f: Func | None = None) -> str:
        if f is not None:
            cond = Canon(f.node).resolve(cond)
        if isinstance(cond, ast.Call) and isinstance(cond.func, ast.Name) and cond.func.id == "isinstance" and len(cond.args) == 2:
            a0 = cond.args[0]
            if isinstance(a0, ast.Name) and a0.id == var:
                k = cond.args[1]
                classes = k.elts if isinstance(k, ast.Tuple) else [k]
                names = sorted((dotted(c) or norm(c)).split(".")[-1] for c in classes)
                return "isinstance[" + "|".join(names) + "]"
        txt = norm(cond)
        import re

        return re.sub(rf"\b{re.escape(var)}\b", "_", txt)

    def canon_arg(self, node, f: Func) -> str:
        d = dotted(node)
        if d in ("self.remove_unused", "remove_unused"):
            return "RU"
        return norm(node)

    # ------------------------------------------------------------------
    def norm_seq(self, node, f: Func, depth: int = 0) -> Desc:
        if depth > 12:
            return Desc(base="<too deep>", opaque=True)
        if isinstance(node, ast.Call):
            fn = node.func
            if isinstance(fn, ast.Name) and fn.id in ("tuple", "list", "iter") and len(node.args) == 1:
                return self.norm_seq(node.args[0], f, depth + 1)
            if isinstance(fn, ast.Name) and fn.id == "sorted" and node.args:
                key = call_kw(node, "key")
                return Desc(base=f"sorted[{norm(key) if key is not None else ''}]({norm(node.args[0])})")
            if isinstance(fn, ast.Name) and fn.id == "cast" and len(node.args) == 2:
                return self.norm_seq(node.args[1], f, depth + 1)
            if isinstance(fn, ast.Name) and fn.id == "filter" and len(node.args) == 2:
                # filter(pred, seq) is (x for x in seq if pred(x)); the predicate is a lambda or a one-expression function
                pred = node.args[0]
                lam = None
                if isinstance(pred, ast.Lambda) and len(pred.args.args) == 1:
                    lam = (pred.args.args[0].arg, pred.body)
                elif isinstance(pred, ast.Name):
                    cand = self.sm.funcs.get((f.rel, pred.id)) or next((g_ for (r_, q_), g_ in self.sm.funcs.items() if q_ == pred.id), None)
                    if cand is not None and len(cand.node.args.args) == 1:
                        body_ = [st for st in cand.node.body if not (isinstance(st, ast.Expr) and isinstance(st.value, ast.Constant))]
                        if len(body_) == 1 and isinstance(body_[0], ast.Return) and body_[0].value is not None:
                            lam = (cand.node.args.args[0].arg, body_[0].value)
                if lam is not None:
                    gen = ast.GeneratorExp(elt=ast.Name(lam[0], ast.Load()), generators=[ast.comprehension(target=ast.Name(lam[0], ast.Store()), iter=node.args[1], ifs=[lam[1]], is_async=0)])
                    return self.norm_seq(ast.fix_missing_locations(gen), f, depth + 1)
            if isinstance(fn, ast.Name) and fn.id == "reversed" and node.args:
                inner = self.norm_seq(node.args[0], f, depth + 1)
                return Desc(base=f"reversed({inner.show()})", opaque=True)
            if isinstance(fn, ast.Attribute) and self.is_model_recv(fn.value, f):
                m = self.methods.get(fn.attr)
                if m is not None:
                    if fn.attr == ROOT_ACCESSOR:
                        args = {}
                        a = m.node.args
                        params = [p.arg for p in a.args][1:]
                        defaults = dict(zip(params[len(params) - len(a.defaults):], a.defaults))
                        for p in params:
                            if p in defaults:
                                args[p] = norm(defaults[p])
                        for i, av in enumerate(node.args):
                            if i < len(params):
                                args[params[i]] = self.canon_arg(av, f)
                        for kw in node.keywords:
                            if kw.arg:
                                args[kw.arg] = self.canon_arg(kw.value, f)
                        return Desc(base=f"{MODEL_CLASS}.{ROOT_ACCESSOR}", args=tuple(sorted(args.items())))
                    body = self._single_return(m)
                    if body is not None and not node.args and not node.keywords:
                        return self.norm_seq(body, m, depth + 1)
                    return Desc(base=f"{MODEL_CLASS}.{fn.attr}({', '.join(norm(a) for a in node.args)})")
            return Desc(base=norm(node), opaque=True, unknown=True)
        if isinstance(node, ast.Attribute) and self.is_model_recv(node.value, f):
            m = self.methods.get(node.attr)
            if m is not None:
                decs = m.decorators()
                if any(d.split(".")[-1] in ("property", "cached_property") for d in decs):
                    body = self._single_return(m)
                    if body is not None:
                        # name-sorted unions are canonical bases of their own
                        if isinstance(body, ast.Call) and isinstance(body.func, ast.Name) and body.func.id in ("tuple", "list") and body.args and isinstance(body.args[0], ast.Call) and isinstance(body.args[0].func, ast.Name) and body.args[0].func.id == "sorted":
                            return Desc(base=f"{MODEL_CLASS}.{node.attr}")
                        inner = self.norm_seq(body, m, depth + 1)
                        if not inner.opaque:
                            return inner
                    return Desc(base=f"{MODEL_CLASS}.{node.attr}")
            return Desc(base=f"{MODEL_CLASS}.{node.attr}", opaque=True)
        if isinstance(node, (ast.ListComp, ast.GeneratorExp)):
            if len(node.generators) != 1:
                return Desc(base=norm(node), opaque=True)
            g = node.generators[0]
            inner = self.norm_seq(g.iter, f, depth + 1)
            var = g.target.id if isinstance(g.target, ast.Name) else None
            if var is None:
                return Desc(base=norm(node), opaque=True)
            filters = list(inner.filters) + [self.canon_filter(c, var) for c in g.ifs]
            elt_names = {n.id for n in ast.walk(node.elt) if isinstance(n, ast.Name)}
            maps = inner.maps
            if not (isinstance(node.elt, ast.Name) and node.elt.id == var):
                if var not in elt_names:
                    return Desc(base=norm(node), opaque=True)
                maps = maps + (norm(node.elt).replace(var, "_"),)
            return Desc(base=inner.base, args=inner.args, filters=tuple(sorted(filters)), maps=maps, opaque=inner.opaque, unknown=inner.unknown)
        if isinstance(node, ast.Name):
            v = self.local_def(f, node.id)
            if v is not None:
                return self.norm_seq(v, f, depth + 1)
            return Desc(base=f"<local {node.id}>", opaque=True, unknown=True)
        if isinstance(node, ast.BinOp) and isinstance(node.op, ast.Add):
            l, r = self.norm_seq(node.left, f, depth + 1), self.norm_seq(node.right, f, depth + 1)
            return Desc(base=f"concat({l.show()}, {r.show()})", opaque=l.opaque or r.opaque, unknown=l.unknown or r.unknown)
        return Desc(base=norm(node), opaque=True, unknown=True)

    def _single_return(self, m: Func):
        body = [s for s in m.node.body if not (isinstance(s, ast.Expr) and isinstance(s.value, ast.Constant))]
        if len(body) == 1 and isinstance(body[0], ast.Return) and body[0].value is not None:
            return body[0].value
        # accumulate-then-return-sorted properties: last statement is the return
        if body and isinstance(body[-1], ast.Return):
            return body[-1].value
        return None


# ---------------------------------------------------------------------------
# remove_unused transparency (R04.a / R12.c)


def _post_sort_filter_from_value(sm: SourceModel, f: Func):
    """The same question answered on what sorted_assignments computes (sa.av): the value is a comprehension over
    sort_assignments(<input without remove_unused>) whose only condition that mentions remove_unused is
    `(name not in S) if remove_unused else True` with S a subset of the names of self.intermediates.
    (ok, reason) or None when the value is not of that form."""
    from . import av

    try:
        v = av.AV(sm).returned(f)[0]
    except Exception:
        return None
    inner = av._unwrap_seq(v)
    if av.has_unk(v) or inner[0] != "comp":
        return None
    ru = ("sym", "remove_unused")
    it = av._unwrap_seq(inner[2])
    if not (it[0] == "call" and it[1].split(".")[-1] == "sort_assignments"):
        return None
    if av._has_term(it, ru):
        return False, "the input of the topological sort depends on remove_unused: sorting a reduced set can change the relative order of the state derivatives"
    bv = ("bv", inner[1])

    def names_of_intermediates(S) -> bool:
        S = av._unwrap_seq(S)
        while S[0] == "call" and S[1] in ("set", "frozenset", "list", "tuple") and len(S[2]) == 1:
            S = av._unwrap_seq(S[2][0])
        return S[0] == "comp" and av.show(av._unwrap_seq(S[2])) in ("self.intermediates",) and S[3] == (("attr", ("bv", S[1]), "name"),)

    for c in inner[4]:
        if not av._has_term(c, ru):
            continue
        if c[0] == "if" and c[1] == ru and c[3] == av.C(True) and c[2][0] == "cmp" and c[2][1] == "not in" and c[2][2] == bv and names_of_intermediates(c[2][3]):
            continue
        if c[0] == "if" and c[1] == ru and c[3] == av.C(True) and c[2][0] == "cmp" and c[2][1] == "not in" and c[2][2] == bv:
            return False, f"the post-sort filter `{av.show(c[2])[:90]}` is not restricted to names of intermediates, so it could drop a state derivative and shift the state slots"
        return None
    items = inner[3]
    if len(items) != 1 or not av._has_term(items[0], bv) or av._has_term(items[0], ru):
        return None
    return True, "remove_unused only selects an order-preserving post-sort filter over intermediates"


def remove_unused_is_post_sort_filter(sm: SourceModel) -> tuple[bool, str, ast.AST | None]:
    """In ODE.sorted_assignments: does `remove_unused` only select an order-preserving filter that is applied
    *after* the topological sort and that can only drop intermediates?  Returns (ok, reason, node)."""
    f = sm.func("ode.py", f"{MODEL_CLASS}.{ROOT_ACCESSOR}")
    if "remove_unused" not in f.params:
        return True, "sorted_assignments has no remove_unused parameter", None
    from_value = _post_sort_filter_from_value(sm, f)
    if from_value is not None:
        return from_value[0], from_value[1], f.node
    sort_calls = [c for c in ast.walk(f.node) if isinstance(c, ast.Call) and (dotted(c.func) or "").split(".")[-1] == "sort_assignments"]
    if len(sort_calls) != 1:
        return False, f"expected exactly one call of sort_assignments in sorted_assignments, found {len(sort_calls)}", f.node

    def mentions_ru(n) -> bool:
        return any(isinstance(x, ast.Name) and x.id == "remove_unused" for x in ast.walk(n))

    # names (re)assigned under a condition on remove_unused, or from expressions mentioning it
    tainted: set[str] = set()
    changed = True
    while changed:
        changed = False

        def visit(stmts, under):
            nonlocal changed
            for st in stmts:
                if isinstance(st, ast.If):
                    u = under or mentions_ru(st.test) or any(isinstance(x, ast.Name) and x.id in tainted for x in ast.walk(st.test))
                    visit(st.body, u)
                    visit(st.orelse, u)
                elif isinstance(st, (ast.For, ast.While, ast.With, ast.Try)):
                    for fld in ("body", "orelse", "finalbody"):
                        visit(getattr(st, fld, []) or [], under)
                elif isinstance(st, (ast.Assign, ast.AugAssign, ast.AnnAssign)):
                    tgts = st.targets if isinstance(st, ast.Assign) else [st.target]
                    val = st.value
                    dep = under or (val is not None and (mentions_ru(val) or any(isinstance(x, ast.Name) and x.id in tainted for x in ast.walk(val))))
                    if dep:
                        for t in tgts:
                            for x in ast.walk(t):
                                if isinstance(x, ast.Name) and x.id not in tainted:
                                    tainted.add(x.id)
                                    changed = True

        visit(f.node.body, False)
    call = sort_calls[0]
    # 1. the sort input must not depend on remove_unused -- judged on the state of `tainted` *before* the call
    pre_tainted = _tainted_before(f, call, mentions_ru)
    arg_names = {x.id for a in list(call.args) + [k.value for k in call.keywords] for x in ast.walk(a) if isinstance(x, ast.Name)}
    if mentions_ru(call) or (arg_names & pre_tainted):
        return False, f"the input of the topological sort depends on remove_unused (via {sorted(arg_names & pre_tainted) or ['remove_unused']}): sorting a reduced set can change the relative order of the state derivatives", call
    chain = _enclosing_ifs(f.node, call)
    if any(mentions_ru(t) for t in chain):
        return False, "the topological sort is called under a condition on remove_unused", call
    # 2. after the call, assignments under remove_unused must be order-preserving filters of the sorted names
    res_var = None
    for st in ast.walk(f.node):
        if isinstance(st, ast.Assign) and st.value is call and isinstance(st.targets[0], ast.Name):
            res_var = st.targets[0].id
    if res_var is None:
        return False, "result of sort_assignments is not bound to a simple name", call
    for st in ast.walk(f.node):
        if isinstance(st, ast.Assign) and st.value is not call and any(isinstance(t, ast.Name) and t.id == res_var for t in st.targets):
            v = st.value
            while isinstance(v, ast.Call) and isinstance(v.func, ast.Name) and v.func.id in ("tuple", "list") and len(v.args) == 1:
                v = v.args[0]
            ok = (
                isinstance(v, (ast.ListComp, ast.GeneratorExp))
                and len(v.generators) == 1
                and isinstance(v.generators[0].iter, ast.Name)
                and v.generators[0].iter.id == res_var
                and isinstance(v.generators[0].target, ast.Name)
                and isinstance(v.elt, ast.Name)
                and v.elt.id == v.generators[0].target.id
            )
            if not ok:
                return False, f"`{res_var}` is rebuilt after the sort by something that is not an order-preserving filter: {norm(st)[:80]}", st
            # 3. the filter can only drop intermediates
            cond_names = {x.id for c in v.generators[0].ifs for x in ast.walk(c) if isinstance(x, ast.Name)} - {v.generators[0].target.id}
            only_interm = False
            cn = Canon(f.node)
            for nm in cond_names:
                d = _local_def(f, nm)
                if d is not None and isinstance(d, (ast.SetComp, ast.ListComp, ast.GeneratorExp, ast.Call)):
                    comp = d if not isinstance(d, ast.Call) else (d.args[0] if d.args else None)
                    if isinstance(comp, (ast.SetComp, ast.ListComp, ast.GeneratorExp)) and len(comp.generators) == 1 and cn.text(comp.generators[0].iter) == "self.intermediates":
                        only_interm = True
                # or: a set filled by `.add(x.name)` inside loops over self.intermediates only
                adds = [c for c in ast.walk(f.node) if isinstance(c, ast.Call) and isinstance(c.func, ast.Attribute) and c.func.attr == "add" and isinstance(c.func.value, ast.Name) and c.func.value.id == nm]
                if adds:
                    def _loop_of(call):
                        for l in ast.walk(f.node):
                            if isinstance(l, ast.For) and any(x is call for x in ast.walk(l)):
                                yield l
                    if all(any(cn.text(l.iter) == "self.intermediates" for l in _loop_of(c)) for c in adds):
                        only_interm = True
            if not only_interm:
                return False, f"the post-sort filter `{norm(st)[:80]}` is not restricted to names of intermediates, so it could drop a state derivative and shift the state slots", st
    return True, "remove_unused only selects an order-preserving post-sort filter over intermediates", call


def _local_def(f: Func, name: str):
    vals = [n.value for n in ast.walk(f.node) if isinstance(n, ast.Assign) and any(isinstance(t, ast.Name) and t.id == name for t in n.targets)]
    return vals[0] if len(vals) == 1 else None


def _enclosing_ifs(func_node, target) -> list:
    out = []

    def rec(stmts, chain):
        for st in stmts:
            if any(n is target for n in ast.walk(st)):
                if isinstance(st, ast.If):
                    inb = any(n is target for s in st.body for n in ast.walk(s)) or any(n is target for s in st.orelse for n in ast.walk(s))
                    if inb:
                        chain = chain + [st.test]
                        rec(st.body, chain)
                        rec(st.orelse, chain)
                        return
                out.extend(chain)
                for fld in ("body", "orelse", "finalbody"):
                    sub = getattr(st, fld, None)
                    if isinstance(sub, list):
                        rec(sub, [])
                return

    rec(func_node.body, [])
    return out


def _tainted_before(f: Func, call, mentions_ru) -> set[str]:
    """Names assigned (under a remove_unused condition or from a remove_unused-dependent value) at lines before the call."""
    tainted: set[str] = set()
    line = call.lineno
    for _ in range(4):
        def visit(stmts, under):
            for st in stmts:
                if getattr(st, "lineno", 0) >= line and not any(n is call for n in ast.walk(st)):
                    continue
                if isinstance(st, ast.If):
                    u = under or mentions_ru(st.test) or any(isinstance(x, ast.Name) and x.id in tainted for x in ast.walk(st.test))
                    visit(st.body, u)
                    visit(st.orelse, u)
                elif isinstance(st, (ast.Assign, ast.AugAssign, ast.AnnAssign)) and getattr(st, "lineno", 0) < line:
                    tgts = st.targets if isinstance(st, ast.Assign) else [st.target]
                    val = st.value
                    dep = under or (val is not None and (mentions_ru(val) or any(isinstance(x, ast.Name) and x.id in tainted for x in ast.walk(val))))
                    if dep:
                        for t in tgts:
                            for x in ast.walk(t):
                                if isinstance(x, ast.Name):
                                    tainted.add(x.id)
        visit(f.node.body, False)
    return tainted


# ---------------------------------------------------------------------------
# producers


SIZE_CLASSES = {
    "STATE": {"ODE.num_states", "len(ODE.state_derivatives)", "len(ODE.states)", "len(ODE.sorted_states())", "NUM_STATES"},
    "PARAM": {"ODE.num_parameters", "len(ODE.parameters)", "NUM_PARAMS"},
    "MONITOR": {"len(ODE.intermediates) + len(ODE.state_derivatives)", "len(ODE.state_derivatives) + len(ODE.intermediates)", "len(ODE.sorted_assignments())", "NUM_MONITORED"},
    "MISSING": {"len(values)", "len(self._missing_variables)", "len(ODE.missing_variables)"},
}


def canon_size(node) -> str:
    t = norm(node)
    t = t.replace("self.ode.", "ODE.").replace("ode.", "ODE.")
    return t


def size_family(node) -> str | None:
    t = canon_size(node)
    if isinstance(node, ast.Tuple) and len(node.elts) == 1:
        t = canon_size(node.elts[0])
    for fam, texts in SIZE_CLASSES.items():
        if t in texts:
            return fam
    return None


class SlotAnalysis:
    def __init__(self, sm: SourceModel):
        self.sm = sm
        self.N = SeqNormaliser(sm)
        self.producers: list[Producer] = []
        self.unclassified: list[tuple[Func, ast.AST, str]] = []
        self.indexed_bases: list[tuple[Func, str, str | None, ast.AST]] = []
        self.from_values: list[str] = []

    def scope_funcs(self) -> list[Func]:
        out = []
        for short in ("codegen/base.py", "codegen/python.py", "codegen/c.py", "codegen/jax.py", "schemes.py", "sympytools.py", "cli/gotran2c.py", "cli/gotran2py.py"):
            if self.sm.rel(short) in self.sm.modules:
                out.extend(inlined(self.sm, f) for f in self.sm.funcs_in(short) if not self._is_inlined_helper(f))
        return out

    def _may_number_slots(self, f: Func) -> bool:
        if f.name.endswith("_index") or f.name.startswith(("initial_", "init_")):
            return True  # the public layout functions: always worth reading from the value
        for n in ast.walk(f.node):
            if isinstance(n, ast.Call):
                d = dotted(n.func) or ""
                if d.split(".")[-1] in ("IndexedBase", "Matrix") or (isinstance(n.func, ast.Attribute) and n.func.attr.endswith("_index") and (dotted(n.func.value) or "").endswith("template")):
                    return True
        return False

    def _is_inlined_helper(self, f: Func) -> bool:
        """Private helpers that are expanded into their callers are analysed there (with the caller's arguments)."""
        if "." not in f.qualname or not f.name.startswith("_") or f.name.startswith("__"):
            return False
        if f.name in ("_state_assignments", "_parameter_assignments", "_missing_variables_assignments", "_rhs_arguments", "_scheme_arguments", "_shape_info", "_doprint", "_format", "_formatter", "_comment"):
            return False
        inl = Inliner(self.sm)
        if not inl.inlinable(f):
            return False
        # is it called through self. from another method of the package?
        for g in self.sm.all_funcs():
            if g is f:
                continue
            for c in ast.walk(g.node):
                if isinstance(c, ast.Call) and isinstance(c.func, ast.Attribute) and c.func.attr == f.name and isinstance(c.func.value, ast.Name) and c.func.value.id == "self":
                    return True
        return False

    # family of an IndexedBase-valued name inside f
    def base_family(self, f: Func, name: str) -> str | None:
        if name in f.params:
            return {"states": "STATE", "parameters": "PARAM", "missing_variables": "MISSING"}.get(name)
        for n in ast.walk(f.node):
            if isinstance(n, ast.Assign) and any(isinstance(t, ast.Name) and t.id == name for t in n.targets):
                v = n.value
                if isinstance(v, ast.Call) and (dotted(v.func) or "").endswith("IndexedBase"):
                    sh = call_kw(v, "shape")
                    if sh is not None:
                        return size_family(Canon(f.node).resolve(sh))
                if isinstance(v, ast.Attribute) and v.attr in ("states", "parameters", "values") and isinstance(v.value, ast.Name):
                    # rhs.states / func.parameters : fields of the Func tuple built by _rhs_arguments / _scheme_arguments
                    return {"states": "STATE", "parameters": "PARAM"}.get(v.attr)
        if name.endswith("_states") and name.startswith("_il"):
            return "STATE"
        if name.endswith("_parameters") and name.startswith("_il"):
            return "PARAM"
        return None

    def run(self):
        from . import slots_av

        A = None
        for f in self.scope_funcs():
            n0 = len(self.producers)
            self._enumerates(f)
            self._counters(f)
            self._next_counters(f)
            self._template_lists(f)
            self._matrices(f)
            mine = self.producers[n0:]
            if self._may_number_slots(f) and not any(p.desc.opaque and p.desc.unknown for p in mine):
                # families the syntax does not show although the function indexes a slot array or fills an index
                # template: the numbering may live in a helper or a lookup table - read it from the value
                A = A or slots_av.make_av(self.sm)
                orig = self.sm.funcs.get((f.rel, f.qualname), f)
                ex = slots_av.Extract(self.sm, self.N, orig, A).run()
                have = {p.family for p in mine}
                extra = [p for p in ex.producers if p.family not in have] if not ex.unknown else []
                if extra:
                    self.producers.extend(extra)
                    self.from_values.append(f.qualname)
                continue
            if any(p.desc.opaque and p.desc.unknown for p in mine):
                # the syntax does not lead back to the model's accessors: read the producers from what the function computes
                A = A or slots_av.make_av(self.sm)
                orig = self.sm.funcs.get((f.rel, f.qualname), f)
                ex = slots_av.Extract(self.sm, self.N, orig, A).run()
                fams = {p.family for p in mine}
                if ex.producers and not ex.unknown and fams <= {p.family for p in ex.producers}:
                    self.producers[n0:] = ex.producers
                    self.from_values.append(f.qualname)
        return self

    # -- (a) enumerate -----------------------------------------------------
    def _enumerates(self, f: Func):
        for n in ast.walk(f.node):
            gens = []
            if isinstance(n, (ast.ListComp, ast.GeneratorExp, ast.SetComp, ast.DictComp)):
                gens = [(g, n) for g in n.generators]
            elif isinstance(n, ast.For):
                gens = [(n, n)]
            for g, owner in gens:
                it = g.iter
                if not (isinstance(it, ast.Call) and isinstance(it.func, ast.Name) and it.func.id == "enumerate" and it.args):
                    continue
                tgt = g.target
                if not (isinstance(tgt, ast.Tuple) and len(tgt.elts) == 2 and isinstance(tgt.elts[0], ast.Name)):
                    continue
                ivar = tgt.elts[0].id
                desc = self.N.norm_seq(it.args[0], f)
                start = it.args[1] if len(it.args) > 1 else (it.keywords[0].value if it.keywords else None)
                if start is not None and not (isinstance(start, ast.Constant) and start.value == 0):
                    desc = Desc(base=desc.show() + f" start={norm(start)}", opaque=True)
                fam = self._family_of_index_use(f, owner, ivar)
                if fam is None:
                    # is the index used at all as a slot?  (template index dicts / subscripts)
                    self.unclassified.append((f, it, f"enumerate({norm(it.args[0])})"))
                    continue
                self.producers.append(Producer(fam, f, "enumerate", desc, it, norm(owner)[:90]))

    def _family_of_index_use(self, f: Func, owner, ivar: str) -> str | None:
        # 1. a dict {x.name: i} handed to template.<fam>_index: as a comprehension in the call, through a local, or
        #    filled by `D[x.name] = i` inside the enumerating loop
        dicts = set()
        for n in ast.walk(f.node):
            if isinstance(n, ast.Assign) and len(n.targets) == 1 and isinstance(n.targets[0], ast.Name) and any(x is owner for x in ast.walk(n.value)):
                dicts.add(n.targets[0].id)
        for n in ast.walk(owner):
            if isinstance(n, ast.Assign) and isinstance(n.targets[0], ast.Subscript) and isinstance(n.targets[0].value, ast.Name) and isinstance(n.value, ast.Name) and n.value.id == ivar:
                dicts.add(n.targets[0].value.id)
        for c in ast.walk(f.node):
            if isinstance(c, ast.Call) and isinstance(c.func, ast.Attribute) and c.func.attr.endswith("_index") and (dotted(c.func.value) or "").endswith("template"):
                argv = list(c.args) + [k.value for k in c.keywords]
                if any(n is owner for a in argv for n in ast.walk(a)) or any(isinstance(a, ast.Name) and a.id in dicts for a in argv):
                    return {"state": "STATE", "parameter": "PARAM", "monitor": "MONITOR", "missing": "MISSING"}.get(c.func.attr[: -len("_index")])
        # 2. subscript with the index variable
        body_nodes = [owner]
        for n in ast.walk(owner):
            if isinstance(n, ast.Subscript) and isinstance(n.slice, ast.Name) and n.slice.id == ivar:
                fam = self.base_family_expr(f, n.value)
                if fam:
                    return fam
        return None

    def base_family_expr(self, f: Func, base) -> str | None:
        if isinstance(base, ast.Name):
            return self.base_family(f, base.id)
        if isinstance(base, ast.Attribute) and base.attr in ("states", "parameters"):
            return {"states": "STATE", "parameters": "PARAM"}[base.attr]
        return None

    # -- (b) counters --------------------------------------------------------
    def _counters(self, f: Func):
        self._cur = f
        for loop in [n for n in ast.walk(f.node) if isinstance(n, ast.For)]:
            augs = [n for n in ast.walk(loop) if isinstance(n, ast.AugAssign) and isinstance(n.target, ast.Name) and isinstance(n.op, ast.Add)]
            for aug in augs:
                cvar = aug.target.id
                subs = [n for n in ast.walk(loop) if isinstance(n, ast.Subscript) and isinstance(n.slice, ast.Name) and n.slice.id == cvar and isinstance(n.value, (ast.Name, ast.Attribute))]
                dict_stores = [n for n in ast.walk(loop) if isinstance(n, ast.Assign) and isinstance(n.value, ast.Name) and n.value.id == cvar and isinstance(n.targets[0], ast.Subscript)]
                if not subs and not dict_stores:
                    continue
                fam = None
                for s in subs:
                    fam = fam or self.base_family_expr(f, s.value)
                if fam is None and dict_stores:
                    dname = dict_stores[0].targets[0].value.id if isinstance(dict_stores[0].targets[0].value, ast.Name) else None
                    for c in ast.walk(f.node):
                        if isinstance(c, ast.Call) and isinstance(c.func, ast.Attribute) and c.func.attr.endswith("_index") and (dotted(c.func.value) or "").endswith("template"):
                            if any(isinstance(n, ast.Name) and n.id == dname for a in list(c.args) + [k.value for k in c.keywords] for n in ast.walk(a)):
                                fam = {"state": "STATE", "parameter": "PARAM", "monitor": "MONITOR", "missing": "MISSING"}.get(c.func.attr[: -len("_index")])
                if not isinstance(loop.target, ast.Name):
                    continue
                x = loop.target.id
                base = self.N.norm_seq(loop.iter, f)
                guard, guard_ok, why = self._counter_guard(loop, aug, x, cvar)
                filters = tuple(sorted(list(base.filters) + ([guard] if guard else [])))
                desc = Desc(base=base.base, args=base.args, filters=filters, maps=base.maps, opaque=base.opaque, unknown=base.unknown)
                if fam is None:
                    self.unclassified.append((f, loop, f"counter {cvar} over {norm(loop.iter)}"))
                    continue
                self.producers.append(Producer(fam, f, "counter", desc, loop, f"counter {cvar}: {why}", guard_ok))
                break  # one producer per loop

    def _next_counters(self, f: Func):
        """slots drawn with `base[next(c)]` where c = itertools.count(): store and increment are one expression"""
        from . import te

        counts = set()
        for n in ast.walk(f.node):
            if isinstance(n, ast.Assign) and isinstance(n.value, ast.Call) and (dotted(n.value.func) or "").split(".")[-1] == "count" and not n.value.args:
                for t in n.targets:
                    if isinstance(t, ast.Name):
                        counts.add(t.id)
        if not counts:
            return
        for loop in [n for n in ast.walk(f.node) if isinstance(n, ast.For) and isinstance(n.target, ast.Name)]:
            subs = [n for n in ast.walk(loop) if isinstance(n, ast.Subscript) and isinstance(n.slice, ast.Call) and isinstance(n.slice.func, ast.Name) and n.slice.func.id == "next" and n.slice.args and isinstance(n.slice.args[0], ast.Name) and n.slice.args[0].id in counts]
            if not subs:
                continue
            fam = None
            for s_ in subs:
                fam = fam or self.base_family_expr(f, s_.value)
            x = loop.target.id
            base = self.N.norm_seq(loop.iter, f)
            paths = te.enumerate_paths(loop.body)
            with_next, without = [], []
            for p in paths:
                n_next = sum(1 for st in p.effects for c in ast.walk(st) if any(c is s_.slice for s_ in subs))
                (with_next if n_next else without).append((p, n_next))
            cands = None
            for p, _ in with_next:
                sset = {a for a, pol in p.lits if pol and a.startswith("isinstance(")}
                cands = sset if cands is None else (cands & sset)
            guard = None
            for c in sorted(cands or []):
                if all((c, False) in p.lits for p, _ in without):
                    guard = c
                    break
            ok = all(n == 1 for _, n in with_next)
            if guard is None and without:
                gtxt, ok = "<no single isinstance guard>", False
            elif guard is None:
                gtxt = None
            else:
                gtxt = self.N.canon_filter(ast.parse(guard, mode="eval").body, x, f)
            filters = tuple(sorted(list(base.filters) + ([gtxt] if gtxt else [])))
            desc = Desc(base=base.base, args=base.args, filters=filters, maps=base.maps, opaque=base.opaque, unknown=base.unknown)
            if fam is None:
                self.unclassified.append((f, loop, f"next({sorted(counts)}) over {norm(loop.iter)}"))
                continue
            self.producers.append(Producer(fam, f, "counter", desc, loop, f"itertools.count(): advances iff {guard}", ok))

    def _counter_guard(self, loop: ast.For, aug, x: str, cvar: str) -> tuple[str | None, bool, str]:
        """The condition under which the counter advances, as a canonical filter over the loop variable."""
        from . import te

        paths = te.enumerate_paths(loop.body)
        inc_lits, noinc_lits = [], []
        for p in paths:
            n_inc = sum(1 for st in p.effects if isinstance(st, ast.AugAssign) and isinstance(st.target, ast.Name) and st.target.id == cvar)
            (inc_lits if n_inc else noinc_lits).append((p, n_inc))
        # the guard is an isinstance literal that is true on every incrementing path and false on every other
        cands = None
        for p, n in inc_lits:
            s = {a for a, pol in p.lits if pol and a.startswith("isinstance(")}
            cands = s if cands is None else (cands & s)
        cands = cands or set()
        guard = None
        for c in sorted(cands):
            if all((c, False) in p.lits for p, _ in noinc_lits):
                guard = c
                break
        ok = all(n == 1 for _, n in inc_lits)
        if guard is None:
            if not noinc_lits:
                return None, ok, "advances on every iteration"
            return "<no single isinstance guard>", False, "the counter does not advance exactly on the elements of one class"
        gnode = ast.parse(guard, mode="eval").body
        return self.N.canon_filter(gnode, x, self._cur), ok, f"advances iff {guard}"

    # -- (c) template keyword lists --------------------------------------------
    def _template_lists(self, f: Func):
        for c in ast.walk(f.node):
            if isinstance(c, ast.Call) and isinstance(c.func, ast.Attribute) and (dotted(c.func.value) or "").endswith("template"):
                for k in c.keywords:
                    if k.arg in ("state_names", "state_values", "parameter_names", "parameter_values"):
                        fam = "STATE" if k.arg.startswith("state") else "PARAM"
                        desc = self.N.norm_seq(k.value, f)
                        self.producers.append(Producer(fam, f, k.arg, desc, k.value, f"{c.func.attr}({k.arg}=...)"))

    # -- (d) matrices -------------------------------------------------------------
    def _matrices(self, f: Func):
        if not f.rel.endswith("sympytools.py"):
            return
        for c in ast.walk(f.node):
            if isinstance(c, ast.Call) and (dotted(c.func) or "").split(".")[-1] == "Matrix" and c.args:
                desc = self.N.norm_seq(c.args[0], f)
                self.producers.append(Producer("STATE", f, "matrix", desc, c, norm(c)[:80]))
