"""Flow rules (FL), DESIGN.md section 2.4: intra-procedural def-use of parameters with
reassignment, call-argument binding, evaluation order of calls."""

from __future__ import annotations

import ast
from dataclasses import dataclass

from .sm import Func, dotted, norm, walk_no_nested


def param_deps(f: Func) -> dict[str, set[str]]:
    """For every local name: the set of parameters its value may depend on (flow-insensitive closure
    over assignments; `p = g(cfg.get('p', p))` keeps p's identity)."""
    deps: dict[str, set[str]] = {p: {p} for p in f.params}
    changed = True
    while changed:
        changed = False
        for n in walk_no_nested(f.node):
            tgts, val = [], None
            if isinstance(n, ast.Assign):
                tgts, val = n.targets, n.value
            elif isinstance(n, ast.AnnAssign) and n.value is not None:
                tgts, val = [n.target], n.value
            elif isinstance(n, ast.AugAssign):
                tgts, val = [n.target], n.value
            elif isinstance(n, ast.NamedExpr):
                tgts, val = [n.target], n.value
            elif isinstance(n, (ast.For,)):
                tgts, val = [n.target], n.iter
            elif isinstance(n, ast.With):
                for it in n.items:
                    if it.optional_vars is not None:
                        tgts, val = [it.optional_vars], it.context_expr
            if val is None:
                continue
            src = set()
            for x in ast.walk(val):
                if isinstance(x, ast.Name) and x.id in deps:
                    src |= deps[x.id]
            for t in tgts:
                for x in ast.walk(t):
                    if isinstance(x, ast.Name):
                        cur = deps.setdefault(x.id, set())
                        if not src <= cur:
                            cur |= src
                            changed = True
    return deps


def expr_params(node, deps: dict[str, set[str]]) -> set[str]:
    out = set()
    for x in ast.walk(node):
        if isinstance(x, ast.Name) and x.id in deps:
            out |= deps[x.id]
    return out


@dataclass
class CallUse:
    call: ast.Call
    callee: str
    kw: str | None
    pos: int | None
    params: set


def keyword_uses(f: Func) -> list[CallUse]:
    """Every (call, keyword/position) in f together with the parameters of f the argument depends on."""
    deps = param_deps(f)
    out = []
    for n in walk_no_nested(f.node):
        if isinstance(n, ast.Call):
            callee = dotted(n.func) or norm(n.func)
            for i, a in enumerate(n.args):
                if isinstance(a, ast.Starred):
                    continue
                out.append(CallUse(n, callee, None, i, expr_params(a, deps)))
            for k in n.keywords:
                out.append(CallUse(n, callee, k.arg, None, expr_params(k.value, deps)))
    return out


def condition_params(f: Func) -> set[str]:
    deps = param_deps(f)
    out = set()
    for n in walk_no_nested(f.node):
        if isinstance(n, (ast.If, ast.While, ast.IfExp)):
            out |= expr_params(n.test, deps)
    return out


def eval_order(node) -> list[ast.AST]:
    """Call nodes of a function body in (approximate) evaluation order: arguments before the call,
    with-items before the with body, statement order otherwise."""
    out: list[ast.AST] = []

    def expr(e):
        if e is None:
            return
        if isinstance(e, ast.Call):
            expr(e.func)
            for a in e.args:
                expr(a)
            for k in e.keywords:
                expr(k.value)
            out.append(e)
            return
        if isinstance(e, (ast.Lambda, ast.FunctionDef, ast.AsyncFunctionDef, ast.ClassDef)):
            return
        for ch in ast.iter_child_nodes(e):
            if isinstance(ch, ast.expr):
                expr(ch)
            elif isinstance(ch, (ast.keyword,)):
                expr(ch.value)
            elif isinstance(ch, ast.comprehension):
                expr(ch.iter)
                for c in ch.ifs:
                    expr(c)

    def stmts(body):
        for st in body:
            if isinstance(st, (ast.FunctionDef, ast.AsyncFunctionDef, ast.ClassDef)):
                continue
            if isinstance(st, ast.With):
                for it in st.items:
                    expr(it.context_expr)
                stmts(st.body)
            elif isinstance(st, ast.If):
                expr(st.test)
                stmts(st.body)
                stmts(st.orelse)
            elif isinstance(st, (ast.For, ast.While)):
                expr(st.iter if isinstance(st, ast.For) else st.test)
                stmts(st.body)
                stmts(st.orelse)
            elif isinstance(st, ast.Try):
                stmts(st.body)
                for h in st.handlers:
                    stmts(h.body)
                stmts(st.orelse)
                stmts(st.finalbody)
            else:
                for ch in ast.iter_child_nodes(st):
                    if isinstance(ch, ast.expr):
                        expr(ch)

    stmts(node.body)
    return out
