"""Grammar model (GM): ode.lark read with lark's own grammar loader (no parser is built, no model
text is parsed).  Rules are rendered to a canonical EBNF string that is independent of layout,
comments and alternative order is preserved (it matters for nothing here but keeps output stable).
"""

from __future__ import annotations

import os
import re
from pathlib import Path

from .core import AnalysisError

GRAMMAR_REL = "src/gotranx/ode.lark"


class GrammarModel:
    def __init__(self, repo: Path, overlay: dict | None = None, normalise_renames: bool = True):
        try:
            from lark.load_grammar import load_grammar
            from lark.lexer import Token
            from lark.tree import Tree
        except Exception as e:  # pragma: no cover
            raise AnalysisError(f"lark is not importable: {e}")
        self.Token, self.Tree = Token, Tree
        p = Path(repo) / GRAMMAR_REL
        src = (overlay or {}).get(GRAMMAR_REL)
        if src is None:
            if not p.exists():
                raise AnalysisError(f"{GRAMMAR_REL} not found")
            src = p.read_text()
        self.text = src
        self.renamed: dict[str, str] = {}
        self._load(src, p, load_grammar)
        if normalise_renames and not os.environ.get("VERIF_NO_ALPHA"):
            # grammar rules that were only renamed (same right-hand side, a name the vetted grammar never used, no trace of
            # the old name) are read under the name the rules know - sa/alpha.py, anchors.json `grammar`
            from . import alpha

            vetted = alpha.table().get("grammar", {})
            # a rule the Python side knows by name (a transformer callback, a `tree.data == "..."` test) is not a plain
            # rename when only the grammar changes: those are left as they are
            py_names = {q.split(".")[-1] for m_ in alpha.table().get("modules", {}).values() for q in m_} | set(alpha.table().get("string_words", []))
            vetted = {k: v for k, v in vetted.items() if k not in py_names}
            for _round in range(3):
                missing = [n for n in vetted if n not in self.rules]
                fresh = [n for n in self.rules if n not in vetted]
                mapping = {}
                for m in missing:
                    cands = [f for f in fresh if self.rules[f]["shape"] == vetted[m] and f not in mapping]
                    if len(cands) == 1 and not re.search(rf"(?<![\w\"]){re.escape(m)}(?![\w\"])", src):
                        mapping[cands[0]] = m
                if not mapping:
                    break
                parts = re.split(r'("(?:[^"\\]|\\.)*"|/(?:[^/\\\n]|\\.)+/)', src)
                for i in range(0, len(parts), 2):
                    for new_, old_ in mapping.items():
                        parts[i] = re.sub(rf"(?<!\w){re.escape(new_)}(?!\w)", old_, parts[i])
                src = "".join(parts)
                self.renamed.update(mapping)
                self.text = src
                self._load(src, p, load_grammar)

    def _load(self, src, p, load_grammar):
        try:
            g, _ = load_grammar(src, str(p), ["lark"], False)
        except Exception as e:
            raise AnalysisError(f"{GRAMMAR_REL} cannot be loaded by lark: {type(e).__name__}: {e}")
        self.rules: dict[str, dict] = {}
        for name, params, tree, opts in g.rule_defs:
            name = str(name)
            self.rules[name] = {
                "inline": bool(opts and opts.expand1),
                "keep_all": bool(opts and opts.keep_all_tokens),
                "tree": tree,
                "shape": self.render(tree, sort_alts=True),
            }
        self.terms: dict[str, dict] = {}
        for name, (tree, prio) in g.term_defs:
            self.terms[str(name)] = {"tree": tree, "shape": self.render(tree), "priority": prio}
        self.ignore = [str(x) for x in g.ignore]
        self._g = g
        self._regex: dict[str, str] | None = None

    def block_rule_name(self) -> str:
        """the rule of the expression blocks, found by what it matches (the `expressions` keyword), not by its name"""
        names = [n for n, r in self.rules.items() if '"expressions"' in r["shape"]]
        if "expressions" in names:
            return "expressions"
        if not names:
            raise AnalysisError(f"{GRAMMAR_REL}: no rule that matches the `expressions` keyword (anchor vanished)")
        return names[0]

    def handlers(self, rule: str) -> list[str]:
        """names of the transformer callbacks lark calls for a rule: the rule name, or the alias of an alternative"""
        out = []
        plain = False
        for a in self.rules[rule]["tree"].children:
            if getattr(a, "data", None) == "alias" and len(a.children) > 1 and a.children[1] is not None:
                out.append(str(a.children[1].name if hasattr(a.children[1], "name") else a.children[1]))
            else:
                plain = True
        return ([rule] if plain else []) + out

    def expand_inlined(self, text: str, depth: int = 4) -> str:
        """canonical EBNF text with the references to inlined helper rules (`_name`) replaced by their definition"""
        import re

        def repl(m):
            r = self.rules.get(m.group(0))
            return "(" + r["shape"] + ")" if r is not None else m.group(0)

        for _ in range(depth):
            new = re.sub(r"(?<![\w\"])_[a-z][a-z0-9_]*\b", repl, text)
            if new == text:
                break
            text = new
        return text

    def term_regex(self, name: str) -> str | None:
        """the regular expression lark compiles a terminal to (its definition with every referenced terminal expanded)"""
        if self._regex is None:
            self._regex = {}
            try:
                import copy

                start = [n for n in self.rules][:1]
                terms, _rules, _ign = copy.deepcopy(self._g).compile(start, set())
                for t in terms:
                    try:
                        self._regex[str(t.name)] = t.pattern.to_regexp()
                    except Exception:
                        pass
            except Exception as e:
                raise AnalysisError(f"{GRAMMAR_REL}: terminals cannot be compiled by lark: {type(e).__name__}: {e}")
        return self._regex.get(name)

    # ------------------------------------------------------------------
    def render(self, t, sort_alts: bool = False) -> str:
        """Canonical EBNF.  ``sort_alts``: alternatives are sorted - used for *rules*, whose alternatives are unordered
        under the LALR parser the package constructs (a conflict is an error, there is no priority); the alternation
        inside a *terminal* is a regular expression whose order matters and is kept."""
        if sort_alts:
            return self._render_sorted(t)
        Tree, Token = self.Tree, self.Token
        if isinstance(t, Token):
            return str(t)
        if not isinstance(t, Tree):
            name = getattr(t, "name", None)
            return str(name if name is not None else t)
        d, ch = t.data, t.children
        if d == "expansions":
            alts = [self.render(c) for c in ch]
            return alts[0] if len(alts) == 1 else "(" + " | ".join(alts) + ")"
        if d == "expansion":
            return " ".join(self.render(c) for c in ch) if ch else "<empty>"
        if d == "alias":
            return f"{self.render(ch[0])} -> {self.render(ch[1])}"
        if d == "value":
            return self.render(ch[0])
        if d == "literal":
            return str(ch[0])
        if d == "expr":
            inner = self.render(ch[0])
            op = "".join(str(c) for c in ch[1:])
            return f"({inner})" + op
        if d == "maybe":
            return "[" + self.render(ch[0]) + "]"
        if d == "range":
            return f"{ch[0]}..{ch[1]}"
        if d == "template_usage":
            return "template(" + ", ".join(self.render(c) for c in ch) + ")"
        return f"{d}(" + ", ".join(self.render(c) for c in ch) + ")"

    def _render_sorted(self, t) -> str:
        Tree, Token = self.Tree, self.Token
        if isinstance(t, Token) or not isinstance(t, Tree):
            return self.render(t)
        d, ch = t.data, t.children
        r = self._render_sorted
        if d == "expansions":
            alts = sorted(r(c) for c in ch)
            return alts[0] if len(alts) == 1 else "(" + " | ".join(alts) + ")"
        if d == "expansion":
            return " ".join(r(c) for c in ch) if ch else "<empty>"
        if d == "alias":
            return f"{r(ch[0])} -> {r(ch[1])}"
        if d == "value":
            return r(ch[0])
        if d == "expr":
            return f"({r(ch[0])})" + "".join(str(c) for c in ch[1:])
        if d == "maybe":
            return "[" + r(ch[0]) + "]"
        return self.render(t)

    def assignment_rule_name(self) -> str:
        """the rule of one `name = expression` line, found by what it matches, not by its name (it is an inlined rule:
        no Python code refers to it by name)"""
        if "assignment" in self.rules:
            return "assignment"
        names = [n for n, r in self.rules.items() if r["shape"].replace(" ", "").startswith('VARIABLE"="expression')]
        if not names:
            raise AnalysisError(f"{GRAMMAR_REL}: no rule of the form VARIABLE \"=\" expression ... (anchor vanished)")
        return names[0]

    def rule(self, name: str) -> dict:
        if name not in self.rules:
            raise AnalysisError(f"grammar rule `{name}` not found in ode.lark")
        return self.rules[name]

    def shape(self, name: str) -> str:
        r = self.rule(name)
        return ("?" if r["inline"] else "") + ("!" if r["keep_all"] else "") + name + ": " + r["shape"]

    def term_literal(self, name: str) -> str | None:
        """The literal string of a terminal defined as one plain string (None otherwise)."""
        t = self.terms.get(name)
        if t is None:
            return None
        s = t["shape"]
        if s.startswith('"') and s.endswith('"') and s.count('"') == 2:
            return s[1:-1]
        return None

    def alternatives_terminals(self, rule: str) -> list[str]:
        """Terminal names of a rule that is an alternation of single terminals (funcname, logicalfuncname)."""
        out = []
        tree = self.rule(rule)["tree"]
        for alt in tree.children:
            node = alt
            while isinstance(node, self.Tree) and node.data in ("expansion", "value", "alias") and node.children:
                node = node.children[0]
            name = getattr(node, "name", None)
            if name is None:
                raise AnalysisError(f"grammar rule `{rule}` is no longer an alternation of terminals")
            out.append(str(name))
        return out

    def literals_of(self, rule: str) -> list[str]:
        out = []
        for tn in self.alternatives_terminals(rule):
            lit = self.term_literal(tn)
            if lit is None:
                raise AnalysisError(f"terminal {tn} (used by `{rule}`) is not a plain string literal: {self.terms.get(tn, {}).get('shape')}")
            out.append(lit)
        return out

    def rule_literals(self, rule: str) -> list[str]:
        """Plain string literals appearing in a rule body (for the operator rules)."""
        out = []

        def rec(t):
            if isinstance(t, self.Tree):
                if t.data == "literal":
                    s = str(t.children[0])
                    if s.startswith('"'):
                        out.append(s.strip('"'))
                for c in t.children:
                    rec(c)

        rec(self.rule(rule)["tree"])
        return out

    def rule_refs(self, rule: str) -> list[str]:
        out = []

        def rec(t):
            if isinstance(t, self.Tree):
                for c in t.children:
                    rec(c)
            elif not isinstance(t, self.Token):
                n = getattr(t, "name", None)
                if n is not None:
                    out.append(str(n))

        rec(self.rule(rule)["tree"])
        return out
