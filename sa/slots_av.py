"""Slot producers read from abstract values (sa.av) instead of from syntax.

`sa.slots` finds (name <-> index) producers in the shape of the code: `enumerate(...)` in a `for` or a comprehension,
a counter variable, keyword lists of the init templates, `Matrix(...)`.  That is exact when the sequence expression can be
followed back to the model's accessors through single-assignment locals.  When it cannot (the sequence is a parameter
of a shared helper, the accessor was rewritten as an explicit loop, the result is returned as part of a tuple ...)
this module evaluates the *whole function* with the abstract evaluator -- private helpers and the model's own
`sorted_states` / `sorted_state_derivatives` expanded -- and reads the producers from the value:

    base[#k]                      inside a comprehension value: the k-th element of the comprehension's source gets slot k
    base[#k | cond]               a counter that advances on the elements that satisfy cond
    template.<fam>_index(data=<name: #k for ...>)
    template.init_*_values(<fam>_names=<...>, <fam>_values=<...>)
    sympy.Matrix(<...>)

The descriptor of the source sequence uses the vocabulary of sa.slots.Desc, so producers found either way compare equal.
"""

from __future__ import annotations

import ast

from . import av
from .slots import Desc, Producer, SIZE_CLASSES, MODEL_CLASS, ROOT_ACCESSOR
from .sm import Func, SourceModel

ACCESSORS = {"sorted_states", "sorted_state_derivatives"}
RECEIVERS = {"self.ode": MODEL_CLASS, "ode": MODEL_CLASS}
TEMPLATE_LISTS = {"state_names": "STATE", "state_values": "STATE", "parameter_names": "PARAM", "parameter_values": "PARAM"}
INDEX_FAMILY = {"state": "STATE", "parameter": "PARAM", "monitor": "MONITOR", "missing": "MISSING"}


def make_av(sm: SourceModel) -> av.AV:
    return av.AV(sm, inline=lambda c: av.AV.default_inline(c) or (c.qualname.split(".")[0] == MODEL_CLASS and c.name in ACCESSORS), receivers=RECEIVERS)


class Extract:
    def __init__(self, sm: SourceModel, normaliser, f: Func, A: av.AV | None = None):
        self.sm, self.N, self.f = sm, normaliser, f
        self.A = A or make_av(sm)
        self.producers: list[Producer] = []
        self.unknown: list[str] = []

    def run(self):
        f = self.f
        recv = dict(RECEIVERS)
        if f.cls == MODEL_CLASS:
            recv["self"] = MODEL_CLASS
        self.recv = recv
        n0 = len(self.A.call_log)
        try:
            v, _env = self.A.returned(f)
        except Exception as e:  # evaluation failures are 'not understood', never a verdict
            self.unknown.append(f"evaluation failed: {type(e).__name__}: {e}")
            return self
        vals = [v]
        # calls whose result does not reach the return value in a form the evaluator keeps (a matrix that is then
        # rewritten in a while loop) are in the call log
        for _caller, _node, cv in self.A.call_log[n0:]:
            if cv[0] == "call" and cv[1].split(".")[-1] == "Matrix":
                vals.append(cv)
            elif cv[0] == "mcall" and av.show(cv[1]).endswith("template"):
                vals.append(cv)
        self.anchor = f.node
        seen = set()
        for val in vals:
            self._walk(val, {}, seen)
        return self

    # ------------------------------------------------------------------
    def _walk(self, v, comps: dict, seen: set):
        if not isinstance(v, tuple) or not v:
            return
        t = v[0]
        if t == "comp" and len(v) >= 5 and isinstance(v[1], int):
            comps = dict(comps)
            comps[v[1]] = v
            self._walk(v[2], comps, seen)
            for x in v[3]:
                self._walk(x, comps, seen)
            for x in v[4]:
                self._walk(x, comps, seen)
            return
        if t == "sub" and len(v) == 3 and isinstance(v[2], tuple) and v[2] and v[2][0] in ("idx", "cidx"):
            self._index_use(v[1], v[2], comps, seen, None)
        if t == "mcall" and av.show(v[1]).endswith("template"):
            meth = v[2]
            if meth.endswith("_index"):
                fam = INDEX_FAMILY.get(meth[: -len("_index")])
                for val in list(v[3]) + [x for _, x in v[4]]:
                    self._index_dict(val, fam, comps, seen, meth)
            for k, val in v[4]:
                if k in TEMPLATE_LISTS:
                    desc = self.desc_of(val)
                    self._add(TEMPLATE_LISTS[k], k, desc, f"{meth}({k}=...)", seen, ("list", k, val))
        if t == "call" and v[1].split(".")[-1] == "Matrix" and v[2] and self.f.rel.endswith("sympytools.py"):
            desc = self.desc_of(v[2][0])
            self._add("STATE", "matrix", desc, av.show(v)[:80], seen, ("matrix", v))
        for x in v[1:]:
            if isinstance(x, tuple):
                self._walk_any(x, comps, seen)

    def _walk_any(self, x, comps, seen):
        if x and isinstance(x[0], str):
            self._walk(x, comps, seen)
        else:
            for y in x:
                if isinstance(y, tuple):
                    self._walk_any(y, comps, seen)

    # ------------------------------------------------------------------
    def _index_dict(self, val, fam, comps, seen, meth):
        val = av._unwrap_seq(val)
        if val[0] == "call" and val[1] == "dict" and len(val[2]) == 1:
            val = av._unwrap_seq(val[2][0])
        if val[0] != "comp":
            return
        comps = dict(comps)
        comps[val[1]] = val
        for it in val[3]:
            if it[0] == "kv" and it[2][0] in ("idx", "cidx") and it[2][1] == val[1]:
                if fam is None:
                    continue
                self._index_use(None, it[2], comps, seen, fam, detail=f"{meth}(data={{name: index}})")

    def _index_use(self, base, idx, comps, seen, fam, detail=None):
        d = idx[1]
        comp = comps.get(d)
        if fam is None:
            fam = self.family_of_base(base)
        if comp is None:
            return
        kind = "enumerate" if idx[0] == "idx" else "counter"
        desc = self.desc_of(comp[2])
        # conditions of the comprehension select which elements are *emitted*; they do not renumber
        if idx[0] == "cidx":
            flt = self.canon_filter(idx[3], d)
            desc = Desc(base=desc.base, args=desc.args, filters=tuple(sorted(list(desc.filters) + [flt])), maps=desc.maps, opaque=desc.opaque, unknown=desc.unknown)
        start = idx[2]
        if start != av.C(0):
            desc = Desc(base=desc.show() + f" start={av.show(start)}", opaque=True)
        if fam is None:
            return
        self._add(fam, kind, desc, detail or f"{av.show(base)}[{av.show(idx)}]"[:90], seen, (kind, fam, desc))

    def _add(self, fam, kind, desc, detail, seen, key):
        if key in seen:
            return
        seen.add(key)
        self.producers.append(Producer(fam, self.f, kind, desc, self.anchor, detail, True))

    def family_of_base(self, base) -> str | None:
        if base is None:
            return None
        if base[0] == "call" and base[1].split(".")[-1] == "IndexedBase":
            shape = dict(base[3]).get("shape")
            if shape is None:
                return None
            if shape[0] == "list" and len(shape[1]) == 1:
                shape = shape[1][0]
            text = av.show(shape).replace("self.ode.", "ODE.")
            if text.startswith("ode."):
                text = "ODE." + text[4:]
            text = text.replace("(ode.", "(ODE.").replace(" ode.", " ODE.")
            if text.startswith("(") and text.endswith(")") and text.count("(") == text.count(")"):
                inner = text[1:-1]
                depth, ok = 0, True
                for ch in inner:
                    depth += ch == "("
                    depth -= ch == ")"
                    ok = ok and depth >= 0
                if ok:
                    text = inner
            for fam, texts in SIZE_CLASSES.items():
                if text in texts:
                    return fam
            return None
        if base[0] == "attr" and base[2] in ("states", "parameters"):
            return {"states": "STATE", "parameters": "PARAM"}[base[2]]
        if base[0] == "sym" and base[1] in self.f.params:
            return {"states": "STATE", "parameters": "PARAM", "missing_variables": "MISSING"}.get(base[1])
        return None

    # ------------------------------------------------------------------
    def canon_filter(self, cond, d: int) -> str:
        if cond[0] == "call" and cond[1] == "isinstance" and len(cond[2]) == 2 and cond[2][0] == ("bv", d):
            k = cond[2][1]
            classes = list(k[1]) if k[0] == "list" else [k]
            names = sorted(av.show(c).split(".")[-1] for c in classes)
            return "isinstance[" + "|".join(names) + "]"
        import re

        return re.sub(rf"\${d}\b", "_", av.show(cond))

    def desc_of(self, seq, depth: int = 0) -> Desc:
        seq = av._unwrap_seq(seq)
        if depth > 12:
            return Desc(base="<too deep>", opaque=True, unknown=True)
        t = seq[0]
        if t == "comp":
            d = seq[1]
            inner = self.desc_of(seq[2], depth + 1)
            filters = list(inner.filters) + [self.canon_filter(c, d) for c in seq[4] if c != av.C(True)]
            maps = inner.maps
            if len(seq[3]) != 1 or seq[3][0][0] in ("spread", "when", "kv", "kadd"):
                return Desc(base=av.show(seq)[:80], opaque=True, unknown=True)
            item = seq[3][0]
            if item != ("bv", d):
                if not _mentions(item, d):
                    return Desc(base=av.show(seq)[:80], opaque=True)
                maps = maps + (av.show(item),)
            return Desc(base=inner.base, args=inner.args, filters=tuple(sorted(filters)), maps=maps, opaque=inner.opaque, unknown=inner.unknown)
        if t == "mcall" and av.show(seq[1]) in self.recv:
            node = self._synth(seq)
            if node is not None:
                return self.N.norm_seq(node, self.f)
        if t in ("sym", "attr"):
            text = av.show(seq)
            head, _, last = text.rpartition(".")
            if head in self.recv:
                return self.N.norm_seq(ast.parse(text, mode="eval").body, self.f)
            return Desc(base=f"<{text}>", opaque=True, unknown=True)
        if t == "call" and seq[1] == "reversed" and seq[2]:
            return Desc(base=f"reversed({self.desc_of(seq[2][0], depth + 1).show()})", opaque=True)
        if t == "call" and seq[1] == "sorted" and seq[2]:
            key = dict(seq[3]).get("key")
            return Desc(base=f"sorted[{av.show(key) if key is not None else ''}]({av.show(seq[2][0])})")
        if t == "slice":
            return Desc(base=av.show(seq)[:80], opaque=True)
        if t == "list" and len(seq[1]) > 1:
            return Desc(base=f"concat({av.show(seq)[:80]})", opaque=True)
        return Desc(base=av.show(seq)[:80], opaque=True, unknown=True)

    def _synth(self, mc):
        """an ast call node for a model accessor call value, so that sa.slots' normaliser (signature defaults,
        canonical spelling of remove_unused) is the single place that names descriptors"""
        try:
            args = [ast.parse(av.to_python(a), mode="eval").body for a in mc[3]]
            kws = [ast.keyword(arg=k, value=ast.parse(av.to_python(x), mode="eval").body) for k, x in mc[4]]
            recv = ast.parse(av.show(mc[1]), mode="eval").body
        except Exception:
            return None
        return ast.Call(func=ast.Attribute(value=recv, attr=mc[2], ctx=ast.Load()), args=args, keywords=kws)


def _mentions(v, d: int) -> bool:
    if not isinstance(v, tuple):
        return False
    if v and v[0] == "bv" and len(v) > 1 and v[1] == d:
        return True
    return any(_mentions(x, d) for x in v if isinstance(x, tuple))
