"""Apply a unified diff (as produced by `git diff`) to file contents held in memory."""

from __future__ import annotations

import re


class PatchError(Exception):
    pass


def parse(diff_text: str) -> dict[str, list[tuple[list[str], list[str]]]]:
    """relpath -> list of hunks (old_lines, new_lines, old_start), both line lists including the context lines."""
    files: dict[str, list] = {}
    cur = None
    hunk_old: list[str] | None = None
    hunk_new: list[str] | None = None
    start = 0
    for line in diff_text.splitlines():
        if line.startswith("diff --git"):
            if cur is not None and hunk_old is not None:
                files[cur].append((hunk_old, hunk_new, start))
            cur, hunk_old, hunk_new = None, None, None
            continue
        if line.startswith("+++ "):
            path = line[4:].strip()
            cur = path[2:] if path.startswith("b/") else path
            files.setdefault(cur, [])
            continue
        if line.startswith("--- ") or line.startswith("index ") or line.startswith("new file") or line.startswith("deleted file") or line.startswith("similarity") or line.startswith("rename"):
            continue
        if line.startswith("@@"):
            if cur is None:
                raise PatchError("hunk before file header")
            if hunk_old is not None:
                files[cur].append((hunk_old, hunk_new, start))
            hunk_old, hunk_new = [], []
            m = re.match(r"@@ -(\d+)", line)
            start = int(m.group(1)) if m else 0
            continue
        if hunk_old is None:
            continue
        if line.startswith("\\"):
            continue
        if line.startswith("+"):
            hunk_new.append(line[1:])
        elif line.startswith("-"):
            hunk_old.append(line[1:])
        else:
            txt = line[1:] if line.startswith(" ") else line
            hunk_old.append(txt)
            hunk_new.append(txt)
    if cur is not None and hunk_old is not None:
        files[cur].append((hunk_old, hunk_new, start))
    return files


def apply_to_text(text: str, hunks) -> str:
    """Hunks are applied where their header says (shifted by what earlier hunks added or removed); when the context
    is not there, at the nearest place where it is (as `git apply` / `patch` do) - never at the *first* place,
    which may be a sibling function with the same lines."""
    lines = text.split("\n")
    pos = 0
    delta = 0
    for hunk in hunks:
        old, new = hunk[0], hunk[1]
        start = hunk[2] if len(hunk) > 2 else 0
        n = len(old)
        cands = [i for i in range(pos, len(lines) - n + 1) if lines[i : i + n] == old]
        if not cands:
            raise PatchError("hunk context not found")
        want = (start - 1 + delta) if start else cands[0]
        found = min(cands, key=lambda i: (abs(i - want), i))
        lines[found : found + n] = new
        pos = found + len(new)
        delta += len(new) - n
    return "\n".join(lines)


def apply(diff_text: str, read) -> dict[str, str]:
    """read(relpath) -> current text (or None).  Returns relpath -> patched text; raises PatchError if it does not apply."""
    out = {}
    for rel, hunks in parse(diff_text).items():
        cur = read(rel)
        if cur is None:
            raise PatchError(f"{rel} not found")
        out[rel] = apply_to_text(cur, hunks)
    return out
