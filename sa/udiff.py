"""Apply a unified diff (as produced by `git diff`) to file contents held in memory."""

from __future__ import annotations

import re


class PatchError(Exception):
    pass


def parse(diff_text: str) -> dict[str, list[tuple[list[str], list[str]]]]:
    """relpath -> list of hunks (old_lines, new_lines), both including the context lines."""
    files: dict[str, list] = {}
    cur = None
    hunk_old: list[str] | None = None
    hunk_new: list[str] | None = None
    for line in diff_text.splitlines():
        if line.startswith("diff --git"):
            if cur is not None and hunk_old is not None:
                files[cur].append((hunk_old, hunk_new))
            cur, hunk_old, hunk_new = None, None, None
            continue
        if line.startswith("+++ "):
            path = line[4:].strip()
            cur = path[2:] if path.startswith("b/") else path
            files.setdefault(cur, [])
            continue
        if line.startswith("--- ") or line.startswith("index ") or line.startswith("new file") or line.startswith("deleted file") or line.startswith("similarity") or line.startswith("rename"):
            continue
        if line.startswith("@@"):
            if cur is None:
                raise PatchError("hunk before file header")
            if hunk_old is not None:
                files[cur].append((hunk_old, hunk_new))
            hunk_old, hunk_new = [], []
            continue
        if hunk_old is None:
            continue
        if line.startswith("\\"):
            continue
        if line.startswith("+"):
            hunk_new.append(line[1:])
        elif line.startswith("-"):
            hunk_old.append(line[1:])
        else:
            txt = line[1:] if line.startswith(" ") else line
            hunk_old.append(txt)
            hunk_new.append(txt)
    if cur is not None and hunk_old is not None:
        files[cur].append((hunk_old, hunk_new))
    return files


def apply_to_text(text: str, hunks) -> str:
    lines = text.split("\n")
    pos = 0
    for old, new in hunks:
        found = None
        n = len(old)
        for i in range(pos, len(lines) - n + 1):
            if lines[i : i + n] == old:
                found = i
                break
        if found is None:
            raise PatchError("hunk context not found")
        lines[found : found + n] = new
        pos = found + len(new)
    return "\n".join(lines)


def apply(diff_text: str, read) -> dict[str, str]:
    """read(relpath) -> current text (or None).  Returns relpath -> patched text; raises PatchError if it does not apply."""
    out = {}
    for rel, hunks in parse(diff_text).items():
        cur = read(rel)
        if cur is None:
            raise PatchError(f"{rel} not found")
        out[rel] = apply_to_text(cur, hunks)
    return out
