"""Def-use canonicaliser: expressions are compared after every local that is bound exactly once in the function has
been replaced by its defining expression.  Renaming a local, hoisting a sub-expression into a named local or
inlining it back therefore does not change the canonical form."""

from __future__ import annotations

import ast
import copy

from .sm import norm


def single_defs(func_node) -> dict[str, ast.AST]:
    params = {a.arg for a in func_node.args.posonlyargs + func_node.args.args + func_node.args.kwonlyargs}
    if func_node.args.vararg:
        params.add(func_node.args.vararg.arg)
    if func_node.args.kwarg:
        params.add(func_node.args.kwarg.arg)
    count: dict[str, int] = {}
    vals: dict[str, ast.AST] = {}

    def bump(name, val=None):
        count[name] = count.get(name, 0) + 1
        if val is not None:
            vals[name] = val

    def walk(node):
        for n in ast.iter_child_nodes(node):
            if isinstance(n, (ast.FunctionDef, ast.AsyncFunctionDef, ast.ClassDef, ast.Lambda)):
                continue
            if isinstance(n, ast.Assign):
                for t in n.targets:
                    if isinstance(t, ast.Name) and len(n.targets) == 1:
                        bump(t.id, n.value)
                    else:
                        for x in ast.walk(t):
                            if isinstance(x, ast.Name) and isinstance(x.ctx, ast.Store):
                                bump(x.id)
            elif isinstance(n, ast.AnnAssign):
                if isinstance(n.target, ast.Name):
                    bump(n.target.id, n.value) if n.value is not None else None
            elif isinstance(n, ast.AugAssign):
                for x in ast.walk(n.target):
                    if isinstance(x, ast.Name):
                        bump(x.id)
                        bump(x.id)
            elif isinstance(n, (ast.For, ast.AsyncFor, ast.comprehension)):
                for x in ast.walk(n.target):
                    if isinstance(x, ast.Name):
                        bump(x.id)
                        bump(x.id)
            elif isinstance(n, ast.With):
                for it in n.items:
                    if it.optional_vars is not None:
                        for x in ast.walk(it.optional_vars):
                            if isinstance(x, ast.Name):
                                bump(x.id)
                                bump(x.id)
            elif isinstance(n, ast.NamedExpr) and isinstance(n.target, ast.Name):
                bump(n.target.id)
                bump(n.target.id)
            walk(n)

    walk(func_node)
    # a name mutated in place (x.append / x[k] = ...) is not a plain value either
    mutated = set()
    for n in ast.walk(func_node):
        if isinstance(n, ast.Call) and isinstance(n.func, ast.Attribute) and isinstance(n.func.value, ast.Name) and n.func.attr in ("append", "extend", "add", "update", "insert", "remove", "pop", "setdefault", "clear"):
            mutated.add(n.func.value.id)
        if isinstance(n, ast.Call) and isinstance(n.func, ast.Attribute) and isinstance(n.func.value, ast.Subscript) and isinstance(n.func.value.value, ast.Name) and n.func.attr in ("append", "extend", "add", "update", "insert", "setdefault"):
            mutated.add(n.func.value.value.id)
        if isinstance(n, (ast.Assign, ast.AugAssign)):
            for t in n.targets if isinstance(n, ast.Assign) else [n.target]:
                if isinstance(t, ast.Subscript) and isinstance(t.value, ast.Name):
                    mutated.add(t.value.id)
    return {k: v for k, v in vals.items() if count.get(k) == 1 and k not in params and k not in mutated}


class Canon:
    def __init__(self, func_node):
        self.node = func_node
        self.defs = single_defs(func_node)

    def resolve(self, expr, depth: int = 8):
        defs = self.defs

        class R(ast.NodeTransformer):
            def __init__(self, d, active):
                self.d = d
                self.active = active

            def visit_Name(self, n):
                if isinstance(n.ctx, ast.Load) and n.id in defs and self.d > 0 and n.id not in self.active:
                    return R(self.d - 1, self.active | {n.id}).visit(copy.deepcopy(defs[n.id]))
                return n

            def visit_Lambda(self, n):
                return n

        return R(depth, frozenset()).visit(copy.deepcopy(expr))

    def text(self, expr) -> str:
        return norm(self.resolve(expr))
