"""Path tables of the scheme builders in schemes.py (used by C05, C06, C07, C04, C12).

For every builder (module-level function whose first two parameters are ``ode, dt``) the loop
over the sorted assignments is located, every feasible path through its body is enumerated,
and for each path the emitted definitions, the store into the result array and the counter
discipline are evaluated to normalised terms over role atoms:

    X        the loop variable (an assignment)          STATE  X.state.symbol
    DERIV    X.symbol                                    EXPR   X.expr
    DT       the builder's second parameter               DELTA  the 'delta' parameter
    CTR      the slot counter                             DIFF   EXPR.diff(STATE)
"""

from __future__ import annotations

import ast
from dataclasses import dataclass, field

from . import te
from .core import AnalysisError
from .sm import Func, SourceModel, dotted, norm, find_calls


@dataclass
class PathRow:
    lits: frozenset  # canonical literals (name, polarity)
    raw_pred: str
    emissions: list  # (lhs_term, rhs_term, node) in order
    store: tuple | None  # (index_term, rhs_term, node, position in emissions)
    stores: int
    incs_before_store: int
    incs_after_store: int
    exit: str
    first_def_ok: bool
    lin_defined_before_use: bool | None
    notes: list = field(default_factory=list)


@dataclass
class SchemeModel:
    func: Func
    loop: ast.For
    loopvar: str
    seq: ast.AST  # iterable of the loop
    dt: str
    values_name: str | None
    values_shape: ast.AST | None
    counter: str | None
    counter_init: ast.AST | None
    rows: list
    pre: dict  # name -> value node for assignments before the loop
    printer: str
    result_list: str


def scheme_builders(sm: SourceModel) -> list[Func]:
    out = []
    for f in sm.funcs_in("schemes.py"):
        if "." in f.qualname:
            continue
        ps = f.params
        if len(ps) >= 2 and ps[0] == "ode" and ps[1] == "dt" and "printer" in ps and not f.name.startswith("_"):
            out.append(f)
    if not out:
        for nm in ("explicit_euler", "generalized_rush_larsen", "hybrid_rush_larsen"):
            f = sm.func("schemes.py", nm, required=False)
            if f:
                out.append(f)
    if not out:
        raise AnalysisError("no scheme builder (function with parameters ode, dt, ...) found in schemes.py")
    return out


def _conditional_handler(ev: te.TermEval, call: ast.Call):
    args = list(call.args)
    kw = {k.arg: k.value for k in call.keywords if k.arg}
    c = kw.get("cond", args[0] if len(args) > 0 else None)
    a = kw.get("true_value", args[1] if len(args) > 1 else None)
    b = kw.get("false_value", args[2] if len(args) > 2 else None)
    if c is None or a is None or b is None:
        return te.atom(norm(call))
    return ("ite", ev.ev(c), ev.ev(a), ev.ev(b))


def build(sm: SourceModel, f: Func) -> SchemeModel:
    from .canon import Canon
    from .inline import inlined

    try:
        m_av = build_av(sm, f)
    except AnalysisError:
        raise
    except Exception:
        m_av = None
    if m_av is not None and m_av.rows:
        return m_av

    f = inlined(sm, f)
    node = f.node
    canon = Canon(node)
    dt = f.params[1]
    printer = "printer" if "printer" in f.params else None
    # main loop: the (single) top-level for loop whose iterable mentions the first parameter
    loops = [st for st in node.body if isinstance(st, ast.For)]
    loops = [l for l in loops if f.params[0] in {n.id for n in ast.walk(canon.resolve(l.iter)) if isinstance(n, ast.Name)}]
    if len(loops) != 1:
        raise AnalysisError(f"{f.key()}: expected exactly one top-level loop over the model's assignments, found {len(loops)}")
    loop = loops[0]
    if not isinstance(loop.target, ast.Name):
        raise AnalysisError(f"{f.key()}: loop target is not a simple name")
    x = loop.target.id
    pre = {}
    for st in node.body:
        if st is loop:
            break
        if isinstance(st, ast.Assign) and len(st.targets) == 1 and isinstance(st.targets[0], ast.Name):
            pre[st.targets[0].id] = st.value
        elif isinstance(st, ast.AnnAssign) and isinstance(st.target, ast.Name) and st.value is not None:
            pre[st.target.id] = st.value
        elif isinstance(st, ast.If):
            for s2 in st.body:
                if isinstance(s2, ast.Assign) and len(s2.targets) == 1 and isinstance(s2.targets[0], ast.Name):
                    pre.setdefault("if:" + norm(st.test) + ":" + s2.targets[0].id, s2.value)
    values_name = values_shape = None
    counter = counter_init = None
    result_list = None
    for name, v in pre.items():
        if isinstance(v, ast.Call) and (dotted(v.func) or "").endswith("IndexedBase"):
            values_name = name
            for k in v.keywords:
                if k.arg == "shape":
                    values_shape = k.value
        if isinstance(v, ast.Constant) and isinstance(v.value, int) and not isinstance(v.value, bool):
            # the counter is the integer local that is augmented inside the loop
            if any(isinstance(n, ast.AugAssign) and isinstance(n.target, ast.Name) and n.target.id == name for n in ast.walk(loop)):
                counter, counter_init = name, v
        if isinstance(v, ast.List) and not v.elts:
            if any(True for c in find_calls(loop, f"{name}.append")):
                result_list = name
    if printer is None:
        raise AnalysisError(f"{f.key()}: no 'printer' parameter")
    if result_list is None and values_name is None and not any(isinstance(c, ast.Call) and isinstance(c.func, ast.Name) and c.func.id == printer for c in ast.walk(loop)):
        raise AnalysisError(f"{f.key()}: the equations are not printed and collected inside the builder's own loop (no printer(...) call, result list or IndexedBase there - emission is delegated to a helper object); no path table is built")
    atoms = {
        f"{x}.state.symbol": "STATE",
        f"{x}.symbol": "DERIV",
        f"{x}.expr": "EXPR",
        f"{x}.name": "XNAME",
        f"{x}.state.name": "STATENAME",
        x: "X",
        dt: "DT",
    }
    if "delta" in f.params:
        atoms["delta"] = "DELTA"
    if counter:
        atoms[counter] = "CTR"
    funcs = {"sympytools.Conditional": _conditional_handler, "Conditional": _conditional_handler}
    # module-level constants (a named suffix, a tolerance) are their values
    mod_consts = {}
    mod = sm.modules.get(f.rel)
    if mod is not None:
        for st in mod.body:
            if isinstance(st, ast.Assign) and len(st.targets) == 1 and isinstance(st.targets[0], ast.Name) and isinstance(st.value, ast.Constant) and isinstance(st.value.value, (str, int, float)) and not isinstance(st.value.value, bool):
                mod_consts[st.targets[0].id] = st.value
            elif isinstance(st, ast.AnnAssign) and isinstance(st.target, ast.Name) and isinstance(st.value, ast.Constant) and isinstance(st.value.value, (str, int, float)):
                mod_consts[st.target.id] = st.value
    rows = []
    for p in te.enumerate_paths(loop.body):
        ev = te.TermEval(env={}, atoms=atoms, funcs=funcs)
        for k_, v_ in mod_consts.items():
            if k_ not in f.params:
                ev.env[k_] = ev.ev(v_)
        emissions = []
        stores = []
        incs_positions = []
        notes = []
        defined_syms = []  # lhs terms printed so far
        local_nodes: dict[str, ast.AST] = {}

        def deref(node_):
            seen_ = 0
            while isinstance(node_, ast.Name) and node_.id in local_nodes and seen_ < 8:
                node_ = local_nodes[node_.id]
                seen_ += 1
            return node_

        for st in p.effects:
            if isinstance(st, ast.Assign) and len(st.targets) == 1 and isinstance(st.targets[0], ast.Name):
                ev.env[st.targets[0].id] = ev.ev(st.value)
                local_nodes[st.targets[0].id] = st.value
                continue
            if isinstance(st, ast.AugAssign) and isinstance(st.target, ast.Name) and st.target.id == counter:
                if isinstance(st.op, ast.Add) and isinstance(st.value, ast.Constant) and st.value.value == 1:
                    incs_positions.append(len(emissions))
                else:
                    notes.append(f"counter changed by {norm(st)}")
                    incs_positions.append(len(emissions))
                    incs_positions.append(len(emissions))
                continue
            if isinstance(st, ast.Expr) and isinstance(st.value, ast.Call):
                c = st.value
                d = dotted(c.func) or ""
                if result_list and d == f"{result_list}.append" and c.args:
                    inner = deref(c.args[0])
                    if isinstance(inner, ast.Call) and (dotted(inner.func) or "") == printer and len(inner.args) >= 2:
                        lhs_n, rhs_n = inner.args[0], inner.args[1]
                        lhs, rhs = ev.ev(lhs_n), ev.ev(rhs_n)
                        emissions.append((lhs, rhs, inner))
                        lhs_d = deref(lhs_n)
                        if isinstance(lhs_d, ast.Subscript) and dotted(lhs_d.value) == values_name:
                            stores.append((ev.ev(lhs_d.slice), rhs, inner, len(emissions) - 1))
                        continue
                    notes.append(f"appends something that is not printer(lhs, rhs): {norm(inner)[:60]}")
                continue
        lits = []
        for a, pol in p.lits:
            t = ev.ev(ast.parse(a, mode="eval").body)
            lits.append((canon_pred(t), pol))
        first_ok = bool(emissions) and emissions[0][0] == te.atom("DERIV") and emissions[0][1] == te.atom("EXPR")
        store = stores[0] if stores else None
        before = after = 0
        if store is not None:
            before = sum(1 for q in incs_positions if q <= store[3])
            after = sum(1 for q in incs_positions if q > store[3])
        else:
            after = len(incs_positions)
        # linearised symbol: a Symbol(...) term used in the stored rhs must have been printed before
        lin_ok = None
        if store is not None:
            used = _symbol_terms(store[1])
            if used:
                printed = [e[0] for e in emissions[: store[3]]]
                lin_ok = all(u in printed for u in used)
        rows.append(PathRow(frozenset(lits), p.pred(), emissions, store, len(stores), before, after, p.exit, first_ok, lin_ok, notes))
    if values_shape is not None:
        values_shape = canon.resolve(values_shape)
    return SchemeModel(f, loop, x, canon.resolve(loop.iter), dt, values_name, values_shape, counter, counter_init, rows, pre, printer, result_list or "")


def _symbol_terms(t) -> list:
    out = []
    if isinstance(t, tuple):
        if t and t[0] == "fn" and t[1] == "Symbol":
            out.append(t)
        else:
            for c in t:
                if isinstance(c, tuple):
                    out.extend(_symbol_terms(c))
    return out


DIFF = ("fn", "diff", (te.atom("EXPR"), te.atom("STATE")))
LIN_NAME = te._mk_cat([te.atom("XNAME"), te.atom("'_linearized'")])
LIN = ("fn", "Symbol", (LIN_NAME,))


def canon_pred(t) -> str:
    """Canonical name of a path predicate term."""
    if t == ("fn", "isinstance", (te.atom("X"), te.atom("atoms.StateDerivative"))) or t == ("fn", "isinstance", (te.atom("X"), te.atom("StateDerivative"))):
        return "ISDERIV"
    if t == ("fn", "attr:is_zero", (DIFF,)):
        return "DIFF_ZERO"
    if t == ("fn", "not", (("fn", "fraction_numerator_is_nonzero", (DIFF,)),)):
        return "NEED_GUARD"
    if t == ("fn", "fraction_numerator_is_nonzero", (DIFF,)):
        return "NUMERATOR_NONZERO"
    if t[0] == "fn" and t[1] == "in" and t[2][0] == te.atom("STATENAME"):
        return "STIFF[" + te.show(t[2][1]) + "]"
    if t[0] == "fn" and t[1] == "in":
        return "IN[" + te.show(t[2][0]) + " in " + te.show(t[2][1]) + "]"
    return te.show(t)


def normalise_lits(lits: frozenset) -> frozenset:
    """NEED_GUARD / NUMERATOR_NONZERO are each other's negation."""
    out = set()
    for a, p in lits:
        if a == "NUMERATOR_NONZERO":
            out.add(("NEED_GUARD", not p))
        else:
            out.add((a, p))
    return frozenset(out)


# reference terms -------------------------------------------------------------

def ref(text: str) -> tuple:
    env = {
        "STATE": te.atom("STATE"),
        "DT": te.atom("DT"),
        "DERIV": te.atom("DERIV"),
        "DELTA": te.atom("DELTA"),
        "LIN": LIN,
    }
    ev = te.TermEval(env=env, funcs={"ITE": lambda e, c: ("ite", e.ev(c.args[0]), e.ev(c.args[1]), e.ev(c.args[2])), "exp": lambda e, c: ("fn", "exp", (e.ev(c.args[0]),)), "Abs": lambda e, c: ("fn", "Abs", (e.ev(c.args[0]),))})
    return ev.ev(ast.parse(text, mode="eval").body)


EULER = ref("STATE + DT * DERIV")
RL = "DERIV / LIN * (exp(LIN * DT) - 1)"
GRL_PLAIN = ref(f"STATE + {RL}")
GRL_GUARDED = ref(f"STATE + ITE(Abs(LIN) > DELTA, {RL}, DT * DERIV)")


# ---------------------------------------------------------------------------------------------------------
# path tables from abstract values (sa.av): independent of how the builder is written (counter or position table,
# continue or else, helpers, comprehension, generator); the ast-based construction above is the fallback


def _atom_name(c, bv) -> str | None:
    """canonical predicate name of an atomic condition over the element `bv`"""
    from . import av

    isd = ("call", "isinstance", (bv, ("sym", "atoms.StateDerivative")), ())
    if c == isd or c == ("call", "isinstance", (bv, ("sym", "StateDerivative")), ()):
        return "ISDERIV"
    diff = ("mcall", ("attr", bv, "expr"), "diff", (("attr", ("attr", bv, "state"), "symbol"),), ())
    if c == ("attr", diff, "is_zero"):
        return "DIFF_ZERO"
    if c == ("call", "fraction_numerator_is_nonzero", (diff,), ()):
        return "NUMERATOR_NONZERO"
    sname = ("attr", ("attr", bv, "state"), "name")
    if c[0] == "cmp" and c[1] == "in" and c[2] == sname:
        return "STIFF[" + av.show(c[3]) + "]"
    if c[0] == "if" and c[1][0] == "cmp" and c[1][1] == "is" and c[1][3] == av.NONE and c[2] == av.C(False) and c[3][0] == "cmp" and c[3][1] == "in" and c[3][2] == sname and c[3][3] == c[1][2]:
        return "STIFF[" + av.show(c[3][3]) + "]"
    if c[0] == "cmp" and c[1] == "in":
        return "IN[" + av.show(c[2]) + " in " + av.show(c[3]) + "]"
    return None


def builder_value(sm: SourceModel, f: Func):
    """Abstract value of a scheme builder.  A builder that delegates to another builder (generalized RL = hybrid RL
    with every state stiff) is expanded through it.  One model invariant is used: the state of every state derivative
    met in ode.sorted_assignments() is one of ode.states (guaranteed by the pairing checks of C08), so
    `x.state.name in [s.name for s in ode.states]` is true."""
    from . import av

    names = {b.name for b in scheme_builders(sm)}
    A = av.AV(sm, inline=lambda c: av.AV.default_inline(c) or (c.name in names and c.rel == f.rel and c is not f))
    v, _env = A.returned(f)
    ode = f.params[0]

    def all_state_names(seq) -> bool:
        seq = av._unwrap_seq(seq)
        while seq[0] == "call" and seq[1] in ("set", "frozenset", "sorted") and len(seq[2]) == 1:
            seq = av._unwrap_seq(seq[2][0])
        return seq[0] == "comp" and av._unwrap_seq(seq[2]) == ("sym", f"{ode}.states") and not seq[4] and seq[3] == (("attr", ("bv", seq[1]), "name"),)

    def rw(t):
        if not isinstance(t, tuple) or not t:
            return t
        if t[0] == "cmp" and t[1] == "in" and t[2][0] == "attr" and t[2][2] == "name" and t[2][1][0] == "attr" and t[2][1][2] == "state" and all_state_names(t[3]):
            return av.C(True)
        if t[0] == "call" and t[1] == "printer" and t[3]:
            # the printer is called the way default_printer is declared: printer(lhs, rhs, use_variable_prefix=False)
            kw = dict(t[3])
            pos = list(t[2])
            for pname in ("lhs", "rhs")[len(pos):]:
                if pname in kw:
                    pos.append(kw.pop(pname))
                else:
                    break
            if kw.get("use_variable_prefix") == av.C(False):
                kw.pop("use_variable_prefix")
            return ("call", "printer", tuple(rw(x) for x in pos), tuple(sorted((k, rw(x)) for k, x in kw.items())))
        if not isinstance(t[0], str):
            return tuple(rw(x) if isinstance(x, tuple) else x for x in t)
        return (t[0],) + tuple(rw(x) if isinstance(x, tuple) else x for x in t[1:])

    v2 = rw(v)
    return av.renorm_deep(v2) if v2 != v else v


def build_av(sm: SourceModel, f: Func):
    """SchemeModel of a builder from its abstract value, or None when the value is not one pass over the sorted
    assignments that is understood."""
    from . import av

    v = builder_value(sm, f)
    inner = av._unwrap_seq(v)
    if av.has_unk(v) or inner[0] != "comp" or inner[4]:
        return None
    d, it, items = inner[1], inner[2], inner[3]
    bv = ("bv", d)
    x = "x"
    dt = f.params[1]
    # items: (condition formula, printer call)
    flat = []
    for it_ in items:
        cond = av.C(True)
        while it_[0] == "when":
            cond = av.mk_and(cond, it_[1])
            it_ = it_[2]
        if not (it_[0] == "call" and it_[1] == "printer" and len(it_[2]) >= 2):
            return None
        flat.append((cond, it_))

    def base_atoms(c, out):
        """leaves of a boolean formula (through not / and / boolean-valued if)"""
        if c[0] == "not":
            base_atoms(c[1], out)
        elif c[0] == "bool":
            for k in c[2]:
                base_atoms(k, out)
        elif c[0] == "if" and _atom_name(c, bv) is None:
            for k in c[1:]:
                base_atoms(k, out)
        elif c[0] != "c" and c not in out:
            out.append(c)

    atoms_seen = []
    for cond, call in flat:
        base_atoms(cond, atoms_seen)
        for sub in av.find_all(call, "if"):
            base_atoms(sub[1], atoms_seen)
    names = {}
    for a in atoms_seen:
        nm = _atom_name(a, bv)
        names[a] = nm if nm is not None else av.show(a).replace(f"${d}", x)

    te_atoms = {f"{x}.state.symbol": "STATE", f"{x}.symbol": "DERIV", f"{x}.expr": "EXPR", f"{x}.name": "XNAME", f"{x}.state.name": "STATENAME", x: "X", dt: "DT"}
    if "delta" in f.params:
        te_atoms["delta"] = "DELTA"
    te_atoms["_cidx%d" % d] = "CTR"
    te_atoms["_idx%d" % d] = "IDX_ALL"
    funcs = {"sympytools.Conditional": _conditional_handler, "Conditional": _conditional_handler}

    def term(val):
        ev = te.TermEval(env={}, atoms=te_atoms, funcs=funcs)
        return ev.ev(ast.parse(av.to_python(val, {d: x}), mode="eval").body)

    rows = []

    def specialise(val, assign):
        for a, pol in assign:
            val = av.assume(val, a, pol, True)
        return val

    PRIORITY = ("ISDERIV", "STIFF", "IN[", "DIFF_ZERO", "NUMERATOR_NONZERO")

    def first_atom(val):
        found = []
        if val[0] in ("not", "bool") or val[0] == "c" or val in atoms_seen or (val[0] == "if" and val not in atoms_seen):
            base_atoms(val, found)
        found = [a for a in found if a in names]
        found.sort(key=lambda a: next((i for i, p_ in enumerate(PRIORITY) if names[a].startswith(p_)), len(PRIORITY)))
        return found[0] if found else None

    def expand(assign):
        pending = None
        alive = []
        for cond, call in flat:
            c2 = specialise(cond, assign)
            if c2 == av.C(False):
                continue
            if c2 != av.C(True):
                if pending is None:
                    pending = first_atom(c2)
                alive.append(None)
                continue
            # the slot index is judged as written (its own condition is part of its meaning)
            lhs0 = call[2][0]
            marker = None
            if lhs0[0] == "sub" and lhs0[1][0] == "call" and lhs0[1][1].endswith("IndexedBase"):
                idx0 = lhs0[2]
                good = idx0[0] == "cidx" and idx0[2] == av.C(0) and _atom_name(idx0[3], bv) == "ISDERIV"
                marker = ("sym", "_SLOT_OK_") if good else ("sym", "_SLOT_" + av.show(idx0).replace(" ", ""))
                call = (call[0], call[1], (("sub", lhs0[1], marker),) + call[2][1:], call[3])
            val = specialise(call, assign)
            if pending is None:
                for sub in av.find_all(val, "if"):
                    pa = first_atom(sub[1])
                    if pa is not None:
                        pending = pa
                        break
            alive.append(val)
        if pending is not None and len(assign) < 8 and pending not in dict(assign):
            expand(assign + [(pending, True)])
            expand(assign + [(pending, False)])
            return
        emissions, stores = [], []
        notes = []
        for val in alive:
            if val is None:
                notes.append("an emission under a condition that is not understood")
                continue
            lhs_v, rhs_v = val[2][0], val[2][1]
            try:
                rhs = term(rhs_v)
                if lhs_v[0] == "sub" and lhs_v[1][0] == "call" and lhs_v[1][1].endswith("IndexedBase"):
                    idx = lhs_v[2]
                    if idx == ("sym", "_SLOT_OK_"):
                        idx_t = te.atom("CTR")
                    else:
                        idx_t = te.atom(av.show(idx).replace("_SLOT_", ""))
                        notes.append(f"slot index is {av.show(idx).replace('_SLOT_', '')}, not the position of the derivative among the state derivatives")
                    lhs = ("fn", "values", (idx_t,))
                    emissions.append((lhs, rhs, None))
                    stores.append((idx_t, rhs, None, len(emissions) - 1))
                else:
                    # a definition of a new name: the C backend declares it only when the variable prefix is requested
                    emissions.append((term(lhs_v), rhs, {"prefixed": dict(val[3]).get("use_variable_prefix") == av.C(True)}))
            except Exception as e:  # a printed value that has no term form
                notes.append(f"value not understood: {e}")
        lits = frozenset((names[a], pol) for a, pol in assign)
        first_ok = bool(emissions) and emissions[0][0] == te.atom("DERIV") and emissions[0][1] == te.atom("EXPR")
        store = stores[0] if stores else None
        lin_ok = None
        if store is not None:
            used = _symbol_terms(store[1])
            if used:
                printed = [e[0] for e in emissions[: store[3]]]
                lin_ok = all(u in printed for u in used)
        ok_ctr = store is not None and store[0] == te.atom("CTR")
        raw = " and ".join((names[a] if pol else f"not ({names[a]})") for a, pol in assign) or "True"
        rows.append(PathRow(lits, raw, emissions, store, len(stores), 0, 1 if ok_ctr else 0, "fall", first_ok, lin_ok, notes))

    expand([])
    # the result array
    ibs = [c for c in av.find_all(v, "call") if c[1].endswith("IndexedBase")]
    values_shape = None
    if ibs:
        sh = dict(ibs[0][3]).get("shape")
        if sh is not None:
            try:
                values_shape = ast.parse(av.to_python(sh), mode="eval").body
                if isinstance(values_shape, ast.List):
                    values_shape = ast.Tuple(values_shape.elts, ast.Load())
            except Exception:
                values_shape = None
    try:
        seq = ast.parse(av.to_python(it), mode="eval").body
    except Exception:
        seq = ast.Name("unknown", ast.Load())
    m = SchemeModel(f, None, x, seq, dt, "values", values_shape, "<position>", ast.Constant(0), rows, {}, "printer", "<equations>")
    m.from_av = True
    # facts about the stiffness test for C07
    stiff = [a for a in atoms_seen if (names[a] or "").startswith("STIFF[")]
    m.stiff_none_ok = all(a[0] == "if" for a in stiff) if stiff else None
    m.stiff_sources = sorted({names[a][6:-1] for a in stiff})
    return m


def canon_pred_name(nm: str) -> str:
    return nm
