"""Order-provenance analysis (OP), DESIGN.md section 2.3.

Abstract values are types inferred from the package's own annotations, decorated with
*order taints*:

    HASH  the order of the value derives from iterating a set / frozenset
    TEXT  the order derives from the order of statements in the model text
    P:x   the order derives from the order of parameter x (resolved at call sites)

A value with taint HASH/TEXT is harmless until it reaches an order-sensitive *sink*
(joined into emitted text, enumerated into slot numbers, handed to a template, fed to the
topological sorter, returned by an ordered public accessor, compared in ODE.__eq__).
Order-insensitive consumers (sorted with an injective key, set(), frozenset(), any, all, len,
sum, membership, lookups, set.add in a loop, existential return) drop the taint.

Nothing is executed; everything is read from the ast of the current source.
"""

from __future__ import annotations

import ast
import dataclasses
from dataclasses import dataclass, field

from .sm import SourceModel, Func, dotted, norm

HASH = "HASH"
TEXT = "TEXT"

SET_NAMES = {"set", "frozenset", "Set", "FrozenSet", "AbstractSet", "MutableSet"}
SEQ_NAMES = {"list", "tuple", "Sequence", "Iterable", "Iterator", "List", "Tuple", "Collection", "Generator", "MutableSequence"}
DICT_NAMES = {"dict", "Dict", "defaultdict", "Mapping", "MutableMapping", "OrderedDict", "DefaultDict"}
SCALARS = {"str": "str", "int": "int", "float": "float", "bool": "bool", "None": "none", "Any": "unknown", "object": "unknown"}


@dataclass(frozen=True)
class Taint:
    kind: str  # HASH / TEXT / P:<param>
    origin: str = ""  # human readable origin (file::func::construct)

    def __repr__(self):
        return f"{self.kind}@{self.origin}" if self.origin else self.kind


@dataclass(frozen=True)
class T:
    kind: str = "unknown"  # set dict seq obj str int float bool none tuplev unknown sorter
    elem: "T | None" = None
    key: "T | None" = None
    cls: str | None = None
    order: frozenset = frozenset()
    fields: tuple = ()

    def with_order(self, order) -> "T":
        return dataclasses.replace(self, order=frozenset(order))

    def add_order(self, order) -> "T":
        return dataclasses.replace(self, order=self.order | frozenset(order))

    @property
    def real_taints(self):
        return {t for t in self.order if t.kind in (HASH, TEXT)}

    def short(self) -> str:
        if self.kind in ("set", "seq"):
            return f"{self.kind}[{self.elem.short() if self.elem else '?'}]"
        if self.kind == "dict":
            return f"dict[{self.key.short() if self.key else '?'},{self.elem.short() if self.elem else '?'}]"
        if self.kind == "obj":
            return str(self.cls)
        return self.kind


UNKNOWN = T()
STR = T("str")
INT = T("int")


def join_T(a: T | None, b: T | None) -> T:
    if a is None:
        return b or UNKNOWN
    if b is None:
        return a
    if a.kind == b.kind:
        return dataclasses.replace(a, order=a.order | b.order, elem=a.elem or b.elem, key=a.key or b.key, cls=a.cls or b.cls)
    if {a.kind, b.kind} == {"set", "seq"}:
        # the value is a set on one branch: iterating it may follow hash order
        return T("seq", elem=a.elem or b.elem, order=a.order | b.order | {Taint(HASH, "a value that is a set on one path and a sequence on another")})
    if a.kind == "unknown" or a.kind == "none":
        return b.add_order(a.order)
    if b.kind == "unknown" or b.kind == "none":
        return a.add_order(b.order)
    return T("unknown", order=a.order | b.order)


@dataclass
class Site:
    """An iteration / order-consuming site, for evidence."""

    rel: str
    qual: str
    line: int
    text: str
    operand: str  # type description
    taints: tuple
    verdict: str  # 'canon' | 'discharged:<how>' | 'propagates' | 'sink' | 'unresolved'


@dataclass
class Violation:
    rel: str
    qual: str
    line: int
    sink: str  # S1..S6 + description
    construct: str
    what: str
    taints: tuple


@dataclass
class Summary:
    ret: T = UNKNOWN
    sink_params: dict = field(default_factory=dict)  # param -> (sink description, construct text)


class ClassInfo:
    def __init__(self, name, rel, bases):
        self.name = name
        self.rel = rel
        self.bases = bases
        self.attrs: dict[str, T] = {}
        self.attr_nodes: dict[str, ast.AST] = {}
        self.methods: dict[str, Func] = {}
        self.props: set[str] = set()
        self.is_namedtuple = False
        self.field_order: list[str] = []


class TypeDB:
    """Class tables built from annotations (attrs fields, __init__ stores, properties, methods)."""

    def __init__(self, sm: SourceModel, scope: set[str] | None = None):
        self.sm = sm
        self.classes: dict[str, ClassInfo] = {}
        for (rel, qn), c in sm.classes.items():
            if "." in qn:
                continue
            ci = ClassInfo(c.name, rel, [b.split(".")[-1] for b in c.bases])
            ci.is_namedtuple = any(b in ("NamedTuple", "typing.NamedTuple") for b in c.bases)
            self.classes[c.name] = ci
        for (rel, qn), c in sm.classes.items():
            if "." in qn:
                continue
            ci = self.classes[c.name]
            for st in c.node.body:
                if isinstance(st, ast.AnnAssign) and isinstance(st.target, ast.Name):
                    ci.attrs[st.target.id] = self.parse_ann(st.annotation)
                    ci.field_order.append(st.target.id)
            for name, f in c.methods.items():
                ci.methods[name] = f
                decs = f.decorators()
                if any(d.split(".")[-1] in ("property", "cached_property") for d in decs):
                    ci.props.add(name)
        # __init__ self.x = <param> stores
        for ci in self.classes.values():
            init = ci.methods.get("__init__")
            if init is None:
                continue
            ptypes = {}
            a = init.node.args
            for p in a.posonlyargs + a.args + a.kwonlyargs:
                if p.annotation is not None:
                    ptypes[p.arg] = self.parse_ann(p.annotation)
            for n in ast.walk(init.node):
                if isinstance(n, ast.Assign) and len(n.targets) == 1:
                    tgt = n.targets[0]
                    if isinstance(tgt, ast.Attribute) and isinstance(tgt.value, ast.Name) and tgt.value.id == "self":
                        if isinstance(n.value, ast.Name) and n.value.id in ptypes and tgt.attr not in ci.attrs:
                            ci.attrs[tgt.attr] = ptypes[n.value.id]
                        ci.attr_nodes.setdefault(tgt.attr, n.value)

    # -- annotations ------------------------------------------------------
    def parse_ann(self, node) -> T:
        if node is None:
            return UNKNOWN
        if isinstance(node, ast.Constant):
            if isinstance(node.value, str):
                try:
                    return self.parse_ann(ast.parse(node.value, mode="eval").body)
                except SyntaxError:
                    return UNKNOWN
            if node.value is None:
                return T("none")
            return UNKNOWN
        if isinstance(node, ast.BinOp) and isinstance(node.op, ast.BitOr):
            l, r = self.parse_ann(node.left), self.parse_ann(node.right)
            if l.kind == "none":
                return r
            if r.kind == "none":
                return l
            return join_T(l, r) if l.kind == r.kind else l
        if isinstance(node, (ast.Name, ast.Attribute)):
            d = dotted(node) or ""
            last = d.split(".")[-1]
            if last in SCALARS:
                return T(SCALARS[last])
            if last in SET_NAMES:
                return T("set")
            if last in SEQ_NAMES:
                return T("seq")
            if last in DICT_NAMES:
                return T("dict")
            if last == "TopologicalSorter":
                return T("sorter")
            if last in self.classes:
                return T("obj", cls=last)
            return UNKNOWN
        if isinstance(node, ast.Subscript):
            d = dotted(node.value) or ""
            last = d.split(".")[-1]
            sl = node.slice
            args = list(sl.elts) if isinstance(sl, ast.Tuple) else [sl]
            if last in ("Optional",):
                return self.parse_ann(args[0])
            if last in ("Union",):
                ts = [self.parse_ann(a) for a in args]
                ts = [t for t in ts if t.kind != "none"]
                return ts[0] if ts else UNKNOWN
            if last in ("Annotated",):
                return self.parse_ann(args[0])
            if last in SET_NAMES:
                return T("set", elem=self.parse_ann(args[0]))
            if last in ("tuple", "Tuple"):
                if len(args) == 2 and isinstance(args[1], ast.Constant) and args[1].value is Ellipsis:
                    return T("seq", elem=self.parse_ann(args[0]))
                return T("tuplev", fields=tuple(self.parse_ann(a) for a in args))
            if last in SEQ_NAMES:
                return T("seq", elem=self.parse_ann(args[0]))
            if last in DICT_NAMES:
                if len(args) == 2:
                    return T("dict", key=self.parse_ann(args[0]), elem=self.parse_ann(args[1]))
                return T("dict")
            if last in ("type", "Type", "Callable"):
                return UNKNOWN
            return UNKNOWN
        return UNKNOWN

    # -- lookups ------------------------------------------------------------
    def mro(self, cls: str) -> list[ClassInfo]:
        out, todo, seen = [], [cls], set()
        while todo:
            c = todo.pop(0)
            if c in seen or c not in self.classes:
                continue
            seen.add(c)
            out.append(self.classes[c])
            todo.extend(self.classes[c].bases)
        return out

    def find_method(self, cls: str, name: str) -> Func | None:
        for ci in self.mro(cls):
            if name in ci.methods:
                return ci.methods[name]
        return None

    def attr_type(self, cls: str, name: str) -> T | None:
        for ci in self.mro(cls):
            if name in ci.props and name in ci.methods:
                return self.parse_ann(ci.methods[name].node.returns)
            if name in ci.attrs:
                return ci.attrs[name]
        return None

    def is_prop(self, cls: str, name: str) -> Func | None:
        for ci in self.mro(cls):
            if name in ci.props:
                return ci.methods[name]
            if name in ci.attrs or name in ci.methods:
                return None
        return None

    def unique_owner(self, attr: str) -> str | None:
        owners = [ci.name for ci in self.classes.values() if attr in ci.attrs or attr in ci.methods]
        # collapse subclasses of one owner
        roots = set()
        for o in owners:
            chain = [c.name for c in self.mro(o)]
            root = [c for c in chain if c in owners][-1]
            roots.add(root)
        if len(roots) == 1:
            return roots.pop()
        return None

    def subclass_of(self, cls: str, base: str) -> bool:
        return any(c.name == base for c in self.mro(cls))


# ---------------------------------------------------------------------------

ORDER_DROPPING = {"set", "frozenset", "any", "all", "len", "sum", "max", "min", "bool"}
ORDER_KEEPING = {"tuple", "list", "reversed", "iter", "dict", "filter"}
LOG_RECEIVERS = {"logger", "logging", "log", "warnings", "typer"}


class OPEngine:
    def __init__(self, sm: SourceModel, scope_rels: list[str], text_attrs=("components",), accessor_sinks=(), eq_sinks=()):
        self.sm = sm
        self.db = TypeDB(sm)
        self.scope = [r for r in scope_rels if r in sm.modules]
        self.text_attrs = set(text_attrs)
        self.accessor_sinks = set(accessor_sinks)  # (rel, qualname)
        self.eq_sinks = set(eq_sinks)
        self.summaries: dict[tuple[str, str], Summary] = {}
        self.attr_taint: dict[tuple[str, str], frozenset] = {}  # (cls, attr) -> taints stored by methods
        self.sites: list[Site] = []
        self.violations: list[Violation] = []
        self.unresolved: list[Site] = []

    # ------------------------------------------------------------------
    def run(self, max_rounds: int = 6):
        from .inline import inlined

        funcs = []
        for f in self.sm.all_funcs():
            if f.rel not in self.scope:
                continue
            # a function that defines local helpers is analysed with them expanded (what the helper does with a
            # captured list is then seen at the call site, inside the caller's loops)
            if any(isinstance(n, ast.FunctionDef) and n is not f.node for n in ast.walk(f.node)):
                g = inlined(self.sm, f)
                funcs.append(g)
            else:
                funcs.append(f)
        for rnd in range(max_rounds):
            before = {k: (v.ret, tuple(sorted(v.sink_params))) for k, v in self.summaries.items()}
            before_attr = dict(self.attr_taint)
            self.sites, self.violations, self.unresolved = [], [], []
            for f in funcs:
                FuncAnalysis(self, f).analyse()
            after = {k: (v.ret, tuple(sorted(v.sink_params))) for k, v in self.summaries.items()}
            if after == before and before_attr == self.attr_taint:
                break
        # dedupe violations
        seen, out = set(), []
        for v in self.violations:
            k = (v.rel, v.qual, v.sink, v.construct)
            if k not in seen:
                seen.add(k)
                out.append(v)
        self.violations = out
        return self

    def summary_of(self, f: Func) -> Summary:
        return self.summaries.get((f.rel, f.qualname), Summary(ret=self.db.parse_ann(f.node.returns)))


class FuncAnalysis:
    def __init__(self, eng: OPEngine, f: Func):
        self.eng = eng
        self.db = eng.db
        self.sm = eng.sm
        self.f = f
        self.env: dict[str, T] = {}
        self.loop_taints: list[frozenset] = []
        self.loop_nodes: list = []
        self.ret: T | None = None
        self.sink_params: dict = {}
        self.imports = self.sm.module_imports(f.rel)
        self.cls = f.cls if f.cls in self.db.classes else (f.qualname.split(".")[0] if f.qualname.split(".")[0] in self.db.classes else None)
        self.doc_types = self._doc_types()

    # -- helpers ----------------------------------------------------------
    def _doc_types(self) -> dict[str, T]:
        out = {}
        doc = ast.get_docstring(self.f.node) or ""
        lines = doc.splitlines()
        for ln in lines:
            if " : " in ln and not ln.startswith("        "):
                name, _, typ = ln.strip().partition(" : ")
                last = typ.split(",")[0].strip().split(".")[-1]
                if name.isidentifier() and last in self.db.classes:
                    out[name] = T("obj", cls=last)
        return out

    def origin(self, node) -> str:
        return f"{self.f.rel}::{self.f.qualname}::{norm(node)[:120]}"

    def cur_loop_taint(self) -> frozenset:
        out = frozenset()
        for t in self.loop_taints:
            out |= t
        return out

    def site(self, node, operand: T, verdict: str):
        s = Site(self.f.rel, self.f.qualname, getattr(node, "lineno", 0), norm(node)[:100], operand.short(), tuple(sorted(map(repr, operand.order))), verdict)
        self.eng.sites.append(s)
        if verdict == "unresolved":
            self.eng.unresolved.append(s)

    def sink(self, node, sinkname: str, val: T, what: str):
        """Report real taints reaching a sink; record param taints in the summary."""
        for t in val.order:
            if t.kind.startswith("P:"):
                self.sink_params.setdefault(t.kind[2:], (sinkname, norm(node)[:100]))
        real = val.real_taints
        if real:
            origins = sorted({t.origin for t in real})
            self.eng.violations.append(
                Violation(
                    self.f.rel,
                    self.f.qualname,
                    getattr(node, "lineno", 0),
                    sinkname,
                    f"{self.f.rel}::{self.f.qualname}::{sinkname}::{norm(node)[:100]}",
                    f"{what}: value ordered by {sorted({t.kind for t in real})} reaches {sinkname}; order introduced at: " + " ; ".join(origins),
                    tuple(sorted(map(repr, real))),
                )
            )

    # -- iteration --------------------------------------------------------
    def iter_elem(self, node, t: T) -> tuple[T, frozenset]:
        """Element type and taint obtained by iterating a value of type t at ``node``."""
        if t.kind == "set":
            taint = frozenset({Taint(HASH, self.origin(node))}) | t.order
            self.site(node, t, "propagates")
            return (t.elem or UNKNOWN), taint
        if t.kind == "seq":
            self.site(node, t, "canon" if not t.order else "propagates")
            return (t.elem or UNKNOWN), t.order
        if t.kind == "dict":
            self.site(node, t, "canon" if not t.order else "propagates")
            return (t.key or UNKNOWN), t.order
        if t.kind == "tuplev":
            return UNKNOWN, t.order
        if t.kind == "str":
            return STR, frozenset()
        self.site(node, t, "unresolved")
        return UNKNOWN, t.order

    # -- expression typing ------------------------------------------------
    def type_of(self, node) -> T:
        m = getattr(self, "t_" + type(node).__name__, None)
        if m is None:
            return UNKNOWN
        return m(node)

    def t_Constant(self, n):
        v = n.value
        if isinstance(v, str):
            return STR
        if isinstance(v, bool):
            return T("bool")
        if isinstance(v, int):
            return INT
        if v is None:
            return T("none")
        return UNKNOWN

    def t_Name(self, n):
        if n.id in self.env:
            return self.env[n.id]
        return UNKNOWN

    def t_NamedExpr(self, n):
        t = self.type_of(n.value)
        self.bind(n.target, t)
        return t

    def t_JoinedStr(self, n):
        order = frozenset()
        for v in n.values:
            if isinstance(v, ast.FormattedValue):
                tv = self.type_of(v.value)
                if tv.kind in ("seq", "dict", "str", "set"):
                    order |= tv.order
                    if tv.kind == "set":
                        order |= {Taint(HASH, self.origin(v.value))}
        return T("str", order=order)

    def t_IfExp(self, n):
        self.type_of(n.test)
        return join_T(self.type_of(n.body), self.type_of(n.orelse))

    def t_BoolOp(self, n):
        ts = [self.type_of(v) for v in n.values]
        out = ts[0]
        for t in ts[1:]:
            out = join_T(out, t)
        return out

    def t_UnaryOp(self, n):
        self.type_of(n.operand)
        return T("bool") if isinstance(n.op, ast.Not) else UNKNOWN

    def t_Compare(self, n):
        ops = [self.type_of(n.left)] + [self.type_of(c) for c in n.comparators]
        if (self.f.rel, self.f.qualname) in self.eng.eq_sinks and any(isinstance(o, (ast.Eq, ast.NotEq)) for o in n.ops):
            for sub, tv in zip([n.left] + list(n.comparators), ops):
                if tv.kind in ("seq", "dict"):
                    self.sink(sub, "S5:equality-of-models", tv, "ordered sequence compared element-wise in the model's __eq__")
        return T("bool")

    def t_Tuple(self, n):
        fields = tuple(self.type_of(e) for e in n.elts)
        order = frozenset()
        return T("tuplev", fields=fields, order=order)

    def t_List(self, n):
        elem = None
        order = frozenset()
        for e in n.elts:
            if isinstance(e, ast.Starred):
                ts = self.type_of(e.value)
                el, taint = self.iter_elem(e.value, ts)
                order |= taint
                elem = join_T(elem, el)
            else:
                elem = join_T(elem, self.type_of(e))
        return T("seq", elem=elem, order=order)

    def t_Set(self, n):
        for e in n.elts:
            self.type_of(e)
        return T("set")

    def t_Dict(self, n):
        order = frozenset()
        val = None
        for k, v in zip(n.keys, n.values):
            tv = self.type_of(v)
            if k is None:
                if tv.kind == "dict":
                    order |= tv.order
                    val = join_T(val, tv.elem)
            else:
                self.type_of(k)
                val = join_T(val, tv)
        return T("dict", elem=val, order=order)

    def _comp(self, n, kind):
        saved = dict(self.env)
        order = frozenset()
        for g in n.generators:
            ti = self.type_of(g.iter)
            el, taint = self.iter_elem(g.iter, ti)
            self.bind_iter_target(g.target, g.iter, ti, el)
            order |= taint
            for c in g.ifs:
                self.type_of(c)
        if kind == "dict":
            self.type_of(n.key)
            tv = self.type_of(n.value)
            out = T("dict", elem=tv, order=order)
        else:
            te = self.type_of(n.elt)
            if kind == "set":
                out = T("set", elem=te)
            else:
                out = T("seq", elem=te, order=order | (te.order if te.kind == "str" else frozenset()))
        self.env = saved
        return out

    def t_ListComp(self, n):
        return self._comp(n, "seq")

    def t_GeneratorExp(self, n):
        return self._comp(n, "seq")

    def t_SetComp(self, n):
        return self._comp(n, "set")

    def t_DictComp(self, n):
        return self._comp(n, "dict")

    def t_Lambda(self, n):
        return UNKNOWN

    def t_Starred(self, n):
        return self.type_of(n.value)

    def t_BinOp(self, n):
        l, r = self.type_of(n.left), self.type_of(n.right)
        if isinstance(n.op, (ast.BitOr, ast.BitAnd, ast.Sub, ast.BitXor)) and (l.kind == "set" or r.kind == "set"):
            return T("set", elem=(l.elem or r.elem))

        def is_view(x):
            return isinstance(x, ast.Call) and isinstance(x.func, ast.Attribute) and x.func.attr in ("keys", "items") and not x.args

        if isinstance(n.op, (ast.BitOr, ast.BitAnd, ast.Sub, ast.BitXor)) and (is_view(n.left) or is_view(n.right)):
            # set algebra on the key / item views of mappings gives a plain set
            kt = None
            for side in (n.left, n.right):
                if is_view(side):
                    tm = self.type_of(side.func.value)
                    if tm.kind == "dict" and getattr(tm, "key", None) is not None:
                        kt = tm.key
            return T("set", elem=kt if kt is not None else STR)
        if isinstance(n.op, ast.Add):
            if l.kind == "seq" or r.kind == "seq":
                o = l.order | r.order
                if l.kind == "set" or r.kind == "set":
                    o |= {Taint(HASH, self.origin(n))}
                return T("seq", elem=join_T(l.elem, r.elem) if (l.elem or r.elem) else None, order=o)
            if l.kind == "str" or r.kind == "str":
                return T("str", order=l.order | r.order)
        if isinstance(n.op, ast.Mod) and l.kind == "str":
            return T("str", order=l.order | r.order)
        return UNKNOWN

    def t_Subscript(self, n):
        tv = self.type_of(n.value)
        ts = self.type_of(n.slice)
        if ts.kind == "int" and ts.real_taints:
            self.sink(n, "S2:slot-number-from-unordered-loop", ts, "index advanced inside a loop without canonical order")
        if tv.kind == "dict":
            return tv.elem or UNKNOWN
        if tv.kind == "seq":
            if isinstance(n.slice, ast.Slice):
                return tv
            return tv.elem or UNKNOWN
        if tv.kind == "tuplev" and isinstance(n.slice, ast.Constant) and isinstance(n.slice.value, int) and n.slice.value < len(tv.fields):
            return tv.fields[n.slice.value]
        return UNKNOWN

    def t_Slice(self, n):
        return UNKNOWN

    def t_Attribute(self, n):
        d = dotted(n)
        base = self.type_of(n.value)
        cls = base.cls if base.kind == "obj" else None
        if cls is None and isinstance(n.value, ast.Name) and n.value.id == "self":
            cls = self.cls
        if cls is None and base.kind in ("unknown",):
            # secondary sources: an attribute defined on exactly one class of the package types its receiver
            if not (isinstance(n.value, ast.Name) and n.value.id in self.imports):
                cls = self.db.unique_owner(n.attr)
        if cls is not None:
            t = self.db.attr_type(cls, n.attr)
            prop = self.db.is_prop(cls, n.attr)
            if prop is not None:
                s = self.eng.summary_of(prop)
                t = join_T(t, s.ret) if t is not None else s.ret
                t = self._subst_params(t, {}, None)
            if t is None:
                t = UNKNOWN
            extra = frozenset()
            for ci in self.db.mro(cls):
                extra |= self.eng.attr_taint.get((ci.name, n.attr), frozenset())
            if n.attr in self.eng.text_attrs and t.kind in ("seq", "unknown", "dict"):
                if t.kind == "unknown":
                    t = T("seq")
                extra |= {Taint(TEXT, f"attribute .{n.attr} keeps the order of first appearance in the model text")}
            if extra and t.kind in ("seq", "dict", "unknown", "str"):
                t = t.add_order(extra)
            return t
        if base.kind == "tuplev" and base.cls and base.cls in self.db.classes:
            ci = self.db.classes[base.cls]
            if n.attr in ci.field_order:
                i = ci.field_order.index(n.attr)
                if i < len(base.fields):
                    return base.fields[i]
        if n.attr in self.eng.text_attrs:
            return T("seq", order=frozenset({Taint(TEXT, f"attribute .{n.attr} keeps the order of first appearance in the model text")}))
        return UNKNOWN

    # -- calls ------------------------------------------------------------
    def _subst_params(self, t: T, argmap: dict[str, T], call) -> T:
        if t is None:
            return UNKNOWN
        if not any(x.kind.startswith("P:") for x in t.order):
            return t
        new = set()
        for x in t.order:
            if x.kind.startswith("P:"):
                a = argmap.get(x.kind[2:])
                if a is not None:
                    new |= set(a.order)
                    if a.kind == "set":
                        new.add(Taint(HASH, self.origin(call) if call is not None else ""))
            else:
                new.add(x)
        return t.with_order(new)

    def bind_args(self, callee: Func, call: ast.Call, skip_self: bool) -> dict[str, T]:
        a = callee.node.args
        params = [p.arg for p in a.posonlyargs + a.args]
        if skip_self and params and params[0] in ("self", "cls"):
            params = params[1:]
        out = {}
        for i, arg in enumerate(call.args):
            if isinstance(arg, ast.Starred):
                break
            if i < len(params):
                out[params[i]] = self.type_of(arg)
        for kw in call.keywords:
            if kw.arg is not None:
                out[kw.arg] = self.type_of(kw.value)
        return out

    def apply_summary(self, callee: Func, call: ast.Call, skip_self: bool) -> T:
        s = self.eng.summary_of(callee)
        argmap = self.bind_args(callee, call, skip_self)
        for p, (sinkname, text) in s.sink_params.items():
            if p in argmap:
                av = argmap[p]
                if av.kind == "set":
                    av = av.add_order({Taint(HASH, self.origin(call))})
                self.sink(call, sinkname + f" (via {callee.qualname}({p}=...) -> {text})", av, f"argument '{p}' of {callee.qualname}")
        return self._subst_params(s.ret, argmap, call)

    def resolve_callee(self, call: ast.Call) -> tuple[Func | None, bool]:
        fn = call.func
        if isinstance(fn, ast.Name):
            f = self.sm.funcs.get((self.f.rel, fn.id))
            if f is None:
                # nested function of the current function
                f = self.sm.funcs.get((self.f.rel, f"{self.f.qualname}.{fn.id}"))
            if f is None and fn.id in self.imports:
                origin = self.imports[fn.id]
                modname, _, name = origin.rpartition(".")
                rel = self.sm.resolve_module_rel(modname)
                if rel:
                    f = self.sm.funcs.get((rel, name))
            return f, False
        if isinstance(fn, ast.Attribute):
            # module.function
            if isinstance(fn.value, ast.Name) and fn.value.id in self.imports and fn.value.id not in self.env:
                rel = self.sm.resolve_module_rel(self.imports[fn.value.id])
                if rel:
                    return self.sm.funcs.get((rel, fn.attr)), False
            base = self.type_of(fn.value)
            cls = base.cls if base.kind == "obj" else None
            if cls is None and isinstance(fn.value, ast.Name) and fn.value.id == "self":
                cls = self.cls
            if cls is None and base.kind == "unknown" and not isinstance(fn.value, ast.Call):
                cls = self.db.unique_owner(fn.attr) if fn.attr not in ("add", "get", "items", "keys", "values", "append", "update", "format", "join", "replace", "split", "strip", "copy", "extend", "union", "difference", "name") else None
            if cls is not None:
                m = self.db.find_method(cls, fn.attr)
                if m is not None:
                    return m, True
        return None, False

    def t_Call(self, n: ast.Call):
        fn = n.func
        name = dotted(fn)
        last = (name or "").split(".")[-1] if name else (fn.attr if isinstance(fn, ast.Attribute) else "")
        # ---- builtins / constructors -----------------------------------
        if isinstance(fn, ast.Name) and fn.id not in self.env:
            b = fn.id
            if b in ("sorted",):
                return self._sorted(n)
            if b in ORDER_DROPPING:
                for a in n.args:
                    ta = self.type_of(a)
                    if ta.kind in ("set", "seq", "dict"):
                        self.site(a, ta, f"discharged:{b}()")
                if b in ("set", "frozenset"):
                    el = None
                    if n.args:
                        el = self.type_of(n.args[0]).elem
                    return T("set", elem=el)
                return T("int") if b == "len" else UNKNOWN
            if b in ORDER_KEEPING:
                if not n.args:
                    return T("dict") if b == "dict" else T("seq")
                ta = self.type_of(n.args[-1] if b == "filter" else n.args[0])
                el, taint = self.iter_elem(n.args[0], ta) if ta.kind != "dict" or b != "dict" else (ta.elem, ta.order)
                if b == "dict":
                    return T("dict", key=ta.key, elem=ta.elem, order=taint)
                return T("seq", elem=el, order=taint)
            if b == "defaultdict":
                el = None
                if n.args:
                    a0 = n.args[0]
                    if isinstance(a0, ast.Name) and a0.id in ("set", "frozenset"):
                        el = T("set")
                    elif isinstance(a0, ast.Name) and a0.id == "list":
                        el = T("seq")
                    elif isinstance(a0, ast.Name) and a0.id == "dict":
                        el = T("dict")
                    elif isinstance(a0, ast.Lambda):
                        el = self.type_of(a0.body)
                return T("dict", elem=el)
            if b == "enumerate":
                ta = self.type_of(n.args[0]) if n.args else UNKNOWN
                el, taint = self.iter_elem(n.args[0], ta) if n.args else (UNKNOWN, frozenset())
                tv = T("seq", elem=T("tuplev", fields=(INT, el)), order=taint)
                self.sink(n, "S2:enumerate-into-slot-numbers", tv, "enumerate() over a sequence without canonical order")
                return tv
            if b in ("zip", "map"):
                order = frozenset()
                elems = []
                args = n.args[1:] if b == "map" else n.args
                for a in args:
                    ta = self.type_of(a)
                    el, taint = self.iter_elem(a, ta)
                    order |= taint
                    elems.append(el)
                if b == "map":
                    return T("seq", elem=UNKNOWN, order=order)
                return T("seq", elem=T("tuplev", fields=tuple(elems)), order=order)
            if b in ("str", "repr", "int", "float", "isinstance", "hasattr", "getattr", "print", "range", "type", "cast", "id", "abs", "round"):
                ts = [self.type_of(a) for a in n.args]
                if b == "cast" and len(ts) == 2:
                    t0 = self.db.parse_ann(n.args[0])
                    return t0 if t0.kind != "unknown" else ts[1]
                if b in ("str", "repr") and ts and ts[0].kind in ("seq", "dict", "set"):
                    o = ts[0].order | ({Taint(HASH, self.origin(n))} if ts[0].kind == "set" else frozenset())
                    return T("str", order=o)
                return T("str") if b in ("str", "repr") else UNKNOWN
            if b == "TopologicalSorter":
                return T("sorter")
        if name and name.split(".")[-1] == "TopologicalSorter":
            return T("sorter")
        if last == "cast" and len(n.args) == 2:
            t0 = self.db.parse_ann(n.args[0])
            t1 = self.type_of(n.args[1])
            return t0 if t0.kind != "unknown" else t1
        if last == "reduce" and len(n.args) >= 2:
            ta = self.type_of(n.args[1])
            el, taint = self.iter_elem(n.args[1], ta)
            return T("str" if True else "unknown", order=taint)
        if last == "Matrix" and n.args:
            ta = self.type_of(n.args[0])
            if ta.kind == "set":
                ta = T("seq", order=frozenset({Taint(HASH, self.origin(n.args[0]))}))
            self.sink(n, "S6:rows-of-a-symbolic-matrix", ta, "rows of a sympy Matrix")
            return UNKNOWN
        # ---- methods on typed receivers -------------------------------
        if isinstance(fn, ast.Attribute):
            recv = self.type_of(fn.value)
            meth = fn.attr
            if recv.kind == "str" and meth == "join" and n.args:
                ta = self.type_of(n.args[0])
                if ta.kind == "set":
                    ta = T("seq", order=ta.order | {Taint(HASH, self.origin(n.args[0]))})
                elif ta.kind not in ("seq", "dict", "unknown"):
                    ta = T("seq", order=ta.order)
                self.site(n.args[0], ta, "sink" if ta.order else "canon")
                self.sink(n, "S1:joined-into-text", ta, "str.join over a sequence without canonical order")
                return T("str", order=frozenset(t for t in ta.order if t.kind.startswith("P:")))
            if recv.kind == "str":
                for a in n.args:
                    self.type_of(a)
                for k in n.keywords:
                    self.type_of(k.value)
                if meth in ("split", "splitlines"):
                    return T("seq", elem=STR, order=recv.order)
                return T("str", order=recv.order)
            if recv.kind == "dict":
                for a in n.args:
                    self.type_of(a)
                if meth == "items":
                    return T("seq", elem=T("tuplev", fields=(recv.key or UNKNOWN, recv.elem or UNKNOWN)), order=recv.order)
                if meth == "keys":
                    return T("seq", elem=recv.key, order=recv.order)
                if meth == "values":
                    return T("seq", elem=recv.elem, order=recv.order)
                if meth in ("get", "pop", "setdefault"):
                    if meth == "setdefault" and self.cur_loop_taint() and isinstance(fn.value, ast.Name):
                        self.taint_name(fn.value.id, self.cur_loop_taint())
                    return recv.elem or UNKNOWN
                if meth == "copy":
                    return recv
                if meth == "update":
                    if n.args:
                        ta = self.type_of(n.args[0])
                        if isinstance(fn.value, ast.Name):
                            self.taint_name(fn.value.id, ta.order | self.cur_loop_taint())
                    return T("none")
                return UNKNOWN
            if recv.kind == "set":
                for a in n.args:
                    self.type_of(a)
                if meth in ("union", "difference", "intersection", "symmetric_difference", "copy"):
                    return T("set", elem=recv.elem)
                if meth in ("add", "update", "discard", "remove", "difference_update", "intersection_update"):
                    # a set filled in a loop is the same set whatever the visiting order - unless what is added is
                    # decided by looking at what has been added so far: then the *content* depends on the order
                    if isinstance(fn.value, ast.Name):
                        self.self_guarded_accumulation(n, fn.value.id)
                    # D[k].add(v) on a dict of sets may create key k: D's key order follows the enclosing loops
                    if isinstance(fn.value, ast.Subscript) and isinstance(fn.value.value, ast.Name) and self.cur_loop_taint():
                        self.taint_name(fn.value.value.id, self.cur_loop_taint())
                    return T("none")
                if meth == "pop":
                    return (recv.elem or UNKNOWN).add_order({Taint(HASH, self.origin(n))}) if (recv.elem and recv.elem.kind in ("seq", "str")) else (recv.elem or UNKNOWN)
                if meth in ("issubset", "issuperset", "isdisjoint"):
                    return T("bool")
                return UNKNOWN
            if recv.kind == "seq":
                args_t = [self.type_of(a) for a in n.args]
                if meth in ("append", "insert", "extend") and isinstance(fn.value, ast.Name):
                    extra = self.cur_loop_taint()
                    for ta in args_t:
                        if meth == "extend" and ta.kind in ("seq", "dict"):
                            extra |= ta.order
                        if meth == "extend" and ta.kind == "set":
                            extra |= {Taint(HASH, self.origin(n))}
                        if ta.kind == "str":
                            extra |= ta.order
                    cur = self.env.get(fn.value.id, recv)
                    el = cur.elem
                    if args_t and meth == "append":
                        el = join_T(el, args_t[-1]) if el is not None else args_t[-1]
                        el = dataclasses.replace(el, order=frozenset())
                    self.env[fn.value.id] = dataclasses.replace(cur, elem=el, order=cur.order | extra)
                    return T("none")
                if meth in ("index", "count"):
                    return INT
                if meth == "copy":
                    return recv
                return UNKNOWN
            if recv.kind == "sorter":
                if meth == "add" and isinstance(fn.value, ast.Name):
                    extra = self.cur_loop_taint()
                    for a in n.args:
                        if isinstance(a, ast.Starred):
                            ta = self.type_of(a.value)
                            el, taint = self.iter_elem(a.value, ta)
                            extra |= taint
                        else:
                            self.type_of(a)
                    cur = self.env.get(fn.value.id, recv)
                    self.env[fn.value.id] = cur.add_order(extra)
                    return T("none")
                if meth in ("static_order", "get_ready"):
                    return T("seq", elem=STR, order=recv.order)
                return UNKNOWN
            if meth == "write_text" and n.args:
                ta = self.type_of(n.args[0])
                self.sink(n, "S1:written-to-file", ta, "text written to the output file")
                return T("none")
            # template calls: everything handed to a template must be canonical
            d = dotted(fn.value) or ""
            if d.endswith("template"):
                for a in list(n.args) + [k.value for k in n.keywords]:
                    ta = self.type_of(a)
                    if ta.kind == "set":
                        ta = T("seq", order=frozenset({Taint(HASH, self.origin(a))}))
                    if ta.kind in ("seq", "dict", "str"):
                        self.sink(n, f"S1:template-argument({meth})", ta, f"argument of template.{meth}")
                return STR
        # ---- package functions ----------------------------------------
        callee, is_method = self.resolve_callee(n)
        if callee is not None:
            return self.apply_summary(callee, n, skip_self=is_method)
        # class construction inside the package: NamedTuple / attrs classes keep field taints
        cname = last
        if cname in self.db.classes:
            ci = self.db.classes[cname]
            fields = []
            kw = {k.arg: k.value for k in n.keywords if k.arg}
            for i, fname in enumerate(ci.field_order):
                if i < len(n.args):
                    fields.append(self.type_of(n.args[i]))
                elif fname in kw:
                    fields.append(self.type_of(kw[fname]))
                else:
                    fields.append(UNKNOWN)
            for a in n.args[len(ci.field_order):]:
                self.type_of(a)
            for k, v in kw.items():
                if k not in ci.field_order:
                    self.type_of(v)
            if ci.is_namedtuple:
                return T("tuplev", fields=tuple(fields), cls=cname)
            return T("obj", cls=cname)
        # unknown call: evaluate arguments for their side effects on the site list
        for a in n.args:
            self.type_of(a)
        for k in n.keywords:
            self.type_of(k.value)
        if isinstance(fn, ast.Attribute):
            self.type_of(fn.value)
        return UNKNOWN

    def _sorted(self, n: ast.Call) -> T:
        ta = self.type_of(n.args[0]) if n.args else UNKNOWN
        key = None
        for k in n.keywords:
            if k.arg == "key":
                key = k.value
        injective = key is None
        why = "no key (elements compared directly)"
        if key is not None:
            # a named key function (module-level / nested def with a single `return <expr>`) is read like a lambda;
            # operator.attrgetter("name") is the same key as lambda x: x.name
            if isinstance(key, ast.Name):
                cand = self.sm.funcs.get((self.f.rel, key.id)) or self.sm.funcs.get((self.f.rel, f"{self.f.qualname}.{key.id}"))
                if cand is not None:
                    body_ = [st for st in cand.node.body if not (isinstance(st, ast.Expr) and isinstance(st.value, ast.Constant))]
                    if len(body_) == 1 and isinstance(body_[0], ast.Return) and body_[0].value is not None and len(cand.node.args.args) == 1:
                        key = ast.Lambda(args=cand.node.args, body=body_[0].value)
            if isinstance(key, ast.Name):
                # a name bound exactly once, at module level or in this function, to a key expression
                scopes = [self.f.node.body, self.sm.modules[self.f.rel].body] if self.f.rel in self.sm.modules else [self.f.node.body]
                for body_ in scopes:
                    binds = [st for top in body_ for st in ([top] if body_ is not self.f.node.body else ast.walk(top)) if isinstance(st, (ast.Assign, ast.AnnAssign)) and st.value is not None and any(isinstance(t_, ast.Name) and t_.id == key.id for t_ in (st.targets if isinstance(st, ast.Assign) else [st.target]))]
                    if len(binds) == 1 and isinstance(binds[0].value, (ast.Call, ast.Lambda)):
                        key = binds[0].value
                        break
                    if binds:
                        break
            if isinstance(key, ast.Call) and (dotted(key.func) or "").split(".")[-1] == "attrgetter" and len(key.args) == 1 and isinstance(key.args[0], ast.Constant) and isinstance(key.args[0].value, str) and "." not in key.args[0].value:
                key = ast.Lambda(args=ast.arguments(posonlyargs=[], args=[ast.arg("x_")], kwonlyargs=[], kw_defaults=[], defaults=[]), body=ast.Attribute(ast.Name("x_", ast.Load()), key.args[0].value, ast.Load()))
            if isinstance(key, ast.Lambda) and len(key.args.args) == 1:
                p = key.args.args[0].arg
                body = key.body
                cands = body.elts if isinstance(body, ast.Tuple) else [body]
                for c in cands:
                    if isinstance(c, ast.Attribute) and isinstance(c.value, ast.Name) and c.value.id == p and c.attr == "name":
                        injective = True
                        why = "key includes .name (unique per model)"
                    if isinstance(c, ast.Name) and c.id == p:
                        injective = True
                        why = "identity key"
                    if isinstance(c, ast.Subscript) and isinstance(c.value, ast.Name) and c.value.id == p and isinstance(c.slice, ast.Constant) and c.slice.value == 0 and ta.kind == "seq" and ta.elem is not None and ta.elem.kind == "tuplev":
                        injective = True
                        why = "key is the first tuple field (dict key)"
            elif isinstance(key, ast.Attribute) and key.attr in ("lower",) or (isinstance(key, ast.Name) and key.id in ("str", "len")):
                injective = False
        el = ta.elem if ta.kind in ("set", "seq") else (ta.key if ta.kind == "dict" else None)
        if injective:
            self.site(n.args[0] if n.args else n, ta, f"discharged:sorted ({why})")
            return T("seq", elem=el)
        # a non-injective key keeps the input order among ties
        taint = set(ta.order)
        if ta.kind == "set":
            taint.add(Taint(HASH, self.origin(n) + " [sorted() with a key that is not known to be injective keeps set order among ties]"))
        self.site(n.args[0] if n.args else n, ta, "propagates")
        return T("seq", elem=el, order=frozenset(taint))

    # -- binding ------------------------------------------------------------
    def taint_name(self, name: str, taint):
        if not taint:
            return
        cur = self.env.get(name, UNKNOWN)
        self.env[name] = cur.add_order(taint)

    def bind(self, target, t: T):
        if isinstance(target, ast.Name):
            self.env[target.id] = t
        elif isinstance(target, (ast.Tuple, ast.List)):
            if t.kind == "tuplev" and len(t.fields) == len(target.elts):
                for e, ft in zip(target.elts, t.fields):
                    self.bind(e, ft)
            else:
                for e in target.elts:
                    self.bind(e, (t.elem or UNKNOWN) if t.kind == "seq" else UNKNOWN)
        elif isinstance(target, ast.Attribute):
            if isinstance(target.value, ast.Name) and target.value.id == "self" and self.cls and t.order:
                key = (self.cls, target.attr)
                stored = frozenset(x for x in t.order if not x.kind.startswith("P:"))
                if stored:
                    self.eng.attr_taint[key] = self.eng.attr_taint.get(key, frozenset()) | stored
        elif isinstance(target, ast.Subscript):
            # D[k] = v  inside an ordered loop makes D's key order follow the loop
            base = target.value
            self.type_of(target.slice)
            if isinstance(base, ast.Name):
                cur = self.env.get(base.id, UNKNOWN)
                if cur.kind in ("dict", "unknown"):
                    if cur.kind == "unknown":
                        cur = T("dict")
                    el = join_T(cur.elem, t) if cur.elem is not None else t
                    el = dataclasses.replace(el, order=frozenset()) if el.kind not in ("seq", "dict") else el
                    self.env[base.id] = dataclasses.replace(cur, elem=el, order=cur.order | self.cur_loop_taint())
            elif isinstance(base, ast.Subscript) and isinstance(base.value, ast.Name):
                self.taint_name(base.value.id, self.cur_loop_taint())

    def bind_iter_target(self, target, iter_node, ti: T, el: T):
        if isinstance(target, ast.Name):
            self.env[target.id] = el
        elif isinstance(target, (ast.Tuple, ast.List)):
            if el.kind == "tuplev" and len(el.fields) == len(target.elts):
                for e, ft in zip(target.elts, el.fields):
                    self.bind_iter_target(e, iter_node, ti, ft)
            else:
                for e in target.elts:
                    self.bind_iter_target(e, iter_node, ti, UNKNOWN)

    # -- statements ---------------------------------------------------------
    def analyse(self):
        f = self.f
        a = f.node.args
        all_params = a.posonlyargs + a.args + a.kwonlyargs
        for i, p in enumerate(all_params):
            if i == 0 and p.arg in ("self", "cls") and self.cls:
                self.env[p.arg] = T("obj", cls=self.cls)
                continue
            t = self.db.parse_ann(p.annotation) if p.annotation is not None else self.doc_types.get(p.arg, UNKNOWN)
            if t.kind in ("seq", "dict", "unknown"):
                t = t.add_order({Taint(f"P:{p.arg}")})
            self.env[p.arg] = t
        if a.vararg:
            self.env[a.vararg.arg] = T("seq", order=frozenset({Taint(f"P:{a.vararg.arg}")}))
        if a.kwarg:
            self.env[a.kwarg.arg] = T("dict", order=frozenset({Taint(f"P:{a.kwarg.arg}")}))
        # nested functions see the enclosing function's parameters only through their own analysis;
        # closures over tainted locals are rare here and are handled by analysing nested defs separately
        self.block(f.node.body)
        ret = self.ret
        ann = self.db.parse_ann(f.node.returns)
        if ret is None:
            ret = ann
        elif ann.kind != "unknown" and ret.kind in ("unknown", "none"):
            ret = ann.add_order(ret.order)
        elif ann.kind != "unknown" and ret.kind != ann.kind and ann.kind in ("seq", "dict", "set", "tuplev") and ret.kind not in ("tuplev",):
            ret = ann.add_order(ret.order)
        if ret.kind == "set":
            ret = ret.with_order(())
        key = (f.rel, f.qualname)
        self.eng.summaries[key] = Summary(ret=ret, sink_params=self.sink_params)
        if key in self.eng.accessor_sinks:
            tv = ret
            self.sink(f.node, "S4:return-of-ordered-public-accessor", tv, f"return value of {f.qualname}")

    COMMUTATIVE_CALLS = {"max", "min", "sum", "len", "set", "frozenset", "any", "all", "sorted"}

    def noncommutative_fold(self, st: ast.Assign):
        """S8: `acc = f(... acc ...)` once per element of a collection without canonical order, where f is not one of the
        known order-insensitive combinations (+ * | & ^, max / min, set methods): the final value depends on the visiting
        order (nested conditionals, nested calls, first-wins merges)."""
        lt = [t for t in self.cur_loop_taint() if t.kind in (HASH, TEXT)]
        if not lt or len(st.targets) != 1 or not isinstance(st.targets[0], ast.Name):
            return
        acc = st.targets[0].id
        cur = self.env.get(acc, UNKNOWN)
        if cur.kind in ("set", "seq", "dict", "str", "int", "float", "sorter"):
            return  # typed accumulators have their own rules
        for call in [n for n in ast.walk(st.value) if isinstance(n, ast.Call)]:
            reads_acc = any(isinstance(n, ast.Name) and n.id == acc for a in list(call.args) + [k.value for k in call.keywords] for n in ast.walk(a))
            if not reads_acc:
                continue
            fn = call.func
            if isinstance(fn, ast.Name) and fn.id in self.COMMUTATIVE_CALLS:
                continue
            if isinstance(fn, ast.Attribute) and any(isinstance(n, ast.Name) and n.id == acc for n in ast.walk(fn.value)):
                continue  # a method of the accumulator itself (union, add, subs of its own kind ...): typed rules decide those
            d = dotted(fn) or norm(fn)
            self.sink(st, "S8:value-folded-step-by-step-over-an-unordered-collection", T("seq", order=frozenset(lt)), f"`{acc} = {d}(... {acc} ...)` once per element of a collection without canonical order: the nesting of the result follows the visiting order")
            return

    LOOP_MUTATORS = {"append", "extend", "insert", "add", "update", "setdefault", "appendleft", "push"}

    def early_exit(self, loop: ast.For, taint):
        """S9: a loop over a collection without canonical order that can stop early.  Stopping early is harmless when
        every way of stopping gives the same outcome (the any / all idiom: one constant returned from inside the loop,
        or a bare `break` in a loop that records nothing but constants).  It is order-dependent when the outcome names
        the element that happened to come first: a `return <expression>`, two different outcomes for different
        elements (return True here / return False there), or a `break` in a loop that has stored something computed
        from its elements."""
        lt = [t for t in taint if t.kind in (HASH, TEXT)]
        if not lt:
            return
        outcomes: dict[str, ast.AST] = {}
        stores = []
        lvars = {n.id for n in ast.walk(loop.target) if isinstance(n, ast.Name)}

        def by_unique_name(test) -> bool:
            # `x.name == <anything>`: names are unique in a model (the discharge the sort keys use), so at most one
            # element of the collection can take this exit - it is a lookup, not a choice
            for c in ast.walk(test):
                if isinstance(c, ast.Compare) and len(c.ops) == 1 and isinstance(c.ops[0], ast.Eq):
                    for side in (c.left, c.comparators[0]):
                        if isinstance(side, ast.Attribute) and side.attr == "name" and isinstance(side.value, ast.Name) and side.value.id in lvars:
                            return True
            return False

        def walk(node, in_inner_loop, unique=False):
            for ch in ast.iter_child_nodes(node):
                if isinstance(ch, (ast.FunctionDef, ast.AsyncFunctionDef, ast.ClassDef, ast.Lambda)):
                    continue
                if isinstance(ch, ast.If) and by_unique_name(ch.test):
                    for sub in ch.body:
                        walk(ast.Module(body=[sub], type_ignores=[]), in_inner_loop, True)
                    for sub in ch.orelse:
                        walk(ast.Module(body=[sub], type_ignores=[]), in_inner_loop, unique)
                    continue
                if unique and isinstance(ch, (ast.Return, ast.Break)):
                    continue
                if isinstance(ch, ast.Return):
                    v = ch.value
                    if isinstance(v, ast.Name):
                        # `result = True; return result`: a local that only ever holds one constant inside the loop
                        vals_ = [n_.value for n_ in ast.walk(loop) if isinstance(n_, ast.Assign) and any(isinstance(t_, ast.Name) and t_.id == v.id for t_ in n_.targets)]
                        if vals_ and all(isinstance(x_, ast.Constant) for x_ in vals_) and len({repr(x_.value) for x_ in vals_}) == 1:
                            v = vals_[0]
                    k = "return " + (repr(None) if v is None else repr(v.value) if isinstance(v, ast.Constant) else "<expr>")
                    outcomes.setdefault(k, ch)
                elif isinstance(ch, ast.Break) and not in_inner_loop:
                    outcomes.setdefault("break", ch)
                elif isinstance(ch, (ast.Assign, ast.AugAssign, ast.AnnAssign)) and getattr(ch, "value", None) is not None and not isinstance(ch.value, ast.Constant):
                    stores.append(ch)
                elif isinstance(ch, ast.Call) and isinstance(ch.func, ast.Attribute) and ch.func.attr in self.LOOP_MUTATORS:
                    stores.append(ch)
                walk(ch, in_inner_loop or isinstance(ch, (ast.For, ast.While)), unique)

        walk(ast.Module(body=list(loop.body), type_ignores=[]), False)
        # `raise` is not an outcome here: which error is reported first is not part of what is generated
        if not outcomes:
            return
        why = None
        if "return <expr>" in outcomes:
            why = (outcomes["return <expr>"], f"`{norm(outcomes['return <expr>'])[:60]}` hands back whatever the first suitable element gives")
        elif len(outcomes) >= 2:
            ks = sorted(outcomes)
            why = (outcomes[ks[0]], f"the loop can stop with different outcomes ({', '.join(ks)}): which one is reached first depends on the visiting order")
        elif "break" in outcomes and stores:
            why = (outcomes["break"], f"the loop stops at the first suitable element after recording `{norm(stores[0])[:60]}`: what is recorded depends on which element comes first")
        if why is None:
            return
        self.sink(why[0], "S9:early-exit-from-a-loop-over-an-unordered-collection", T("seq", order=frozenset(lt)), why[1])

    def self_guarded_accumulation(self, node, acc: str):
        """S7: a set filled in a loop without canonical order, where a condition in that loop reads the set itself."""
        if not (self.cur_loop_taint() and any(t.kind in (HASH, TEXT) for t in self.cur_loop_taint())):
            return
        for loop in self.loop_nodes:
            for x in ast.walk(loop):
                tests = []
                if isinstance(x, (ast.If, ast.IfExp, ast.While)):
                    tests = [x.test]
                elif isinstance(x, ast.comprehension):
                    tests = list(x.ifs)
                for tnode in tests:
                    if any(isinstance(y, ast.Name) and y.id == acc and isinstance(y.ctx, ast.Load) for y in ast.walk(tnode)):
                        self.sink(node, "S7:content-of-a-set-decided-by-its-own-earlier-content", T("set", order=self.cur_loop_taint()), f"`{acc}` is filled in a loop without canonical order and the condition for adding reads `{acc}` itself: which elements end up in it depends on the visiting order")
                        return

    def block(self, stmts):
        for st in stmts:
            self.stmt(st)

    def stmt(self, st):
        if isinstance(st, (ast.FunctionDef, ast.AsyncFunctionDef, ast.ClassDef)):
            return
        if isinstance(st, ast.Expr):
            self.type_of(st.value)
            self._loop_effect(st)
            return
        if isinstance(st, ast.Assign):
            t = self.type_of(st.value)
            self.noncommutative_fold(st)
            for tgt in st.targets:
                self.bind(tgt, t)
            return
        if isinstance(st, ast.AnnAssign):
            ann = self.db.parse_ann(st.annotation)
            t = self.type_of(st.value) if st.value is not None else UNKNOWN
            if ann.kind != "unknown":
                if t.kind == "set" and ann.kind in ("seq", "unknown"):
                    # annotated as Iterable/Sequence but bound to a set: the object is still a set
                    pass
                else:
                    t = dataclasses.replace(ann, order=t.order if t.kind in ("seq", "dict", "str", "unknown", ann.kind) else frozenset(), elem=ann.elem or t.elem)
                    if ann.kind == "set":
                        t = t.with_order(())
            self.bind(st.target, t)
            return
        if isinstance(st, ast.AugAssign):
            tv = self.type_of(st.value)
            if isinstance(st.target, ast.Name):
                cur = self.env.get(st.target.id, UNKNOWN)
                if cur.kind == "set":
                    self.self_guarded_accumulation(st, st.target.id)
                    return
                if cur.kind == "str" or tv.kind == "str":
                    self.env[st.target.id] = T("str", order=cur.order | tv.order | self.cur_loop_taint())
                    return
                if cur.kind == "seq":
                    extra = tv.order | self.cur_loop_taint()
                    if tv.kind == "set":
                        extra |= {Taint(HASH, self.origin(st))}
                    self.env[st.target.id] = cur.add_order(extra)
                    return
                if cur.kind in ("int", "unknown", "float") and self.cur_loop_taint() and isinstance(st.op, ast.Add):
                    # a counter advanced inside a loop without canonical order
                    real = [t for t in self.cur_loop_taint() if t.kind in (HASH, TEXT)]
                    tv2 = T("int", order=self.cur_loop_taint())
                    self.env[st.target.id] = tv2
                    return
            elif isinstance(st.target, ast.Subscript):
                self.bind(st.target, tv)
            return
        if isinstance(st, ast.For):
            ti = self.type_of(st.iter)
            el, taint = self.iter_elem(st.iter, ti)
            self.bind_iter_target(st.target, st.iter, ti, el)
            self.loop_taints.append(frozenset(taint))
            self.loop_nodes.append(st)
            self.early_exit(st, taint)
            self.block(st.body)
            # second pass so that effects of later statements on earlier ones are seen (loop-carried)
            self.block(st.body)
            self.loop_taints.pop()
            self.loop_nodes.pop()
            self.block(st.orelse)
            return
        if isinstance(st, ast.While):
            self.type_of(st.test)
            self.block(st.body)
            self.block(st.orelse)
            return
        if isinstance(st, ast.If):
            self.type_of(st.test)
            env0 = dict(self.env)
            self.block(st.body)
            env1 = self.env
            self.env = dict(env0)
            self.block(st.orelse)
            env2 = self.env
            merged = {}
            for k in set(env1) | set(env2):
                if k in env1 and k in env2:
                    merged[k] = env1[k] if env1[k] == env2[k] else join_T(env1[k], env2[k])
                else:
                    merged[k] = env1.get(k) or env2.get(k)
            self.env = merged
            return
        if isinstance(st, ast.Return):
            if st.value is None:
                return
            t = self.type_of(st.value)
            lt = self.cur_loop_taint()
            if lt and not self._existential_return(st):
                t = t.add_order({dataclasses.replace(x, origin=x.origin + " [value returned from inside the loop: first match in iteration order]") if x.kind in (HASH, TEXT) else x for x in lt}) if t.kind in ("seq", "dict", "str", "obj", "unknown") else t
            self.ret = t if self.ret is None else self._join_ret(self.ret, t)
            return
        if isinstance(st, ast.Try):
            self.block(st.body)
            for h in st.handlers:
                self.block(h.body)
            self.block(st.orelse)
            self.block(st.finalbody)
            return
        if isinstance(st, ast.With):
            for it in st.items:
                t = self.type_of(it.context_expr)
                if it.optional_vars is not None:
                    self.bind(it.optional_vars, t)
            self.block(st.body)
            return
        if isinstance(st, (ast.Raise, ast.Assert)):
            for ch in ast.iter_child_nodes(st):
                if isinstance(ch, ast.expr):
                    self.type_of(ch)
            return
        if isinstance(st, ast.Delete):
            return

    def _join_ret(self, a: T, b: T) -> T:
        if a.kind == "tuplev" and b.kind == "tuplev" and len(a.fields) == len(b.fields):
            return dataclasses.replace(a, fields=tuple(join_T(x, y) for x, y in zip(a.fields, b.fields)), order=a.order | b.order)
        return join_T(a, b)

    def _existential_return(self, st: ast.Return) -> bool:
        v = st.value
        if isinstance(v, ast.Constant):
            return True
        # `for x in S: if x.name == key: return x`  -- lookup by a unique key
        if isinstance(v, ast.Name):
            return True if self._under_name_equality(st, v.id) else False
        return False

    def _under_name_equality(self, st, var) -> bool:
        # find the innermost enclosing If of this return inside the function
        for n in ast.walk(self.f.node):
            if isinstance(n, ast.If) and any(s is st for s in n.body):
                t = n.test
                if isinstance(t, ast.Compare) and len(t.ops) == 1 and isinstance(t.ops[0], ast.Eq):
                    sides = [t.left, t.comparators[0]]
                    for s in sides:
                        if isinstance(s, ast.Attribute) and s.attr == "name" and isinstance(s.value, ast.Name) and s.value.id == var:
                            return True
        return False

    def _loop_effect(self, st: ast.Expr):
        """An expression statement inside a loop without canonical order: is its effect order-sensitive?"""
        lt = [t for t in self.cur_loop_taint() if t.kind in (HASH, TEXT)]
        if not lt:
            return
        v = st.value
        if isinstance(v, ast.Constant):
            return
        if isinstance(v, ast.Call):
            fn = v.func
            if isinstance(fn, ast.Attribute):
                recv = self.type_of(fn.value)
                root = fn.value
                while isinstance(root, (ast.Attribute, ast.Subscript, ast.Call)):
                    root = root.value if not isinstance(root, ast.Call) else root.func
                rootname = root.id if isinstance(root, ast.Name) else ""
                if recv.kind in ("set", "seq", "dict", "sorter"):
                    return  # handled by the typed method rules (add / append / update / sorter.add)
                if rootname in LOG_RECEIVERS:
                    return
                if fn.attr in ("add", "update", "discard") and recv.kind in ("unknown",) and isinstance(fn.value, ast.Subscript):
                    # D[k].add(v) on a dict of sets
                    b = fn.value.value
                    if isinstance(b, ast.Name):
                        self.taint_name(b.id, self.cur_loop_taint())
                    return
                if fn.attr in ("add",) and recv.kind == "unknown":
                    return
                if recv.kind == "obj" and recv.cls:
                    # a method of a package class that only adds to sets (a small collector object): the same as
                    # D[k].add(v) - the content does not depend on the order of the calls
                    kls = next((c_ for (r_, q_), c_ in self.sm.classes.items() if q_ == recv.cls), None)
                    meth = kls.methods.get(fn.attr) if kls is not None else None
                    if meth is not None:
                        body_ = [x for x in meth.node.body if not (isinstance(x, ast.Expr) and isinstance(x.value, ast.Constant))]
                        if body_ and all(isinstance(x, ast.Expr) and isinstance(x.value, ast.Call) and isinstance(x.value.func, ast.Attribute) and x.value.func.attr in ("add", "update", "discard") for x in body_):
                            if rootname:
                                self.taint_name(rootname, self.cur_loop_taint())
                            return
            if isinstance(fn, ast.Name) and fn.id in ("print",):
                return
            d = dotted(fn) or norm(fn)
            if d in ("object.__setattr__",):
                return
            tv = T("seq", order=frozenset(lt))
            self.sink(st, "S1:order-sensitive-effect-in-unordered-loop", tv, f"call {d}(...) executed once per element of an unordered collection")
