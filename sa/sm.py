"""Source model: every module of /repo/src/gotranx parsed with ast, with lookup helpers.

Nothing here imports or runs gotranx.  An ``overlay`` (relpath -> source text) lets the
self-test analyse mutated sources in memory without touching the disk.
"""

from __future__ import annotations

import ast
import os
from pathlib import Path

from .core import AnalysisError

PKG = "src/gotranx"


def dotted(node) -> str | None:
    """a.b.c for Name/Attribute chains, else None."""
    parts = []
    while isinstance(node, ast.Attribute):
        parts.append(node.attr)
        node = node.value
    if isinstance(node, ast.Name):
        parts.append(node.id)
        return ".".join(reversed(parts))
    return None


def norm(node) -> str:
    """Normalised text of a node: independent of layout, comments and positions."""
    if isinstance(node, str):
        return node
    return ast.unparse(node)


def walk_no_nested(node, include_self=False):
    """Walk a function body without descending into nested function/class definitions."""
    stack = list(ast.iter_child_nodes(node)) if not include_self else [node]
    while stack:
        n = stack.pop()
        yield n
        if isinstance(n, (ast.FunctionDef, ast.AsyncFunctionDef, ast.ClassDef, ast.Lambda)) and n is not node:
            continue
        stack.extend(ast.iter_child_nodes(n))


class Func:
    def __init__(self, rel: str, qualname: str, node: ast.FunctionDef, cls: str | None):
        self.rel = rel
        self.qualname = qualname
        self.node = node
        self.cls = cls

    @property
    def name(self):
        return self.node.name

    @property
    def params(self) -> list[str]:
        a = self.node.args
        return [x.arg for x in a.posonlyargs + a.args + a.kwonlyargs]

    def where(self, node=None) -> str:
        n = node if node is not None else self.node
        return f"{self.rel}:{getattr(n, 'lineno', '?')}"

    def key(self, extra: str = "") -> str:
        return f"{self.rel}::{self.qualname}" + (f"::{extra}" if extra else "")

    def calls(self, nested=True):
        it = ast.walk(self.node) if nested else walk_no_nested(self.node)
        for n in it:
            if isinstance(n, ast.Call):
                yield n

    def decorators(self) -> list[str]:
        out = []
        for d in self.node.decorator_list:
            out.append(norm(d))
        return out

    def __repr__(self):
        return f"<Func {self.rel}::{self.qualname}>"


class Cls:
    def __init__(self, rel: str, node: ast.ClassDef):
        self.rel = rel
        self.node = node
        self.name = node.name
        self.bases = [norm(b) for b in node.bases]
        self.methods: dict[str, Func] = {}

    def where(self, node=None):
        n = node if node is not None else self.node
        return f"{self.rel}:{getattr(n, 'lineno', '?')}"

    def class_assigns(self) -> dict[str, ast.AST]:
        out = {}
        for st in self.node.body:
            if isinstance(st, ast.Assign) and len(st.targets) == 1 and isinstance(st.targets[0], ast.Name):
                out[st.targets[0].id] = st.value
            elif isinstance(st, ast.AnnAssign) and isinstance(st.target, ast.Name) and st.value is not None:
                out[st.target.id] = st.value
        return out

    def annotations(self) -> dict[str, str]:
        out = {}
        for st in self.node.body:
            if isinstance(st, ast.AnnAssign) and isinstance(st.target, ast.Name):
                out[st.target.id] = norm(st.annotation)
        return out


class SourceModel:
    def __init__(self, repo: Path, overlay: dict[str, str] | None = None, normalise_renames: bool = True):
        self.repo = Path(repo)
        self.overlay = overlay or {}
        self.modules: dict[str, ast.Module] = {}
        self.text: dict[str, str] = {}
        self.funcs: dict[tuple[str, str], Func] = {}
        self.classes: dict[tuple[str, str], Cls] = {}
        root = self.repo / PKG
        if not root.is_dir():
            raise AnalysisError(f"package directory {root} not found")
        texts: dict[str, str] = {}
        for p in sorted(root.rglob("*.py")):
            rel = str(p.relative_to(self.repo))
            src = self.overlay.get(rel)
            if src is None:
                src = p.read_text()
            texts[rel] = src
        for rel, src in self.overlay.items():
            # new modules of the package only: an edit of examples/ or docs/ is not part of the analysed program
            if rel.endswith(".py") and rel not in texts and rel.startswith(PKG.rstrip("/") + "/"):
                texts[rel] = src
        # private functions that were only renamed are analysed under the name the rules know (sa/alpha.py)
        self.renamed: dict[str, str] = {}
        if normalise_renames and not os.environ.get("VERIF_NO_ALPHA"):
            from . import alpha

            texts, self.renamed = alpha.normalise(texts)
        for rel, src in texts.items():
            self._add(rel, src)
        self.n_functions = len(self.funcs)

    # ------------------------------------------------------------------
    def _add(self, rel: str, src: str):
        try:
            tree = ast.parse(src, filename=rel)
        except SyntaxError as e:
            raise AnalysisError(f"cannot parse {rel}: {e}")
        self.modules[rel] = tree
        self.text[rel] = src
        self._index(rel, tree, prefix="", cls=None)

    def _index(self, rel, node, prefix, cls):
        for st in ast.iter_child_nodes(node):
            if isinstance(st, (ast.FunctionDef, ast.AsyncFunctionDef)):
                q = prefix + st.name
                f = Func(rel, q, st, cls)
                self.funcs[(rel, q)] = f
                if cls is not None and (rel, cls) in self.classes and prefix == cls + ".":
                    self.classes[(rel, cls)].methods[st.name] = f
                self._index(rel, st, q + ".", None)
            elif isinstance(st, ast.ClassDef):
                c = Cls(rel, st)
                self.classes[(rel, prefix + st.name)] = c
                self._index(rel, st, prefix + st.name + ".", prefix + st.name)
            elif isinstance(st, (ast.If, ast.Try, ast.With, ast.For, ast.While)):
                self._index(rel, st, prefix, cls)

    # ------------------------------------------------------------------
    def rel(self, short: str) -> str:
        """'ode.py' -> 'src/gotranx/ode.py'"""
        return short if short.startswith(PKG) else f"{PKG}/{short}"

    def module(self, short: str) -> ast.Module:
        r = self.rel(short)
        if r not in self.modules:
            raise AnalysisError(f"module {r} not found (anchor vanished)")
        return self.modules[r]

    def func(self, short: str, qualname: str, required=True) -> Func | None:
        f = self.funcs.get((self.rel(short), qualname))
        if f is None and required:
            raise AnalysisError(f"function {self.rel(short)}::{qualname} not found (anchor vanished)")
        return f

    def cls(self, short: str, name: str, required=True) -> Cls | None:
        c = self.classes.get((self.rel(short), name))
        if c is None and required:
            raise AnalysisError(f"class {self.rel(short)}::{name} not found (anchor vanished)")
        return c

    def funcs_in(self, short: str) -> list[Func]:
        r = self.rel(short)
        return [f for (rel, _), f in self.funcs.items() if rel == r]

    def all_funcs(self) -> list[Func]:
        return list(self.funcs.values())

    def all_classes(self) -> list[Cls]:
        return list(self.classes.values())

    def subclasses_of(self, base_suffix: str) -> list[Cls]:
        """Classes one of whose written bases ends with ``base_suffix`` (transitively inside the package)."""
        out = []
        names = {base_suffix}
        changed = True
        while changed:
            changed = False
            for c in self.classes.values():
                if c in out:
                    continue
                if any(b.split(".")[-1] in names for b in c.bases):
                    out.append(c)
                    names.add(c.name)
                    changed = True
        return out

    def module_imports(self, short: str) -> dict[str, str]:
        """local name -> dotted origin for the import statements of a module (all levels)."""
        out = {}
        mod = self.module(short)
        rel = self.rel(short)
        pkg_parts = rel[len("src/"):-3].split("/")  # gotranx, codegen, python
        if pkg_parts[-1] == "__init__":
            pkg_parts = pkg_parts[:-1]
            base_pkg = pkg_parts
        else:
            base_pkg = pkg_parts[:-1]
        for n in ast.walk(mod):
            if isinstance(n, ast.Import):
                for a in n.names:
                    out[a.asname or a.name.split(".")[0]] = a.name if a.asname else a.name.split(".")[0]
            elif isinstance(n, ast.ImportFrom):
                if n.level:
                    base = base_pkg[: len(base_pkg) - (n.level - 1)]
                    modname = ".".join(base + ([n.module] if n.module else []))
                else:
                    modname = n.module or ""
                for a in n.names:
                    out[a.asname or a.name] = f"{modname}.{a.name}"
        return out

    def resolve_module_rel(self, dotted_mod: str) -> str | None:
        """'gotranx.codegen.base' -> 'src/gotranx/codegen/base.py' if it exists in the model."""
        p = "src/" + dotted_mod.replace(".", "/")
        if p + ".py" in self.modules:
            return p + ".py"
        if p + "/__init__.py" in self.modules:
            return p + "/__init__.py"
        return None


# ---------------------------------------------------------------------------
# small AST utilities shared by rule modules


def find_calls(node, name_suffix: str, nested=True):
    """Calls whose dotted callee equals or ends with ``.name_suffix`` / equals name_suffix."""
    it = ast.walk(node) if nested else walk_no_nested(node)
    for n in it:
        if isinstance(n, ast.Call):
            d = dotted(n.func)
            if d is None and isinstance(n.func, ast.Attribute):
                d = "?." + n.func.attr
            if d is None:
                continue
            if d == name_suffix or d.endswith("." + name_suffix):
                yield n


def call_kw(call: ast.Call, name: str):
    for k in call.keywords:
        if k.arg == name:
            return k.value
    return None


def call_arg(call: ast.Call, pos: int, name: str | None = None):
    if name is not None:
        v = call_kw(call, name)
        if v is not None:
            return v
    if pos < len(call.args) and not any(isinstance(a, ast.Starred) for a in call.args[: pos + 1]):
        return call.args[pos]
    return None


def const_str(node) -> str | None:
    if isinstance(node, ast.Constant) and isinstance(node.value, str):
        return node.value
    return None


def names_in(node) -> set[str]:
    return {n.id for n in ast.walk(node) if isinstance(n, ast.Name)}


def assigned_names(target) -> list[str]:
    out = []
    for n in ast.walk(target):
        if isinstance(n, ast.Name):
            out.append(n.id)
    return out


def str_constants(node) -> list[str]:
    return [n.value for n in ast.walk(node) if isinstance(n, ast.Constant) and isinstance(n.value, str)]


def fstring_skeleton(node) -> str | None:
    """Text of a (f-)string with each placeholder replaced by {<expr text>}; None if not a string."""
    if isinstance(node, ast.Constant) and isinstance(node.value, str):
        return node.value
    if isinstance(node, ast.JoinedStr):
        out = []
        for v in node.values:
            if isinstance(v, ast.Constant):
                out.append(str(v.value))
            elif isinstance(v, ast.FormattedValue):
                out.append("{" + norm(v.value) + "}")
        return "".join(out)
    return None
