"""AV - abstract value evaluator: symbolic summaries of 'builder' code (templates, generators, CLI assembly).

Rules must not depend on *how* a function assembles a string, a list of code parts or the keyword arguments of a
template call: an f-string or ``+``, ``append`` in a loop or a comprehension, a helper or inline code, ``enumerate``
or a carried flag.  AV evaluates a function body over a small value algebra and returns normalised terms that are
equal for all those spellings.  Nothing is executed and no path condition is solved: undecidable tests become
``if`` terms, loops become ``comp`` / ``fold`` terms, everything that is not modelled exactly becomes ``unk`` (a rule
seeing ``unk`` answers *undecided*, never *violation*).

Values (hashable tuples):
  ('c', const)                                python constant
  ('sym', text)                               parameter / dotted attribute chain / imported name
  ('bv', d, *path)                            element bound by the binder at nesting depth d (tuple targets: path)
  ('idx', d, start)                           position of that element (enumerate)
  ('first', d)                                'this is the first iteration' of binder d
  ('s', parts)                                string: ('lit', text) | ('h', value)
  ('join', sep, seq)                          sep.join(seq)
  ('list', items)                             items: value | ('spread', seq) | ('when', cond, item)
  ('dict', ((k, v), ...))
  ('comp', d, iter, items, conds)             for each element of iter (satisfying conds) the items, in order
  ('fold', d, iter, init, body)               loop-carried value; body refers to ('acc', d)
  ('if', cond, a, b)
  ('call', name, args, kwargs)                opaque call; kwargs sorted
  ('mcall', recv, name, args, kwargs)         opaque method call
  ('attr', value, name) ('sub', value, key) ('slice', value, lo, hi)
  ('op', symbol, a, b) ('not', v) ('cmp', op, a, b) ('bool', 'and'|'or', values)
  ('fn', ...)                                 local function / lambda (closure)
  ('raise', name)                             the path raises
  ('unk', why)
"""

from __future__ import annotations

import ast
import os
import string
import textwrap

from .inline import NO_INLINE
from .sm import Func, SourceModel, dotted, norm, walk_no_nested

MAX_DEPTH = 5


def C(v):
    return ("c", v)


NONE = C(None)
EMPTY = C("")


def unk(why: str):
    return ("unk", why)


def has(v, tag: str) -> bool:
    if isinstance(v, tuple):
        if v and v[0] == tag:
            return True
        return any(has(x, tag) for x in v)
    return False


def has_unk(v) -> bool:
    return has(v, "unk")


def find_all(v, tag: str, out=None):
    out = [] if out is None else out
    if isinstance(v, tuple):
        if v and v[0] == tag:
            out.append(v)
        for x in v:
            find_all(x, tag, out)
    return out


def subst(v, mapping: dict):
    """Replace sub-terms (keys of mapping) by their images."""
    if v in mapping:
        return mapping[v]
    if isinstance(v, tuple):
        new = tuple(subst(x, mapping) for x in v)
        return renorm(new) if new != v else v
    return v


# --------------------------------------------------------------------------------------------------------
# constructors with normalisation


def mk_s(parts) -> tuple:
    flat = []

    def add(p):
        if p[0] == "lit":
            if p[1] == "":
                return
            if flat and flat[-1][0] == "lit":
                flat[-1] = ("lit", flat[-1][1] + p[1])
            else:
                flat.append(p)
            return
        v = p[1]
        if v[0] == "c":
            if isinstance(v[1], str):
                add(("lit", v[1]))
            elif v[1] is None or isinstance(v[1], (int, float, bool)):
                add(("lit", str(v[1])))
            else:
                flat.append(("h", v))
            return
        if v[0] == "s":
            for q in v[1]:
                add(q)
            return
        flat.append(("h", v))

    for p in parts:
        add(p)
    if not flat:
        return EMPTY
    if len(flat) == 1 and flat[0][0] == "lit":
        return C(flat[0][1])
    if len(flat) == 1 and flat[0][0] == "h" and _is_str(flat[0][1]):
        return flat[0][1]  # f"{x}" is x for a string x
    return ("s", tuple(flat))


def distribute_ifs(v):
    """`f"{(a if c else '')}{b}"`  ->  `f"{a}{b}" if c else f"{b}"` everywhere in v: a conditional piece of text is a
    conditional about the whole text.  Used when two values are compared (not when they are built: rules that read
    the shape of a template want the conditional where the code has it)."""
    if not isinstance(v, tuple) or not v:
        return v
    if not isinstance(v[0], str):
        return tuple(distribute_ifs(x) if isinstance(x, tuple) else x for x in v)
    v = (v[0],) + tuple(distribute_ifs(x) if isinstance(x, tuple) else x for x in v[1:])
    if v[0] == "s":
        flat = list(v[1])
        ifs = [i for i, q in enumerate(flat) if q[0] == "h" and q[1][0] == "if" and (_is_const_str(q[1][2]) or _is_const_str(q[1][3]))]
        if len(ifs) == 1:
            i = ifs[0]
            _, c, a, b = flat[i][1]
            return mk_if(c, mk_s(flat[:i] + [("h", a)] + flat[i + 1 :]), mk_s(flat[:i] + [("h", b)] + flat[i + 1 :]))
    # a conditional raise anywhere in a strictly evaluated term is a conditional raise of the whole term
    if v[0] != "if" and has(v, "raise"):
        r_ = _extract_raise(v)
        if r_ is not None:
            return distribute_ifs(mk_if(r_[0], r_[1], r_[2]))
    if v[0] == "if" and v[2][0] == "if" and v[3][0] == "if" and v[2][1] == v[3][1] and v[2][2][0] == "raise" and v[2][2] == v[3][2]:
        # both branches start with the same check: (raise if p else A) if c else (raise if p else B)
        return distribute_ifs(mk_if(v[2][1], v[2][2], mk_if(v[1], v[2][3], v[3][3])))
    if v[0] == "if" and v[3][0] == "if" and v[2] == v[3][2]:
        return mk_if(mk_or(v[1], v[3][1]), v[2], v[3][3])  # the same outcome under either condition
    # f(a if c else b) -> f(a) if c else f(b)   (one conditional positional argument)
    if v[0] in ("call", "mcall"):
        ai = 2 if v[0] == "call" else 3
        args = v[ai]
        ifs = [i for i, a in enumerate(args) if isinstance(a, tuple) and a and a[0] == "if"]
        if len(ifs) == 1 and not any(isinstance(x, tuple) and x and x[0] == "if" for _, x in v[ai + 1]):
            i = ifs[0]
            _, c, a, b = args[i]
            mk = lambda x: v[:ai] + (args[:i] + (x,) + args[i + 1 :],) + v[ai + 1 :]  # noqa: E731
            return mk_if(c, mk(a), mk(b))
    return v


def _is_const_str(v) -> bool:
    return v[0] == "c" and isinstance(v[1], str)


def s_parts(v):
    """string value -> parts"""
    if v[0] == "c" and isinstance(v[1], str):
        return (("lit", v[1]),) if v[1] else ()
    if v[0] == "s":
        return v[1]
    return (("h", v),)


def mk_list(items) -> tuple:
    out = []
    for it in items:
        it = _norm_when(it) if it[0] in ("when", "spread") else it
        if it[0] == "spread":
            seq = it[1]
            if seq[0] == "list":
                out.extend(seq[1])
                continue
            if seq[0] == "comp" and not seq[3]:
                continue
            if seq[0] == "c" and isinstance(seq[1], tuple):
                out.extend(C(x) for x in seq[1])
                continue
        out.append(it)
    if len(out) == 1 and out[0][0] == "spread" and out[0][1][0] == "comp":
        return out[0][1]
    return ("list", tuple(out))


def subst_bv(v, d, elem, k: int):
    """Instantiate the element bound at depth d by the k-th known element."""
    if isinstance(v, tuple) and v:
        if v[0] == "bv" and v[1] == d:
            out = elem
            for i in v[2:]:
                out = mk_sub(out, C(i))
            return out
        if v[0] == "idx" and v[1] == d:
            return C(v[2][1] + k) if v[2][0] == "c" and isinstance(v[2][1], int) else ("op", "+", v[2], C(k))
        if v[0] == "first" and v[1] == d:
            return C(k == 0)
        new = tuple(subst_bv(x, d, elem, k) for x in v)
        return renorm(new) if new != v else v
    return v


def _unwrap_seq(it):
    while True:
        if it[0] == "list" and len(it[1]) == 1 and it[1][0][0] == "spread":
            it = it[1][0][1]
        elif it[0] == "call" and it[1] in ("tuple", "list", "iter") and len(it[2]) == 1 and not it[3]:
            it = it[2][0]  # iterating a copy of a sequence is iterating the sequence
        else:
            return it


def rename_binder(v, d_from: int, d_to: int):
    if d_from == d_to or not isinstance(v, tuple) or not v:
        return v
    if v[0] in ("bv", "idx", "first", "acc", "cidx") and len(v) > 1 and v[1] == d_from:
        return (v[0], d_to) + tuple(rename_binder(x, d_from, d_to) for x in v[2:])
    if v[0] in ("comp", "fold") and v[1] == d_from:
        return v  # an inner binder of the same depth shadows
    return tuple(rename_binder(x, d_from, d_to) for x in v)


def canon_binders(v, depth: int = 0, mapping: dict | None = None):
    """Number every binder by its nesting level (alpha-equivalent terms become equal)."""
    mapping = mapping or {}
    if not isinstance(v, tuple) or not v:
        return v
    t = v[0]
    if t == "comp" and len(v) == 5 and isinstance(v[1], int):
        it = canon_binders(v[2], depth, mapping)
        nd = depth + 1
        m2 = dict(mapping)
        m2[v[1]] = nd
        return ("comp", nd, it, tuple(canon_binders(i, nd, m2) for i in v[3]), tuple(canon_binders(c, nd, m2) for c in v[4]))
    if t == "fold" and len(v) == 5 and isinstance(v[1], int):
        it = canon_binders(v[2], depth, mapping)
        init = canon_binders(v[3], depth, mapping)
        nd = depth + 1
        m2 = dict(mapping)
        m2[v[1]] = nd
        return ("fold", nd, it, init, canon_binders(v[4], nd, m2))
    if t in ("bv", "idx", "first", "acc", "cidx") and len(v) > 1 and isinstance(v[1], int):
        return (t, mapping.get(v[1], v[1])) + tuple(canon_binders(x, depth, mapping) for x in v[2:])
    return tuple(canon_binders(x, depth, mapping) for x in v)


def max_binder(v) -> int:
    m = 0
    if isinstance(v, tuple) and v:
        if v[0] in ("bv", "idx", "first", "acc", "comp", "fold") and len(v) > 1 and isinstance(v[1], int):
            m = v[1]
        for x in v:
            m = max(m, max_binder(x))
    return m


def _filtered_base(seq):
    """seq as (base, condition on the element, binder) when it is `x for x in base if cond`"""
    seq = _unwrap_seq(seq)
    if seq[0] == "comp" and seq[3] == (("bv", seq[1]),):
        c = C(True)
        for k in seq[4]:
            c = mk_and(c, k)
        return seq[2], c, seq[1]
    return seq, C(True), None


def _norm_when(it):
    """when(c1, when(c2, x)) -> when(c1 and c2, x);  *(X if c else []) -> when(c, *X)"""
    if it[0] == "when":
        inner = _norm_when(it[2])
        if inner[0] == "when":
            return ("when", mk_and(it[1], inner[1]), inner[2])
        return ("when", it[1], inner)
    if it[0] == "spread" and it[1][0] == "if":
        c, a, b = it[1][1], it[1][2], it[1][3]
        empty = (("list", ()), ("call", "frozenset", (), ()), ("call", "set", (), ()), C(()))
        if b in empty:
            return _norm_when(("when", c, ("spread", a)))
        if a in empty:
            return _norm_when(("when", mk_not(c), ("spread", b)))
    return it


def _position_tables(v, d, it):
    """Inside a comprehension over `it` (element $d): a lookup T[$d.a] / test `$d.a in T` in a table
    T = {y.a: position of y among the elements of `it` satisfying c} is that position / that condition
    (keys are assumed unique, as names of atoms are)."""
    if not isinstance(v, tuple) or not v:
        return v

    def table(t):
        t = _unwrap_seq(t)
        if t[0] == "comp" and len(t[3]) == 1 and not t[4] and t[3][0][0] == "kv":
            k, x = t[3][0][1], t[3][0][2]
            if k[0] == "attr" and k[1] == ("bv", t[1]) and x[0] == "idx" and x[1] == t[1]:
                base, c, df = _filtered_base(t[2])
                if df is None:
                    base, c, df = t[2], C(True), t[1]
                if base == it:
                    return k[2], x[2], rename_binder(c, df, d)
        return None

    if v[0] == "sub" and v[2][0] == "attr" and v[2][1] == ("bv", d):
        tb = table(v[1])
        if tb is not None and tb[0] == v[2][2]:
            return ("cidx", d, tb[1], tb[2]) if tb[2] != C(True) else ("idx", d, tb[1])
    if v[0] == "cmp" and v[1] in ("in", "not in") and v[2][0] == "attr" and v[2][1] == ("bv", d):
        tb = table(v[3])
        if tb is not None and tb[0] == v[2][2]:
            return tb[2] if v[1] == "in" else mk_not(tb[2])
    if v[0] in ("comp", "fold") and len(v) > 1 and v[1] == d:
        return v
    new = tuple(_position_tables(x, d, it) for x in v)
    return renorm_deep(new) if new != v else v


def _extract_raise(v):
    """(cond, raise term, v without it) for the first sub-term `raise X if cond else w` (or mirrored) of v, else None"""
    if not isinstance(v, tuple) or not v:
        return None
    if v[0] == "if" and len(v) == 4:
        if v[2][0] == "raise" and v[3][0] != "raise":
            return v[1], v[2], v[3]
        if v[3][0] == "raise" and v[2][0] != "raise":
            return mk_not(v[1]), v[3], v[2]
    if v[0] == "comp" and len(v) >= 5:
        r = _extract_raise(v[2])  # the source is evaluated outside the binder
        return None if r is None else (r[0], r[1], v[:2] + (r[2],) + v[3:])
    if v[0] in ("fold", "fn"):
        return None  # a raise under an inner binder is the inner comprehension's business
    for i, x in enumerate(v):
        if isinstance(x, tuple) and x and i > 0 or (isinstance(x, tuple) and i == 0 and not isinstance(v[0], str)):
            r = _extract_raise(x)
            if r is not None:
                return r[0], r[1], v[:i] + (r[2],) + v[i + 1 :]
    return None


def mk_comp(d, it, items, conds=()):
    it = _unwrap_seq(it)
    # an element for which building the item raises makes the whole comprehension raise: the check moves in front
    for k_, item in enumerate(items):
        r_ = _extract_raise(item) if isinstance(item, tuple) and has(item, "raise") else None
        if r_ is not None and not has(r_[0], "acc") and not has(r_[0], "idx") and not has(r_[0], "cidx") and not has(r_[0], "first"):
            rest = mk_comp(d, it, tuple(items[:k_]) + (r_[2],) + tuple(items[k_ + 1 :]), conds)
            return mk_if(mk_anyall("any", mk_comp(d, it, (r_[0],), conds)), r_[1], rest)
    if has(items, "kv") or has(conds, "kv"):
        items = tuple(_position_tables(i, d, it) for i in items)
        conds = tuple(_position_tables(c, d, it) for c in conds)
    flat_items = []
    for i in items:
        i = _norm_when(i)
        if i[0] == "spread" and i[1][0] == "list":
            flat_items.extend(_norm_when(x) for x in i[1][1])  # each element contributes a fixed list of items
        else:
            flat_items.append(i)
    items = tuple(flat_items)
    if items == (("bv", d),) and not conds and it[0] in ("list", "comp"):
        return it  # the identity comprehension
    # a comprehension over the items of a {key(y): value(y) for y in S if c(y)} is a comprehension over S
    if it[0] == "mcall" and it[2] == "items" and not it[3] and _keyed_table(it[1]) is not None and not has(items, "idx") and not has(conds, "idx"):
        D_ = _unwrap_seq(it[1])
        K_, V_ = rename_binder(D_[3][0][1], D_[1], d), rename_binder(D_[3][0][2], D_[1], d)

        def unitem(v):
            if isinstance(v, tuple) and v:
                if v[0] == "bv" and v[1] == d and len(v) > 2 and v[2] in (0, 1):
                    out = K_ if v[2] == 0 else V_
                    for i in v[3:]:
                        out = mk_sub(out, C(i))
                    return out
                if v[0] in ("comp", "fold") and v[1] == d:
                    return v
                new = tuple(unitem(x) for x in v)
                return renorm(new) if new != v else v
            return v

        if not any(b_ == ("bv", d) for b_ in find_all((items, conds), "bv")):
            return mk_comp(d, D_[2], tuple(unitem(i) for i in items), tuple(rename_binder(c_, D_[1], d) for c_ in D_[4]) + tuple(unitem(c_) for c_ in conds))
    # zip(chain([a], repeat(b)), X): the first element of X is paired with a, every other one with b
    if it[0] == "call" and it[1] == "zip" and len(it[2]) == 2 and not it[3]:
        K, X = it[2]
        if K[0] == "call" and K[1].split(".")[-1] == "chain" and len(K[2]) == 2 and _unwrap_seq(K[2][0])[0] == "list" and len(_unwrap_seq(K[2][0])[1]) == 1 and K[2][1][0] == "call" and K[2][1][1].split(".")[-1] == "repeat" and len(K[2][1][2]) == 1:
            a_, b_ = _unwrap_seq(K[2][0])[1][0], K[2][1][2][0]
            key_ = mk_if(("first", d), a_, b_)

            def unzip(v):
                if isinstance(v, tuple) and v:
                    if v[0] == "bv" and v[1] == d and len(v) > 2:
                        if v[2] == 0:
                            return key_ if len(v) == 3 else mk_sub(key_, C(v[3]))
                        if v[2] == 1:
                            return ("bv", d) + tuple(v[3:])
                    if v[0] in ("comp", "fold") and v[1] == d:
                        return v
                    new = tuple(unzip(x) for x in v)
                    return renorm(new) if new != v else v
                return v

            if not any(b == ("bv", d) for b in find_all((items, conds), "bv")):
                return mk_comp(d, X, tuple(unzip(i) for i in items), tuple(unzip(c) for c in conds))
    if len(conds) > 1:
        allc = C(True)
        for c_ in conds:
            allc = mk_and(allc, c_)
        conds = (allc,) if allc != C(True) else ()
    # (A if c else B) where A and B are filtered views of one sequence: one comprehension with a conditional filter
    if it[0] == "if":
        ba, ca, da = _filtered_base(it[2])
        bb, cb, db = _filtered_base(it[3])
        if ba == bb and not has(items, "idx") and not has(conds, "idx"):
            ca = rename_binder(ca, da, d) if da is not None else ca
            cb = rename_binder(cb, db, d) if db is not None else cb
            extra = mk_if(it[1], ca, cb)
            return mk_comp(d, ba, items, tuple(conds) + ((extra,) if extra != C(True) else ()))
    # a comprehension over a flat-map (generator with nested loops): push the items into the innermost loop
    if it[0] == "comp" and len(it[3]) == 1 and not it[4] and it[3][0][0] == "spread" and not has(items, "idx") and not has(conds, "idx"):
        inner = _unwrap_seq(it[3][0][1])
        fresh = max(max_binder(it), max_binder(items), max_binder(conds), d) + 1
        items_r = tuple(rename_binder(i, d, fresh) for i in items)
        conds_r = tuple(rename_binder(c, d, fresh) for c in conds)
        pushed = mk_comp(fresh, inner, items_r, conds_r)
        return ("comp", it[1], it[2], (("spread", pushed),), ())
    # a comprehension over a filtered view <x for x in X if c(x)> is one comprehension with the filter first
    if it[0] == "comp" and it[3] == (("bv", it[1]),) and it[4] and not has(items, "idx") and not has(conds, "idx") and not has(it[4], "idx"):
        moved = tuple(rename_binder(c, it[1], d) for c in it[4])
        return mk_comp(d, it[2], items, moved + tuple(conds))
    # a comprehension over an unfiltered one-item comprehension is one comprehension
    if it[0] == "comp" and len(it[3]) == 1 and (not it[4] or (not has(items, "idx") and not has(conds, "idx") and not has(it[4], "idx") and not has(it[3], "idx"))) and it[3][0][0] not in ("spread", "when"):
        inner_item = rename_binder(it[3][0], it[1], d)
        inner_iter = it[2]
        inner_conds = tuple(rename_binder(c, it[1], d) for c in it[4])  # <f(x) for x in X if c(x)>: the filter comes first

        def sub(v):
            if isinstance(v, tuple) and v:
                if v[0] == "bv" and v[1] == d:
                    out = inner_item
                    for i in v[2:]:
                        out = mk_sub(out, C(i))
                    return out
                if v[0] in ("comp", "fold") and v[1] == d:
                    return v
                new = tuple(sub(x) for x in v)
                return renorm(new) if new != v else v
            return v

        return mk_comp(d, inner_iter, tuple(sub(i) for i in items), inner_conds + tuple(sub(c) for c in conds))
    # ... and over a comprehension that contributes several (possibly conditional) items per element: each of them is
    # mapped (a generator of tuples consumed by `[f(a, b) for a, b in gen]`)
    if it[0] == "comp" and not it[4] and len(it[3]) >= 1 and all(i[0] not in ("spread", "kv", "kadd") for i in it[3]) and not has(items, "idx") and not has(conds, "idx") and all(i[0] not in ("spread", "kv", "kadd") for i in items):
        def sub_in(v, repl):
            if isinstance(v, tuple) and v:
                if v[0] == "bv" and v[1] == d:
                    out = repl
                    for i in v[2:]:
                        out = mk_sub(out, C(i))
                    return out
                if v[0] in ("comp", "fold") and v[1] == d:
                    return v
                new = tuple(sub_in(x, repl) for x in v)
                return renorm(new) if new != v else v
            return v

        new_items = []
        for inner in it[3]:
            cond_i = C(True)
            val = inner
            while val[0] == "when":
                cond_i = mk_and(cond_i, val[1])
                val = val[2]
            val_r = rename_binder(val, it[1], d)
            cond_r = rename_binder(cond_i, it[1], d)
            for oi in items:
                oc = cond_r
                while oi[0] == "when":
                    oc = mk_and(oc, sub_in(oi[1], val_r))
                    oi = oi[2]
                for c_ in conds:
                    oc = mk_and(oc, sub_in(c_, val_r))
                o = sub_in(oi, val_r)
                new_items.append(o if oc == C(True) else ("when", oc, o))
        return mk_comp(d, it[2], tuple(new_items), ())
    if len(items) == 1 and items[0][0] == "when":
        allc = items[0][1]
        for c_ in conds:
            allc = mk_and(allc, c_)
        conds = (allc,)
        items = (items[0][2],)
    if it[0] == "c" and isinstance(it[1], (tuple, str)):
        it = ("list", tuple(C(x) for x in it[1]))
    if it[0] == "list" and not any(i[0] in ("spread", "when") for i in it[1]) and len(it[1]) <= 12:
        # a loop over a known sequence is unrolled
        out = []
        for k, elem in enumerate(it[1]):
            cs = [subst_bv(c, d, elem, k) for c in conds]
            if any(c == C(False) for c in cs):
                continue
            cs = [c for c in cs if c != C(True)]
            for i in items:
                x = subst_bv(i, d, elem, k)
                for c in cs:
                    x = ("when", c, x)
                out.append(x)
        return mk_list(out)
    # a comprehension over a known list of constants with no dependence on the element is left as is
    return ("comp", d, it, items, tuple(conds))


def mk_fold(d, it, init, body):
    """fold over range(a, len(X[s:]), step) reading X[s:][i + c]  ==  fold over range(a + s, len(X), step) reading
    X[i + c]  (a, s >= 0: both ranges are empty together, and the i-th element of a tail is the (i+s)-th element)"""
    if it[0] == "call" and it[1] == "range" and len(it[2]) in (2, 3) and not it[3]:
        a, stop = it[2][0], it[2][1]
        if a[0] == "c" and isinstance(a[1], int) and a[1] >= 0 and stop[0] == "call" and stop[1] == "len" and len(stop[2]) == 1:
            sl = stop[2][0]
            if sl[0] == "slice" and len(sl) == 4 and sl[2][0] == "c" and isinstance(sl[2][1], int) and sl[2][1] >= 0 and sl[3] == NONE:
                X, s_ = sl[1], sl[2][1]
                bv = ("bv", d)
                ok = [True]

                def rw(v):
                    if not isinstance(v, tuple) or not v:
                        return v
                    if v[0] == "sub" and len(v) == 3 and v[1] == sl:
                        k = v[2]
                        if k == bv or (k[0] == "op" and k[1] == "+" and k[2] == bv and k[3][0] == "c" and isinstance(k[3][1], int) and k[3][1] >= 0):
                            return ("sub", X, k)
                    if v == bv or v == sl:
                        ok[0] = False
                        return v
                    if isinstance(v[0], str):
                        return (v[0],) + tuple(rw(x) if isinstance(x, tuple) else x for x in v[1:])
                    return tuple(rw(x) if isinstance(x, tuple) else x for x in v)

                nb = rw(body)
                if ok[0] and not _has_term(init, sl):
                    it = ("call", "range", (C(a[1] + s_), ("call", "len", (X,), ())) + tuple(it[2][2:]), ())
                    body = nb
    return ("fold", d, it, init, body)


def _has_term(v, t) -> bool:
    if v == t:
        return True
    return isinstance(v, tuple) and any(_has_term(x, t) for x in v if isinstance(x, tuple))


def concat_parts(v) -> list:
    """The sequences a value concatenates, in order: a + b, (*a, *b), [*a, *b], itertools.chain(a, b), tuple(...) /
    list(...) of one of those; a value that is no concatenation is its own single part."""
    v = _unwrap_seq(v)
    if v[0] == "op" and v[1] == "+":
        return concat_parts(v[2]) + concat_parts(v[3])
    if v[0] == "list" and v[1] and all(i[0] == "spread" for i in v[1]):
        return [p for i in v[1] for p in concat_parts(i[1])]
    if v[0] == "call" and v[1].split(".")[-1] == "chain" and v[2] and not v[3]:
        return [p for a in v[2] for p in concat_parts(a)]
    if v[0] == "call" and v[1] in ("tuple", "list") and len(v[2]) == 1 and not v[3]:
        return concat_parts(v[2][0])
    return [v]


def mk_join(sep, seq):
    if seq[0] == "c" and isinstance(seq[1], (tuple, list)) and all(isinstance(x, str) for x in seq[1]):
        seq = ("list", tuple(C(x) for x in seq[1]))
    if seq[0] == "list" and not any(i[0] in ("spread", "when") for i in seq[1]):
        parts = []
        for k, it in enumerate(seq[1]):
            if k:
                parts.extend(s_parts(sep))
            parts.extend(s_parts(it))
        return mk_s(parts)
    if seq[0] == "list" and sep == EMPTY:
        parts = []
        for it in seq[1]:
            if it[0] == "spread":
                parts.append(("h", ("join", EMPTY, it[1])))
            elif it[0] == "when":
                parts.append(("h", ("if", it[1], it[2], EMPTY)))
            else:
                parts.extend(s_parts(it))
        return mk_s(parts)
    return ("join", sep, seq)


def mk_not(v):
    if v[0] == "not":
        return v[1]
    if v[0] == "if" and all(x[0] in ("c", "cmp", "not", "bool", "if") or (x[0] == "call" and x[1] in ("any", "all", "isinstance")) for x in (v[2], v[3])):
        return mk_if(v[1], mk_not(v[2]), mk_not(v[3]))
    if v[0] == "call" and v[1] in ("any", "all") and len(v[2]) == 1 and v[2][0][0] == "comp" and len(v[2][0][3]) == 1:
        cp = v[2][0]
        return ("call", "all" if v[1] == "any" else "any", (("comp", cp[1], cp[2], (mk_not(cp[3][0]),), cp[4]),), ())
    if v[0] == "c":
        return C(not v[1])
    if v[0] == "cmp":
        inv = {"==": "!=", "!=": "==", "is": "is not", "is not": "is", "in": "not in", "not in": "in", "<": ">=", ">=": "<", ">": "<=", "<=": ">"}
        return ("cmp", inv[v[1]], v[2], v[3])
    return ("not", v)


NEG_OPS = {"!=", "is not", "not in"}


def assume(v, cond, truth: bool, boolean: bool = False):
    """v under the assumption that `cond` is `truth`.  Only occurrences of `cond` in *boolean positions* (test of a
    conditional, operand of not / and, filter of a comprehension, guard of an item) are replaced - the same term
    used as data (a sequence tested for emptiness and then iterated) is left alone."""
    if not isinstance(v, tuple) or not v or cond[0] == "c":
        return v
    if boolean and v == cond:
        return C(truth)
    t = v[0]
    if t == "if":
        c = assume(v[1], cond, truth, True)
        if c == C(True):
            return assume(v[2], cond, truth, boolean)
        if c == C(False):
            return assume(v[3], cond, truth, boolean)
        new = ("if", c, assume(v[2], cond, truth, boolean), assume(v[3], cond, truth, boolean))
    elif t == "not":
        new = ("not", assume(v[1], cond, truth, True))
    elif t == "bool":
        new = ("bool", v[1], tuple(assume(x, cond, truth, True) for x in v[2]))
    elif t == "when":
        new = ("when", assume(v[1], cond, truth, True), assume(v[2], cond, truth, False))
    elif t == "comp" and len(v) == 5:
        new = ("comp", v[1], assume(v[2], cond, truth, False), tuple(assume(x, cond, truth, False) for x in v[3]), tuple(assume(x, cond, truth, True) for x in v[4]))
    else:
        new = tuple(assume(x, cond, truth, False) if isinstance(x, tuple) else x for x in v)
    return renorm_deep(new) if new != v else v


def renorm_deep(v):
    """re-apply the constructors bottom-up (after a substitution that made parts constant)"""
    if not isinstance(v, tuple) or not v:
        return v
    if not isinstance(v[0], str):
        return tuple(renorm_deep(x) if isinstance(x, tuple) else x for x in v)
    if v[0] in ("c", "sym", "bv", "enum", "idx", "acc", "first", "lit", "unk", "fn"):
        return v
    v = (v[0],) + tuple(renorm_deep(x) if isinstance(x, tuple) else x for x in v[1:])
    if v[0] == "bool" and v[1] in ("and", "or"):
        out = C(v[1] == "and")
        for x in v[2]:
            out = mk_and(out, x) if v[1] == "and" else mk_or(out, x)
        return out
    return renorm(v)


def mk_if(cond, a, b):
    if cond[0] == "c":
        return a if cond[1] else b
    if a == b:
        return a
    a2, b2 = assume(a, cond, True, False), assume(b, cond, False, False)
    if a2 != a or b2 != b:
        return mk_if(cond, a2, b2)
    # canonical polarity: positive comparison first
    if cond[0] == "not":
        return mk_if(cond[1], b, a)
    if cond[0] == "cmp" and cond[1] in NEG_OPS:
        return mk_if(mk_not(cond), b, a)
    if cond[0] == "call" and cond[1] == "all" and len(cond[2]) == 1 and cond[2][0][0] == "comp" and len(cond[2][0][3]) == 1:
        it_ = cond[2][0][3][0]
        if it_[0] == "not" or (it_[0] == "cmp" and it_[1] in NEG_OPS):
            return mk_if(mk_not(cond), b, a)  # all(not p) as a condition is written not any(p)
    # inside the true branch of `X == <constant>` X is that constant
    eqs = [c for c in ((cond[2] if cond[0] == "bool" and cond[1] == "and" else (cond,))) if c[0] == "cmp" and c[1] == "==" and c[3][0] == "c" and c[2][0] in ("sym", "attr")]
    if eqs:
        a2 = subst(a, {c[2]: c[3] for c in eqs})
        if a2 != a:
            return mk_if(cond, a2, b) if a2 != b else a2
    # boolean-valued conditional expression
    if a == C(True) and b == C(False):
        return cond
    if a == C(False) and b == C(True):
        return mk_not(cond)
    # all(f(x) for x in P) is True for an empty P
    if a == C(True) and cond[0] == "not" and b[0] == "call" and b[1] == "all" and len(b[2]) == 1 and b[2][0][0] == "comp" and b[2][0][2] == _unwrap_seq(cond[1]):
        return b
    if b == C(True) and a[0] == "call" and a[1] == "all" and len(a[2]) == 1 and a[2][0][0] == "comp" and a[2][0][2] == _unwrap_seq(cond):
        return a
    # if A: (x if B else y) else y  ==  x if (A and B) else y
    if a[0] == "if" and a[3] == b:
        return mk_if(mk_and(cond, a[1]), a[2], b)
    return ("if", cond, a, b)


def mk_anyall(name: str, seq):
    """any(...) / all(...) over a comprehension; nested any-of-any is flattened"""
    seq = _unwrap_seq(seq)
    if seq[0] == "comp" and len(seq[3]) == 1 and not seq[4]:
        it_ = seq[3][0]
        if it_[0] == "call" and it_[1] == name and len(it_[2]) == 1 and _unwrap_seq(it_[2][0])[0] == "comp":
            seq = ("comp", seq[1], seq[2], (("spread", _unwrap_seq(it_[2][0])),), ())
    return ("call", name, (seq,), ())


def mk_or(a, b):
    return mk_not(mk_and(mk_not(a), mk_not(b)))


def _fold_or(cs):
    out = cs[0]
    for c in cs[1:]:
        out = mk_or(out, c)
    return out


def mk_and(a, b):
    if a == C(True):
        return b
    if b == C(True):
        return a
    if a == C(False) or b == C(False):
        return C(False)
    items = []
    for v in (a, b):
        if v[0] == "bool" and v[1] == "and":
            items.extend(v[2])
        else:
            items.append(v)
    uniq = []
    for v in items:
        if v not in uniq:
            uniq.append(v)
    uniq.sort(key=repr)
    if len(uniq) == 1:
        return uniq[0]
    return ("bool", "and", tuple(uniq))


def _attr_path(t):
    """('bv', d) .a.b.name -> (('bv', d), ('a', 'b', 'name')); None when t is not an attribute chain"""
    path = []
    while isinstance(t, tuple) and t and t[0] == "attr":
        path.append(t[2])
        t = t[1]
    return (t, tuple(reversed(path))) if path else None


def _keyed_table(b):
    """b is {key(y): value(y) for y in <a collection of the model's atoms> if c(y)} with key(y) an attribute chain of y
    that ends in `.name` -> (binder, key path, value, conditions); else None.  Names are unique within a model (C08), so
    such a table is a function of the atom."""
    b = _unwrap_seq(b)
    if b[0] != "comp" or len(b[3]) != 1 or b[3][0][0] != "kv":
        return None
    kp = _attr_path(b[3][0][1])
    if kp is None or kp[0] != ("bv", b[1]) or kp[1][-1] != "name":
        return None
    src = show(b[2])
    if not any(w in src for w in ("sorted_assignments", ".states", ".state_derivatives", ".intermediates", ".parameters", ".assignments")):
        return None
    if has(b[3][0], "idx") or has(b[4], "idx"):
        return None
    return b[1], kp[1], b[3][0][2], b[4]


def _lookup_in_table(key, table):
    """key is <atom>.<same path>: (conditions at that atom, value at that atom), else None"""
    kt = _keyed_table(table)
    kp = _attr_path(key)
    if kt is None or kp is None or kp[1] != kt[1] or kp[0][0] not in ("bv", "sym"):
        return None
    d2, _path, val, conds = kt
    atom = kp[0]

    def sub(v):
        if isinstance(v, tuple) and v:
            if v[0] == "bv" and v[1] == d2:
                out = atom
                for i in v[2:]:
                    out = mk_sub(out, C(i))
                return out
            if v[0] in ("comp", "fold") and v[1] == d2:
                return v
            new = tuple(sub(x) for x in v)
            return renorm(new) if new != v else v
        return v

    c_all = C(True)
    for c_ in conds:
        c_all = mk_and(c_all, sub(c_))
    return c_all, sub(val)


IMPORTED_MODULES: set = set()


def mk_cmp(op, a, b):
    if op in ("is", "is not", "==", "!=") and b == NONE and a[0] == "sym" and a[1] in IMPORTED_MODULES:
        return C(op in ("is not", "!="))
    if op in ("in", "not in"):
        hit = _lookup_in_table(a, b)
        if hit is not None:
            return hit[0] if op == "in" else mk_not(hit[0])
    # == and != are symmetric: constants to the right, otherwise a fixed order
    if op in ("==", "!=") and a[0] != "enum" and b[0] != "enum":
        if (a[0] == "c" and b[0] != "c") or (a[0] != "c" and b[0] != "c" and repr(b) < repr(a) and not (has(a, "bv") or has(b, "bv") or has(a, "idx") or has(b, "idx"))):
            a, b = b, a
    # a member of an Enum class supplied by a rule against a member spelled in the code / a constant (str-valued enums)
    if op in ("==", "!=", "is", "is not") and (a[0] == "enum" or b[0] == "enum"):
        e, o = (a, b) if a[0] == "enum" else (b, a)
        same = None
        if o[0] == "enum":
            same = e[1:3] == o[1:3]
        elif o[0] == "sym" and o[1].startswith(e[1] + ".") and o[1].count(".") == 1:
            same = o[1].split(".")[1] == e[2]
        elif o[0] == "c" and op in ("==", "!="):
            same = o[1] == e[3]
        if same is not None:
            return C(same if op in ("==", "is") else not same)
    if a[0] == "c" and b[0] == "c":
        x, y = a[1], b[1]
        try:
            if op == "==":
                return C(x == y)
            if op == "!=":
                return C(x != y)
            if op == "is":
                return C(x is y or x == y)
            if op == "is not":
                return C(not (x is y or x == y))
            if op == "in":
                return C(x in y)
            if op == "not in":
                return C(x not in y)
            if op == "<":
                return C(x < y)
            if op == "<=":
                return C(x <= y)
            if op == ">":
                return C(x > y)
            if op == ">=":
                return C(x >= y)
        except Exception:
            pass
    if op in ("is", "is not", "==", "!=") and b == NONE and a[0] in ("s", "list", "dict", "fn", "comp", "join"):
        return C(op in ("is not", "!="))
    if op in ("in", "not in") and a[0] == "c" and b[0] == "list" and all(i[0] == "c" for i in b[1]):
        r = any(i == a for i in b[1])
        return C(r if op == "in" else not r)
    if op in ("in", "not in") and a[0] == "c" and b[0] == "dict" and all(k[0] == "c" for k, _ in b[1]):
        r = any(k == a for k, _ in b[1])
        return C(r if op == "in" else not r)
    if op in ("in", "not in"):
        # membership in set(U) / frozenset(U) / list(U) is membership in U; membership distributes over a conditional
        while b[0] == "call" and b[1] in ("set", "frozenset", "list", "tuple") and len(b[2]) == 1 and not b[3]:
            b = _unwrap_seq(b[2][0])
        b = _unwrap_seq(b)
        if (b[0] == "call" and b[1] in ("set", "frozenset", "list", "tuple", "dict") and not b[2] and not b[3]) or b in (("list", ()), ("dict", ())):
            return C(op == "not in")
        if b[0] == "if":
            return mk_if(b[1], mk_cmp(op, a, b[2]), mk_cmp(op, a, b[3]))
        if b[0] == "mcall" and b[2] == "keys" and not b[3]:
            b = b[1]
        parts = None
        if b[0] == "op" and b[1] == "|":
            parts = [mk_cmp("in", a, b[2]), mk_cmp("in", a, b[3])]
        elif b[0] == "list" and b[1] and (any(i[0] == "spread" for i in b[1]) or (len(b[1]) <= 4 and a[0] != "c")) and not any(i[0] == "when" for i in b[1]):
            parts = [mk_cmp("in", a, i[1]) if i[0] == "spread" else mk_cmp("==", a, i) for i in b[1]]
        if parts is not None:
            r = parts[0]
            for q in parts[1:]:
                r = mk_or(r, q)
            return r if op == "in" else mk_not(r)
    if b == NONE and op in ("is", "is not", "==", "!="):
        if a[0] == "if":
            return mk_if(a[1], mk_cmp(op, a[2], b), mk_cmp(op, a[3], b))
        # an element selected by a test on one of its attributes is an object, not None
        if a[0] == "sub" and a[1][0] == "comp" and a[1][4] and has(a[1][4], "attr") and a[1][3] == (("bv", a[1][1]),):
            return C(op in ("is not", "!="))
    # D.get(k) is None  (written D[k] here)  is  k not in D
    if b == NONE and op in ("is", "is not", "==", "!=") and a[0] == "sub" and a[1][0] in ("sym", "attr"):
        return mk_cmp("not in" if op in ("is", "==") else "in", a[2], a[1])
    # a regular-expression match object is falsy exactly when it is None
    if b == NONE and op in ("is", "is not", "==", "!=") and a[0] == "mcall" and a[2] in ("match", "search", "fullmatch"):
        return a if op in ("is not", "!=") else mk_not(a)
    # emptiness tests
    if a[0] == "call" and a[1] == "len" and len(a[2]) == 1 and b == C(0):
        if op == "==":
            return mk_not(a[2][0])
        if op in ("!=", ">"):
            return a[2][0]
    # position tests of an enumerate counter
    if a[0] == "idx" and b[0] == "c" and a[2] == b and op in ("==", "!="):
        f = ("first", a[1])
        return f if op == "==" else ("not", f)
    if a[0] == "idx" and b[0] == "c" and isinstance(b[1], int) and a[2][0] == "c" and op in (">", "<=") and a[2][1] == b[1]:
        f = ("first", a[1])
        return ("not", f) if op == ">" else f
    if op in ("==", "!=", "is", "is not") and a[0] == "c" and b[0] != "c":
        a, b = b, a
    return ("cmp", op, a, b)


def format_value(recv, args, kw):
    """str.format on a skeleton: named / positional fields are substituted, {{ }} unescaped."""
    parts = []
    auto = 0
    for p in s_parts(recv):
        if p[0] != "lit":
            parts.append(p)
            continue
        try:
            fields = list(string.Formatter().parse(p[1]))
        except ValueError:
            return unk("format string not parsed")
        for lit, field, spec, conv in fields:
            if lit:
                parts.append(("lit", lit))
            if field is None:
                continue
            if field == "":
                field = str(auto)
                auto += 1
            head = field.split(".")[0].split("[")[0]
            spread_at = next((i for i, a_ in enumerate(args) if a_[0] == "spread"), None)
            if head.isdigit() and spread_at is not None and int(head) >= spread_at:
                # "...".format(a, *seq): the fields from the star on are the elements of seq
                if spread_at != len(args) - 1:
                    return unk("format with a starred argument that is not the last one")
                v = mk_sub(args[spread_at][1], C(int(head) - spread_at))
            elif head.isdigit() and int(head) < len(args):
                v = args[int(head)]
            elif head in kw:
                v = kw[head]
            elif "**" in kw:
                v = mk_sub(kw["**"], C(head))
            else:
                return unk(f"format field {field} not supplied")
            if field != head:
                v = ("call", "field", (v, C(field[len(head):])), ())
            if spec or conv:
                v = ("call", "format", (v, C(f"{conv or ''}:{spec or ''}")), ())
            parts.append(("h", v))
    return mk_s(parts)



def renorm(v):
    """Re-apply the constructors after a substitution."""
    if not isinstance(v, tuple) or not v:
        return v
    t = v[0]
    if t == "s":
        return mk_s(v[1])
    if t == "list":
        return mk_list(v[1])
    if t == "join":
        return mk_join(v[1], v[2])
    if t == "if":
        return mk_if(v[1], v[2], v[3])
    if t == "cmp":
        return mk_cmp(v[1], v[2], v[3])
    if t == "not":
        return mk_not(v[1])
    if t == "sub":
        return mk_sub(v[1], v[2])
    if t == "vcall":
        return mk_vcall(v[1], v[2], v[3])
    if t == "attr" and v[1][0] in ("enum", "sym"):
        return _attr(v[1], v[2])
    if t == "mcall" and v[2] == "format" and _is_str(v[1]) and (v[1][0] == "c" or v[1][0] == "s"):
        return format_value(v[1], v[3], dict(v[4]))
    if t == "bool" and v[1] in ("and", "or") and any(x[0] == "c" for x in v[2]):
        out = C(v[1] == "and")
        for x in v[2]:
            out = mk_and(out, x) if v[1] == "and" else mk_or(out, x)
        return out
    return v


def mk_vcall(target, args, kwargs):
    """call of a value: a bound method becomes a method call, a dotted name a call by name"""
    if target[0] == "raise":
        return target  # evaluating the callee raises: there is no call
    if target[0] == "if" and (target[2][0] == "raise" or target[3][0] == "raise"):
        return mk_if(target[1], mk_vcall(target[2], args, kwargs), mk_vcall(target[3], args, kwargs))
    if target[0] == "attr":
        return ("mcall", target[1], target[2], tuple(args), tuple(kwargs))
    if target[0] == "sym":
        head, _, meth = target[1].rpartition(".")
        if head:
            return ("mcall", ("sym", head), meth, tuple(args), tuple(kwargs))
        return ("call", target[1], tuple(args), tuple(kwargs))
    return ("vcall", target, tuple(args), tuple(kwargs))


def mk_sub(base, key):
    # (A if c else B)[k] is (A[k] if c else B[k]) when both branches are literal lists / tuples / dicts (a helper that
    # returns a pair on each path, unpacked by its caller)
    if base[0] == "if" and len(base) == 4 and key[0] == "c" and all(b_[0] in ("list", "dict", "if") for b_ in base[2:4]):
        a_, b_ = mk_sub(base[2], key), mk_sub(base[3], key)
        if not (a_[0] == "sub" and a_[1] == base[2]) and not (b_[0] == "sub" and b_[1] == base[3]):
            return ("if", base[1], a_, b_)
    hit_ = _lookup_in_table(key, base) if base[0] in ("comp", "call") else None
    if hit_ is not None:
        return hit_[1]  # the entry exists on the paths that get here (the membership test guards the lookup)
    # a table keyed by the members of an Enum class, subscripted with a member supplied by a rule
    if base[0] == "dict" and key[0] == "enum" and base[1] and all(isinstance(kv, tuple) and len(kv) == 2 and kv[0][0] == "sym" and kv[0][1].startswith(key[1] + ".") for kv in base[1]):
        for k_, v_ in base[1]:
            if k_[1] == f"{key[1]}.{key[2]}":
                return v_
        return ("raise", "KeyError")
    # X[a:][k] is X[a + k] (a, k >= 0)
    if base[0] == "slice" and len(base) == 4 and base[3] == NONE and base[2][0] == "c" and isinstance(base[2][1], int) and base[2][1] >= 0 and key[0] == "c" and isinstance(key[1], int) and not isinstance(key[1], bool) and key[1] >= 0:
        return mk_sub(base[1], C(base[2][1] + key[1]))
    # <f(x) for x in X>[k] is f(X[k]) for an unfiltered one-item comprehension
    if base[0] == "comp" and key[0] == "c" and isinstance(key[1], int) and not base[4] and len(base[3]) == 1 and base[3][0][0] not in ("spread", "when") and (key[1] >= 0 or not has(base[3][0], "idx")) and not has(base[3][0], "first") and not has(base[3][0], "cidx"):
        return subst_bv(base[3][0], base[1], mk_sub(base[2], key), key[1])
    # match.groupdict()[name] is match.group(name)
    if base[0] == "mcall" and base[2] == "groupdict" and not base[3] and key[0] == "c":
        return ("mcall", base[1], "group", (key,), ())
    if base[0] == "dict" and key[0] in ("c", "sym"):
        for k, val in base[1]:
            if k == key:
                return val
        if key[0] == "c" and all(k[0] == "c" for k, _ in base[1]):
            return ("raise", "KeyError")
    if base[0] == "list" and key[0] == "c" and isinstance(key[1], int) and not any(i[0] in ("spread", "when") for i in base[1]):
        try:
            return base[1][key[1]]
        except IndexError:
            return ("raise", "IndexError")
    if base[0] == "c" and key[0] == "c":
        try:
            return C(base[1][key[1]])
        except Exception:
            return unk("constant subscript")
    return ("sub", base, key)


# --------------------------------------------------------------------------------------------------------
# rendering (for messages and for comparing projections as text)


def show(v, top=True) -> str:
    if not isinstance(v, tuple) or not v:
        return repr(v)
    t = v[0]
    if t == "c":
        return repr(v[1])
    if t == "sym":
        return v[1]
    if t == "bv":
        return "$" + str(v[1]) + "".join(f".{i}" for i in v[2:])
    if t == "idx":
        return f"#{v[1]}" + ("" if v[2] == C(0) else f"+{show(v[2])}")
    if t == "first":
        return f"first${v[1]}"
    if t == "enum":
        return f"{v[1]}.{v[2]}"
    if t == "cidx":
        return f"#{v[1]}|{show(v[3])}" + ("" if v[2] == C(0) else f"+{show(v[2])}")
    if t == "acc":
        return f"acc${v[1]}"
    if t == "s":
        return "«" + "".join(p[1] if p[0] == "lit" else "{" + show(p[1]) + "}" for p in v[1]) + "»"
    if t == "join":
        return f"join({show(v[1])}, {show(v[2])})"
    if t == "list":
        return "[" + ", ".join(show(i) for i in v[1]) + "]"
    if t == "spread":
        return "*" + show(v[1])
    if t == "when":
        return f"({show(v[2])} when {show(v[1])})"
    if t == "obj":
        return f"<new {show(v[1])}>"
    if t == "ev":
        a = [show(x) for x in v[2]] + [f"{k}={show(x)}" for k, x in v[3]]
        return f".{v[1]}({', '.join(a)})"
    if t == "kv":
        return f"{show(v[1])}: {show(v[2])}"
    if t == "kadd":
        return f"{show(v[1])} +: {show(v[2])}"
    if t == "dict":
        return "{" + ", ".join(f"{show(k)}: {show(x)}" for k, x in v[1]) + "}"
    if t == "comp":
        cs = "".join(f" if {show(c)}" for c in v[4])
        return f"<{', '.join(show(i) for i in v[3])} for ${v[1]} in {show(v[2])}{cs}>"
    if t == "fold":
        return f"fold(${v[1]} in {show(v[2])}; init={show(v[3])}; {show(v[4])})"
    if t == "if":
        return f"({show(v[2])} if {show(v[1])} else {show(v[3])})"
    if t == "call":
        a = [show(x) for x in v[2]] + [f"{k}={show(x)}" for k, x in v[3]]
        return f"{v[1]}({', '.join(a)})"
    if t == "mcall":
        a = [show(x) for x in v[3]] + [f"{k}={show(x)}" for k, x in v[4]]
        return f"{show(v[1])}.{v[2]}({', '.join(a)})"
    if t == "vcall":
        a = [show(x) for x in v[2]] + [f"{k}={show(x)}" for k, x in v[3]]
        return f"({show(v[1])})({', '.join(a)})"
    if t == "attr":
        return f"{show(v[1])}.{v[2]}"
    if t == "sub":
        return f"{show(v[1])}[{show(v[2])}]"
    if t == "slice":
        return f"{show(v[1])}[{'' if v[2] == NONE else show(v[2])}:{'' if v[3] == NONE else show(v[3])}]"
    if t == "op":
        return f"({show(v[2])} {v[1]} {show(v[3])})"
    if t == "cmp":
        return f"({show(v[2])} {v[1]} {show(v[3])})"
    if t == "not":
        return f"not {show(v[1])}"
    if t == "bool":
        return "(" + f" {v[1]} ".join(show(x) for x in v[2]) + ")"
    if t == "raise":
        return f"raise {v[1]}"
    if t == "unk":
        return f"?{v[1]}?"
    if t == "fn":
        return "<function>"
    return repr(v)


# --------------------------------------------------------------------------------------------------------


class _Return(Exception):
    pass


class Frame:
    def __init__(self, func: Func | None, rel: str, env: dict, depth: int, binder: int):
        self.func = func
        self.rel = rel
        self.env = env
        self.depth = depth
        self.binder = binder
        self.returns: list = []  # (value) collected along the single abstract path; conditionals merge
        self.calls: list = []  # every call evaluated: (node, value)


OPS = {ast.Add: "+", ast.Sub: "-", ast.Mult: "*", ast.Div: "/", ast.Mod: "%", ast.Pow: "**", ast.FloorDiv: "//", ast.BitOr: "|", ast.BitAnd: "&"}
CMPS = {ast.Eq: "==", ast.NotEq: "!=", ast.Is: "is", ast.IsNot: "is not", ast.In: "in", ast.NotIn: "not in", ast.Lt: "<", ast.LtE: "<=", ast.Gt: ">", ast.GtE: ">="}
TRANSPARENT = {"str", "list", "tuple", "iter"}
MUTATING = {"append", "extend", "add", "insert", "update", "pop", "remove", "clear", "sort", "reverse", "setdefault", "discard", "popitem"}
IGNORED_CALLS = ("logger.", "logging.", "print", "warnings.")


class AV:
    def __init__(self, sm: SourceModel, inline=None, opaque=(), receivers=None, cha: bool = False):
        """``inline(callee: Func) -> bool`` decides which resolved callees are expanded (default: private helpers,
        nested functions, lambdas).  ``opaque``: dotted names never expanded."""
        self.sm = sm
        self.inline = inline or self.default_inline
        self.opaque = set(opaque)
        # {text of a receiver value: class of the package}: method calls on such a value resolve into that class
        self.receivers = dict(receivers or {})
        # class-hierarchy resolution: a method name defined by exactly one class of the package is that method,
        # whatever the receiver (used only for second-chance comparisons with everything expanded)
        self.cha = cha
        self._modenv: dict[str, dict] = {}
        self.call_log: list = []  # (caller Func, call node, value) for every opaque call met (in order)
        self._budget = 200000
        self._imp: dict = {}
        self._nt = None
        self._inst: dict = {}
        self.nt_of: dict = {}
        self.get_log: list = []  # D.get(k) lookups read as D[k] (key present); a rule that cares asks here
        self.handler_log: list = []  # handlers that translate an exception into another one
        self.attr_stores: list = []  # (function, value of the object, attribute, value stored, node)

    @staticmethod
    def default_inline(callee: Func) -> bool:
        n = callee.name
        if (n.startswith("_") and not n.startswith("__") and n not in NO_INLINE and not (n.startswith("_print_") and n[7:8].isupper())) or "<locals>" in callee.qualname:
            return True
        # a module-level function the vetted tree does not have is helper code a later edit introduced, whatever its
        # name: it is read where it is called, like a private helper
        if "." not in callee.qualname and not n.startswith("__"):
            try:
                from . import alpha

                mods = alpha.table().get("modules", {})
                known = mods.get(callee.rel)
                if known is not None and n not in known and n not in NO_INLINE:
                    return True
            except Exception:
                pass
        return False

    # -- entry points ---------------------------------------------------------------------------------
    def function(self, f: Func, args: dict | None = None, want_env: bool = False):
        """Value returned by ``f`` with parameters bound to ('sym', name) (or to ``args``)."""
        env = {}
        a = f.node.args
        params = [x.arg for x in a.posonlyargs + a.args + a.kwonlyargs]
        for p in params:
            env[p] = ("sym", p)
        if a.vararg:
            env[a.vararg.arg] = ("sym", "*" + a.vararg.arg)
        if a.kwarg:
            env[a.kwarg.arg] = ("sym", "**" + a.kwarg.arg)
        env.update(args or {})
        self._closure_bindings(f, env)
        fr = Frame(f, f.rel, env, 0, 0)
        val = self._finish(self._body(f.node.body, fr), fr)
        if want_env:
            return val, fr.env
        return val

    def _closure_bindings(self, f: Func, env: dict):
        # a nested function sees the simple bindings of the function around it (a table of handlers, a named constant):
        # the literal dicts / tuples / constants that function assigns once at its top level
        if "." in f.qualname:
            outer = self.sm.funcs.get((f.rel, f.qualname.rsplit(".", 1)[0]))
            if outer is not None:
                ofr = Frame(outer, outer.rel, {x.arg: ("sym", x.arg) for x in outer.node.args.posonlyargs + outer.node.args.args + outer.node.args.kwonlyargs}, 0, 0)
                # sibling closures are callable values (the function under analysis itself stays a name: its calls are
                # the recursion the rules look for)
                for st in outer.node.body:
                    if isinstance(st, ast.FunctionDef) and st.name != f.name and st.name not in env:
                        ofr.env[st.name] = ("fn", _Closure(st, ofr.env, outer.rel, outer))
                for st in outer.node.body:
                    if isinstance(st, ast.Assign) and len(st.targets) == 1 and isinstance(st.targets[0], ast.Name) and isinstance(st.value, (ast.Dict, ast.Tuple, ast.List, ast.Constant)) and st.targets[0].id not in env:
                        n_binds = sum(1 for s2 in ast.walk(outer.node) if isinstance(s2, ast.Name) and isinstance(s2.ctx, ast.Store) and s2.id == st.targets[0].id)
                        if n_binds == 1:
                            try:
                                env[st.targets[0].id] = self._ev(st.value, ofr)
                            except Exception:
                                pass

    def expr(self, src_or_node, env: dict | None = None, rel: str | None = None, func: Func | None = None):
        node = ast.parse(src_or_node, mode="eval").body if isinstance(src_or_node, str) else src_or_node
        fr = Frame(func, rel or (func.rel if func else ""), dict(env or {}), 0, 0)
        return self._ev(node, fr)

    # -- statements -----------------------------------------------------------------------------------
    def _body(self, stmts, fr: Frame):
        """Value returned by a block (``_FALL`` when it completes normally)."""
        return self._run(list(stmts), fr, ())

    def _run(self, stmts, fr: Frame, cont):
        """Evaluate ``stmts`` and then the continuation blocks ``cont``.  A conditional that contains an exit forks
        the evaluation (each branch runs the rest of the function in its own environment); other conditionals
        merge their environments."""
        self._budget -= 1
        if self._budget < 0:
            return unk("evaluation budget exhausted")
        for i, st in enumerate(stmts):
            rest = stmts[i + 1:]
            if isinstance(st, ast.Return):
                return self._ev(st.value, fr) if st.value is not None else NONE
            if isinstance(st, ast.Raise):
                name = "Exception"
                if st.exc is not None:
                    e = st.exc.func if isinstance(st.exc, ast.Call) else st.exc
                    name = (dotted(e) or "Exception").split(".")[-1]
                return ("raise", name)
            if isinstance(st, ast.If):
                cond = self._cond(st.test, fr)
                if cond[0] == "c":
                    return self._run(list(st.body if cond[1] else st.orelse) + rest, fr, cont)
                if _has_exit(st):
                    f1 = Frame(fr.func, fr.rel, dict(fr.env), fr.depth, fr.binder)
                    f2 = Frame(fr.func, fr.rel, dict(fr.env), fr.depth, fr.binder)
                    r1 = self._run(list(st.body) + rest, f1, cont)
                    r2 = self._run(list(st.orelse) + rest, f2, cont)
                    soft = (_FALL, _CONT)
                    s1 = any(r1 is x for x in soft)
                    s2 = any(r2 is x for x in soft)
                    if s1 and s2:
                        # both branches reach the end of this iteration / block: merge what they did
                        self._phi(cond, f1.env, f2.env, fr)
                        return _CONT if (r1 is _CONT and r2 is _CONT) else _FALL
                    marks = (_FALL, _CONT, _BREAK, _MIXED)
                    m1 = any(r1 is x for x in marks)
                    m2 = any(r2 is x for x in marks)
                    if (s1 or s2) and not (m1 and m2):
                        # one branch leaves the function (possibly only under a further condition), the other
                        # completes the block: a partial return
                        rv, rs = (r2, r1) if s1 else (r1, r2)
                        cv = mk_not(cond) if s1 else cond
                        fv, fs = (f2, f1) if s1 else (f1, f2)
                        if rv[0] == "pret":
                            self._phi(cv, fv.env, fs.env, fr)
                            return ("pret", mk_and(cv, rv[1]), rv[2])
                        fr.env.clear()
                        fr.env.update(fs.env)
                        return ("pret", cv, rv)
                    fr.env.clear()
                    fr.env.update(f2.env if (_always_exits(st.body) or any(r1 is x for x in (_BREAK, _MIXED))) else f1.env)
                    if m1 and m2:
                        return _BREAK if (r1 is _BREAK and r2 is _BREAK) else _MIXED
                    if m1 or m2:
                        return unk("a branch of the block exits the function, the other leaves a loop")
                    if r1[0] == "pret" or r2[0] == "pret":
                        p1 = r1 if r1[0] == "pret" else ("pret", C(True), r1)
                        p2 = r2 if r2[0] == "pret" else ("pret", C(True), r2)
                        self._phi(cond, f1.env, f2.env, fr)
                        return ("pret", mk_if(cond, p1[1], p2[1]), p1[2] if p1[2] == p2[2] else mk_if(cond, p1[2], p2[2]))
                    return mk_if(cond, r1, r2)
                self._merge_if(st, cond, fr)
                continue
            if isinstance(st, ast.Break):
                return _BREAK
            if isinstance(st, ast.Continue):
                return _CONT
            if isinstance(st, ast.For):
                has_break = any(isinstance(n, ast.Break) for s_ in st.body for n in walk_no_nested(s_, include_self=True))
                orelse = list(st.orelse)
                r = self._for(st, fr, run_else=has_break)
                if r is not None and r[0] == "pret":
                    rr = self._run(([] if has_break else orelse) + rest, fr, cont)
                    if any(rr is x for x in (_FALL, _CONT, _BREAK, _MIXED)):
                        return r if (rr is _FALL or rr is _CONT) else unk("partial return followed by a loop exit")
                    if rr[0] == "pret":
                        # the earlier partial return wins where both conditions hold
                        return ("pret", mk_or(r[1], rr[1]), r[2] if rr[2] == r[2] else mk_if(r[1], r[2], rr[2]))
                    return mk_if(r[1], r[2], rr)
                if r is not None:
                    return r
                if orelse and not has_break:
                    return self._run(orelse + rest, fr, cont)
                continue
            if isinstance(st, ast.With):
                for it in st.items:
                    if it.optional_vars is not None:
                        self._bind(it.optional_vars, self._ev(it.context_expr, fr), fr)
                return self._run(list(st.body) + rest, fr, cont)
            if isinstance(st, ast.Try) and _is_lookup_guard(st):
                # try: x = D[k]  except KeyError: <exit>   is   if k not in D: <exit>;  x = D[k]
                asg = st.body[0]
                sub_ = asg.value
                test = ast.Compare(left=sub_.slice, ops=[ast.NotIn()], comparators=[sub_.value])
                guard = ast.If(test=test, body=list(st.handlers[0].body), orelse=[])
                ast.copy_location(guard, st)
                ast.fix_missing_locations(guard)
                return self._run([guard] + list(st.body) + list(st.orelse) + rest, fr, cont)
            if isinstance(st, ast.Try):
                r = self._try(st, fr)
                if r is not None and r[0] == "pret":
                    # a handler leaves the function, the guarded body goes on: a partial exit under 'raised(T)'
                    rr = self._run(rest, fr, cont)
                    if any(rr is x for x in (_FALL, _CONT)):
                        return r
                    if any(rr is x for x in (_BREAK, _MIXED)):
                        return unk("handler exit followed by a loop exit")
                    if rr[0] == "pret":
                        return ("pret", mk_or(r[1], rr[1]), r[2] if rr[2] == r[2] else mk_if(r[1], r[2], rr[2]))
                    return mk_if(r[1], r[2], rr)
                if r is not None:
                    return r
                continue
            lifted = self._stmt(st, fr)
            if lifted is not None:
                # the statement raises under a condition (inside an expanded helper): a partial exit
                rr = self._run(rest, fr, cont)
                if any(rr is x for x in (_FALL, _CONT)):
                    return lifted
                if any(rr is x for x in (_BREAK, _MIXED)):
                    return unk("conditional raise followed by a loop exit")
                if rr[0] == "pret":
                    return ("pret", mk_or(lifted[1], rr[1]), lifted[2]) if rr[2] == lifted[2] else mk_if(lifted[1], lifted[2], unk("partial return after a conditional raise"))
                return mk_if(lifted[1], lifted[2], rr)
        if cont:
            return self._run(list(cont[0]), fr, cont[1:])
        return _FALL

    def _stmt(self, st, fr: Frame):
        """Executes a simple statement.  Returns ('pret', cond, ('raise', X)) when an expanded call raises under cond."""
        if isinstance(st, ast.Expr):
            if isinstance(st.value, ast.Constant):
                return
            if isinstance(st.value, (ast.Yield, ast.YieldFrom)) and "<yield>" in fr.env and _is_seq(fr.env["<yield>"]):
                cur = fr.env["<yield>"]
                if isinstance(st.value, ast.Yield):
                    fr.env["<yield>"] = mk_list(_items(cur) + (self._ev(st.value.value, fr) if st.value.value is not None else NONE,))
                else:
                    fr.env["<yield>"] = mk_list(_items(cur) + (("spread", self._ev(st.value.value, fr)),))
                return
            v = self._effect(st.value, fr)
            if isinstance(v, tuple) and has(v, "raise"):
                return _lift_raise(v)[0]
            return
        if isinstance(st, ast.Assign):
            v = self._ev(st.value, fr)
            lifted = None
            if v[0] == "raise" or (has(v, "raise") and v[0] == "if"):
                lifted, v = _lift_raise(v)
            for t in st.targets:
                self._bind(t, v, fr)
            return lifted
        if isinstance(st, ast.AnnAssign):
            if st.value is not None:
                self._bind(st.target, self._ev(st.value, fr), fr)
            return
        if isinstance(st, ast.AugAssign):
            cur = self._ev(_load(st.target), fr)
            new = self._binop(type(st.op), cur, self._ev(st.value, fr))
            self._bind(st.target, new, fr)
            return
        if isinstance(st, ast.While):
            for n in _assigned(st):
                fr.env[n] = unk("assigned in a while loop")
            return
        if isinstance(st, (ast.FunctionDef, ast.AsyncFunctionDef)):
            fr.env[st.name] = ("fn", _Closure(st, fr.env, fr.rel, fr.func))
            return
        if isinstance(st, ast.Import):
            # a module imported inside the function is a module object (never None)
            for al in st.names:
                local = al.asname or al.name.split(".")[0]
                fr.env[local] = ("sym", al.name if al.asname else al.name.split(".")[0])
                IMPORTED_MODULES.add(fr.env[local][1])
            return
        if isinstance(st, (ast.Pass, ast.Import, ast.ImportFrom, ast.Assert, ast.Global, ast.Nonlocal, ast.Delete)):
            return
        for n in _assigned(st):
            fr.env[n] = unk(f"statement {type(st).__name__}")

    def _merge_if(self, st: ast.If, cond, fr: Frame):
        e1, e2 = dict(fr.env), dict(fr.env)
        f1 = Frame(fr.func, fr.rel, e1, fr.depth, fr.binder)
        f2 = Frame(fr.func, fr.rel, e2, fr.depth, fr.binder)
        self._run(list(st.body), f1, ())
        self._run(list(st.orelse), f2, ())
        self._phi(cond, e1, e2, fr)

    def _phi(self, cond, e1: dict, e2: dict, fr: Frame):
        out = {}
        for k in set(e1) | set(e2):
            a, b = e1.get(k), e2.get(k)
            if a == b:
                out[k] = a
            elif k.startswith("<") and k != "<yield>":
                out[k] = a if a is not None else b
            elif a is None or b is None:
                out[k] = mk_if(cond, a if a is not None else unk(f"{k} unbound"), b if b is not None else unk(f"{k} unbound"))
            else:
                out[k] = _merge(cond, a, b)
        fr.env.clear()
        fr.env.update(out)

    def _try(self, st: ast.Try, fr: Frame):
        """Value returned from inside the try statement (None when it completes normally)."""
        if st.body and all(isinstance(s_, (ast.Import, ast.ImportFrom)) for s_ in st.body) and st.handlers and not st.finalbody and all(h.type is not None and norm(h.type).split(".")[-1] in ("ImportError", "ModuleNotFoundError") for h in st.handlers):
            # an optional import: the function is read with the module available (what it does without it - a message, a
            # fallback to another module of the same interface - is not what the rules are about)
            r0 = self._run(list(st.body) + list(st.orelse), fr, ())
            return None if r0 is _FALL else r0
        before = dict(fr.env)
        handler_exits: list = []
        r = self._run(list(st.body) + list(st.orelse), fr, ())
        r = None if r is _FALL else r
        # handlers: a handler whose every path raises does not change the normal value
        after = dict(fr.env)
        for h in st.handlers:
            hf = Frame(fr.func, fr.rel, dict(before), fr.depth, fr.binder)
            if h.name:
                hf.env[h.name] = ("sym", h.name)
            hr = self._run(list(h.body), hf, ())
            hr = None if hr is _FALL else hr
            if hr is not None and hr[0] == "raise":
                # (function, handled type, what the handler raises, value of the guarded body)
                self.handler_log.append((fr.func, norm(h.type) if h.type is not None else "BaseException", hr, r, h))
                # a name whose guarded evaluation is known to raise a handled exception: the handler's exception surfaces
                caught = {(dotted(t) or "").split(".")[-1] for t in (h.type.elts if isinstance(h.type, ast.Tuple) else [h.type])} if h.type is not None else None
                for k_, v_ in list(after.items()):
                    if isinstance(v_, tuple) and v_ and v_[0] == "raise" and before.get(k_) != v_ and (caught is None or str(v_[1]).split(".")[-1] in caught or "Exception" in caught):
                        after[k_] = hr
                continue
            tn = norm(h.type) if h.type is not None else "BaseException"
            cond = ("call", "raised", (C(tn),), ())
            if r is not None or hr is not None:
                if r is not None and hr is not None and r[0] != "pret":
                    r = mk_if(cond, hr, r)
                elif r is None and hr is not None and hr[0] == "pret":
                    handler_exits.append((mk_and(cond, hr[1]), hr[2]))
                elif r is None and hr is not None and not any(hr is x for x in (_BREAK, _CONT, _MIXED)):
                    handler_exits.append((cond, hr))
                else:
                    r = unk("try/except where only one side returns")
                continue
            for k in set(after) | set(hf.env):
                if k.startswith("<"):
                    continue
                a, b = hf.env.get(k), after.get(k)
                if a != b:
                    after[k] = mk_if(cond, a if a is not None else unk("unbound"), b if b is not None else unk("unbound"))
        fr.env.clear()
        fr.env.update(after)
        if st.finalbody:
            self._run(list(st.finalbody), fr, ())
        if handler_exits and r is None:
            val = handler_exits[-1][1]
            for c_, v_ in reversed(handler_exits[:-1]):
                val = mk_if(c_, v_, val)
            return ("pret", _fold_or([c_ for c_, _v in handler_exits]), val)
        if handler_exits:
            return unk("try/except where the body and a handler return")
        return r

    def _for(self, st: ast.For, fr: Frame, run_else: bool = True):
        d = fr.binder + 1
        it = self._ev(st.iter, fr)
        it, idx = self._iter(it, d)
        inner_env = dict(fr.env)
        assigned = _assigned_in(st.body)
        for n_ in ast.walk(ast.Module(body=list(st.body), type_ignores=[])):
            if isinstance(n_, ast.Call) and isinstance(n_.func, ast.Name):
                tgt = fr.env.get(n_.func.id)
                if isinstance(tgt, tuple) and tgt and tgt[0] == "fn" and not isinstance(tgt[1].node, ast.Lambda):
                    for m_ in _mutated_names(tgt[1].node.body):
                        if m_ in fr.env and m_ not in assigned:
                            assigned.append(m_)
            if isinstance(n_, ast.Call):
                for m_ in self._callee_param_mutations(n_, fr):
                    if m_ in fr.env and m_ not in assigned:
                        assigned.append(m_)
        for k in assigned:
            v_ = fr.env.get(k)
            if isinstance(v_, tuple) and v_ and v_[0] == "call" and v_[1] == "itertools.count" and len(v_[2]) == 1:
                # an itertools.count() advanced by next() in the loop: the variable holds the next value to hand out
                fr.env[k] = v_[2][0]
                fr.env["<count:" + k + ">"] = True
                inner_env["<count:" + k + ">"] = True
        pre = {k: fr.env.get(k) for k in assigned}
        for k in assigned:
            if k in fr.env:
                inner_env[k] = ("acc", d, k)
                pv_ = fr.env[k]
                if isinstance(pv_, tuple) and pv_ and pv_[0] == "call" and pv_[1].split(".")[-1][:1].isupper() and pv_[1].split(".")[-1] not in ("OrderedDict",):
                    inner_env["<obj:" + k + ">"] = True
        known = it
        if known[0] == "c" and isinstance(known[1], tuple):
            known = ("list", tuple(C(x) for x in known[1]))
        if known[0] == "c" and isinstance(known[1], str) and 0 < len(known[1]) <= 16:
            known = ("list", tuple(C(ch) for ch in known[1]))  # iterating a constant string: its characters
        if known[0] == "list" and not any(i[0] in ("spread", "when") for i in known[1]) and _unrollable(known[1]):
            # a loop over a known sequence that can leave early is executed element by element
            broke = False
            prets = []
            for k, elem in enumerate(known[1]):
                self._bind(st.target, elem if idx is None else ("list", (C((idx[2][1] if idx[2][0] == "c" else 0) + k), elem)), fr)
                r = self._run(list(st.body), fr, ())
                if r is _BREAK:
                    broke = True
                    break
                if r is _FALL or r is _CONT:
                    continue
                if r is _MIXED:
                    for k_ in assigned:
                        fr.env[k_] = unk("loop left under a condition that is not decided")
                    return None
                if r[0] == "pret":
                    prets.append(r)
                    continue
                if prets:
                    # earlier iterations returned under conditions; this one returns unconditionally
                    out = r
                    for q in reversed(prets):
                        out = mk_if(q[1], q[2], out)
                    return out
                return r
            if prets:
                pv = prets[-1][2]
                for q in reversed(prets[:-1]):
                    pv = mk_if(q[1], q[2], pv)  # the first iteration whose condition holds returns
                pr = ("pret", _fold_or([q[1] for q in prets]), pv)
                if not broke and st.orelse and run_else:
                    r = self._run(list(st.orelse), fr, ())
                    if r is _FALL:
                        return pr
                    return mk_if(pr[1], pr[2], r) if r[0] != "pret" else unk("partial return in for/else")
                return pr
            if not broke and st.orelse and run_else:
                r = self._run(list(st.orelse), fr, ())
                if r is not _FALL:
                    return r
            return None
        inner = Frame(fr.func, fr.rel, inner_env, fr.depth, d)
        self._bind_loop_target(st.target, it, idx, d, inner)
        r = self._run(list(st.body), inner, ())
        pret = None
        if isinstance(r, tuple) and r and r[0] == "pret" and not has(r, "acc"):
            # the body returns r[2] for an element satisfying r[1]: the loop returns it if any element does
            if not (has(r[2], "bv") or has(r[2], "idx") or has(r[2], "first")):
                pret = ("pret", mk_anyall("any", mk_comp(d, it, (r[1],))), r[2])
                r = _FALL
            elif r[2][0] != "raise":
                # the value of the first element that satisfies the condition
                pret = ("pret", mk_anyall("any", mk_comp(d, it, (r[1],))), ("sub", mk_comp(d, it, (r[2],), (r[1],)), C(0)))
                r = _FALL
        jumps = "<jump>" in inner.env or not (r is _FALL or r is _CONT) or any(isinstance(n, ast.Break) for s_ in st.body for n in walk_no_nested(s_, include_self=True)) or (bool(st.orelse) and run_else)
        tnames = set(_target_names(st.target))
        # carried element-independent values: pre-loop value in the first iteration, the new value afterwards
        carried = {}
        for k, old in pre.items():
            acc = ("acc", d, k)
            new = inner.env.get(k)
            if old is None or new is None or k in tnames:
                continue
            if new == acc:
                carried[acc] = old
            elif not has(new, "acc") and not has(new, "bv") and not has(new, "idx") and not has(new, "first"):
                carried[acc] = mk_if(("first", d), old, new)
        # integer counters advanced by one (always, or under a condition): their value in an iteration is the position
        # of the element among all elements (resp. among those satisfying the condition)
        counters = {}
        if not jumps:
            for k, old in pre.items():
                acc = ("acc", d, k)
                new = inner.env.get(k)
                if old is None or new is None or k in tnames or old[0] != "c" or not isinstance(old[1], int) or isinstance(old[1], bool):
                    continue
                inc = ("op", "+", acc, C(1))
                inc2 = ("op", "+", C(1), acc)
                if new in (inc, inc2):
                    counters[k] = (None, old)
                elif new[0] == "if" and new[3] == acc and new[2] in (inc, inc2):
                    counters[k] = (new[1], old)
                elif new[0] == "if" and new[2] == acc and new[3] in (inc, inc2):
                    counters[k] = (mk_not(new[1]), old)
        it_for = {}
        for k in assigned:
            if k in tnames:
                fr.env[k] = unk("loop variable used after the loop")
                continue
            new = inner.env.get(k)
            old = pre.get(k)
            if new is None:
                continue
            if k in counters:
                cnd, start = counters[k]
                n_el = ("call", "len", (it if cnd is None else mk_comp(d, it, (("bv", d),), (cnd,)),), ())
                fr.env[k] = n_el if start == C(0) else ("op", "+", start, n_el)
                continue
            used = [c_ for c_ in counters if has(new, "acc") and ("acc", d, c_) in find_all(new, "acc")]
            if used and not jumps:
                # items appended under the counter's own condition see the position among the selected elements
                cnds = {counters[c_][0] for c_ in used}
                acc = ("acc", d, k)
                if len(cnds) == 1 and new[0] == "list" and new[1] and new[1][0] == ("spread", acc):
                    cnd = cnds.pop()
                    items_ = new[1][1:]
                    ok_ = True
                    stripped = []
                    for it_ in items_:
                        if cnd is None:
                            stripped.append(it_)
                        elif it_[0] == "when" and it_[1] == cnd:
                            stripped.append(it_[2])
                        else:
                            ok_ = False
                    if not ok_ and cnd is not None:
                        # mixed items: the counter is the number of earlier elements satisfying its condition
                        mapping_ = {("acc", d, c_): ("cidx", d, counters[c_][1], cnd) for c_ in used}
                        others_ = {a_: v_ for a_, v_ in carried.items() if a_ != acc}
                        body_ = tuple(subst(subst(x_, mapping_), others_) for x_ in items_)
                        if not has(("x",) + body_, "acc"):
                            base_ = _as_events(old) if old[0] in ("dict", "call") and _as_events(old) is not None else old
                            fr.env[k] = mk_list(_spread_items(base_) + (("spread", mk_comp(d, it, body_)),))
                            continue
                    if ok_:
                        mapping_ = {}
                        for c_ in used:
                            mapping_[("acc", d, c_)] = ("idx", d, counters[c_][1])
                        others_ = {a_: v_ for a_, v_ in carried.items() if a_ != acc}
                        body_ = tuple(subst(subst(x_, mapping_), others_) for x_ in stripped)
                        if not has(("x",) + body_, "acc"):
                            src = it if cnd is None else mk_comp(d, it, (("bv", d),), (cnd,))
                            base_ = _as_events(old) if old[0] in ("dict", "call") and _as_events(old) is not None else old
                            fr.env[k] = mk_list(_spread_items(base_) + (("spread", mk_comp(d, src, body_)),))
                            continue
                fr.env[k] = unk(f"{k} depends on a loop counter in a way that is not understood")
                continue
            if jumps:
                fr.env[k] = unk("loop with break / continue / return / else")
                continue
            acc = ("acc", d, k)
            if old is None:
                fr.env[k] = unk(f"{k} is bound inside a loop only")
                continue
            if new == acc:
                fr.env[k] = old
                continue
            others = {a_: v_ for a_, v_ in carried.items() if a_ != acc}
            new = subst(new, others) if others else new
            # list accumulation: new = [*acc, items...]
            if new[0] == "list" and new[1] and new[1][0] == ("spread", acc) and not has(("x",) + new[1][1:], "acc"):
                comp = mk_comp(d, it, new[1][1:])
                base_ = _as_events(old) if old[0] in ("dict", "call") and _as_events(old) is not None else old
                if inner.env.get("<obj:" + k + ">") and old[0] == "call":
                    base_ = ("list", (("obj", old),))
                fr.env[k] = mk_list(_spread_items(base_) + (("spread", comp),))
                continue
            # string accumulation: new = acc + parts
            if new[0] == "s" and new[1] and new[1][0] == ("h", acc) and not has(("x",) + new[1][1:], "acc"):
                fr.env[k] = mk_s(s_parts(old) + (("h", ("join", EMPTY, mk_comp(d, it, (mk_s(new[1][1:]),)))),))
                continue
            if not has(new, "acc"):
                if not has(new, "bv") and not has(new, "idx") and not has(new, "first"):
                    fr.env[k] = mk_if(("call", "nonempty", (it,), ()), new, old)
                else:
                    fr.env[k] = mk_fold(d, it, old, new)
                continue
            fr.env[k] = mk_fold(d, it, old, subst(new, {acc: ("acc", d)}))
        if jumps and isinstance(r, tuple) and r and r[0] not in ("fall", "continue", "break", "mixed-exit"):
            return unk("loop with an exit that is not understood")
        return pret

    def _iter(self, it, d):
        """(sequence iterated, index term or None)"""
        if it[0] == "call" and it[1] == "enumerate" and it[2]:
            start = C(0)
            if len(it[2]) > 1:
                start = it[2][1]
            for k, v in it[3]:
                if k == "start":
                    start = v
            return it[2][0], ("idx", d, start)
        # iterating a mapping (built by key events) is iterating its keys
        base = _unwrap_seq(it)
        if base[0] == "comp" and base[3] and all(x[0] in ("kv", "kadd") for x in base[3]):
            return ("mcall", it, "keys", (), ()), None
        return it, None

    def _bind_loop_target(self, target, it, idx, d, fr: Frame):
        if idx is not None:
            if isinstance(target, (ast.Tuple, ast.List)) and len(target.elts) == 2:
                self._bind(target.elts[0], idx, fr)
                self._bind_elem(target.elts[1], ("bv", d), fr)
                return
            fr.env.update({n: unk("enumerate target") for n in _target_names(target)})
            return
        self._bind_elem(target, ("bv", d), fr)

    def _bind_elem(self, target, bv, fr: Frame):
        if isinstance(target, ast.Name):
            fr.env[target.id] = bv
        elif isinstance(target, (ast.Tuple, ast.List)):
            for i, e in enumerate(target.elts):
                if isinstance(e, ast.Starred):
                    self._bind_elem(e.value, unk("starred loop target"), fr)
                else:
                    self._bind_elem(e, bv + (i,), fr)
        else:
            pass

    def _bind(self, target, v, fr: Frame):
        if isinstance(target, ast.Name):
            fr.env[target.id] = v
            return
        if isinstance(target, (ast.Tuple, ast.List)):
            n = len(target.elts)
            star = [i for i, e in enumerate(target.elts) if isinstance(e, ast.Starred)]
            # unpacking a NamedTuple built by its constructor: the fields in declaration order
            fields_, vals_ = self._nt_fields_of_ctor(v)
            if fields_ is not None and len(fields_) == n and not star and all(f_ in vals_ for f_ in fields_):
                v = ("list", tuple(vals_[f_] for f_ in fields_))
            known = v[0] == "list" and not any(i[0] in ("spread", "when") for i in v[1])
            for i, e in enumerate(target.elts):
                if isinstance(e, ast.Starred):
                    hi = i - n + 1
                    if known:
                        self._bind(e.value, ("list", v[1][i: len(v[1]) + hi if hi else None]), fr)
                    else:
                        self._bind(e.value, ("slice", v, C(i), C(hi) if hi else NONE), fr)
                elif known and len(v[1]) == n and not star:
                    self._bind(e, v[1][i], fr)
                elif known and star:
                    self._bind(e, v[1][i] if i < star[0] else v[1][i - n], fr)
                else:
                    self._bind(e, mk_sub(v, C(i if not star or i < star[0] else i - n)), fr)
            return
        if isinstance(target, ast.Subscript):
            base = target.value
            if isinstance(base, ast.Attribute) and dotted(base) in fr.env:
                base = ast.Name(dotted(base), ast.Load())
            if isinstance(base, ast.Name) and base.id in fr.env:
                cur = fr.env[base.id]
                key = self._ev(target.slice, fr)
                if cur[0] == "dict" and key[0] == "c" and all(k[0] == "c" for k, _ in cur[1]):
                    items = [(k, x) for k, x in cur[1] if k != key] + [(key, v)]
                    fr.env[base.id] = ("dict", tuple(items))
                else:
                    ev_ = _as_events(cur)
                    if ev_ is not None:
                        fr.env[base.id] = mk_list(_items(ev_) + (("kv", key, v),))
                    else:
                        fr.env[base.id] = ("call", "setitem", (cur, key, v), ())
            return
        if isinstance(target, ast.Attribute):
            self.attr_stores.append((fr.func, self._ev(target.value, fr), target.attr, v, target))
            d_ = dotted(target)
            if d_:
                fr.env[d_] = v
            return

    def _effect(self, node, fr: Frame):
        """Expression statement: list / dict mutation through methods, everything else only logged."""
        if isinstance(node, ast.Call) and isinstance(node.func, ast.Attribute) and isinstance(node.func.value, ast.Name) and node.func.value.id in fr.env:
            name = node.func.value.id
            cur = fr.env[name]
            m = node.func.attr
            if m in ("append", "add") and len(node.args) == 1 and _is_seq(cur):
                fr.env[name] = mk_list(_items(cur) + (self._ev(node.args[0], fr),))
                return
            if m in ("extend", "update") and len(node.args) == 1 and _is_seq(cur):
                fr.env[name] = mk_list(_items(cur) + (("spread", self._ev(node.args[0], fr)),))
                return
            if m == "insert" and len(node.args) == 2 and _is_seq(cur):
                pos = self._ev(node.args[0], fr)
                if pos == C(0):
                    fr.env[name] = mk_list((self._ev(node.args[1], fr),) + _items(cur))
                    return
                if pos[0] == "c" and isinstance(pos[1], int) and cur[0] == "list" and not any(i[0] in ("spread", "when") for i in cur[1]):
                    items_ = list(cur[1])
                    items_.insert(pos[1], self._ev(node.args[1], fr))
                    fr.env[name] = ("list", tuple(items_))
                    return
            if m == "update" and cur[0] == "dict":
                other = self._ev(node.args[0], fr) if node.args else ("dict", ())
                kw = tuple((C(k.arg), self._ev(k.value, fr)) for k in node.keywords if k.arg)
                if other[0] == "dict":
                    new = dict(cur[1])
                    new.update(dict(other[1]))
                    new.update(dict(kw))
                    fr.env[name] = ("dict", tuple(new.items()))
                    return
            objish = (cur[0] == "call" and cur[1][:1].isupper() or (cur[0] == "call" and cur[1].split(".")[-1][:1].isupper())) or (cur[0] == "list" and cur[1] and cur[1][0][0] == "obj") or (cur[0] == "acc" and fr.env.get("<obj:" + name + ">"))
            if objish and m not in ("pop", "remove", "clear", "sort", "reverse", "discard"):
                # a method called for its effect on an object built by a constructor: recorded as an event on it
                base = cur if cur[0] in ("list", "acc") else ("list", (("obj", cur),))
                fr.env["<obj:" + name + ">"] = True
                a_ = tuple(("spread", self._ev(x.value, fr)) if isinstance(x, ast.Starred) else self._ev(x, fr) for x in node.args)
                k_ = tuple(sorted((k.arg or "**", self._ev(k.value, fr)) for k in node.keywords))
                fr.env[name] = mk_list(_items(base) + (("ev", m, a_, k_),))
                self.call_log.append((fr.func, node, ("mcall", cur if cur[0] == "call" else ("sym", name), m, tuple(x for x in a_), k_)))
                return
            if m in ("append", "add", "extend", "update", "insert", "pop", "remove", "clear", "sort", "reverse", "setdefault", "discard") :
                fr.env[name] = unk(f"{name}.{m}(...) not modelled")
                return
        if isinstance(node, ast.Call) and isinstance(node.func, ast.Attribute) and isinstance(node.func.value, ast.Subscript) and isinstance(node.func.value.value, ast.Name) and node.func.value.value.id in fr.env and node.func.attr in ("add", "append", "extend", "update") and len(node.args) == 1:
            # D[k].add(v): an event on the mapping D
            name = node.func.value.value.id
            cur = _as_events(fr.env[name])
            if cur is not None:
                key = self._ev(node.func.value.slice, fr)
                arg = self._ev(node.args[0], fr)
                fr.env[name] = mk_list(_items(cur) + (("kadd", key, arg),))
                return
        if isinstance(node, ast.Call) and isinstance(node.func, ast.Attribute) and node.func.attr in ("add", "append") and len(node.args) == 1 and isinstance(node.func.value, ast.Call) and isinstance(node.func.value.func, ast.Attribute) and node.func.value.func.attr == "setdefault" and isinstance(node.func.value.func.value, ast.Name) and node.func.value.func.value.id in fr.env and len(node.func.value.args) == 2:
            # D.setdefault(k, set()).add(v) is D[k].add(v) on a mapping with empty defaults
            name = node.func.value.func.value.id
            dflt = self._ev(node.func.value.args[1], fr)
            cur = _as_events(fr.env[name])
            if cur is not None and dflt in (("list", ()), ("dict", ()), ("call", "set", (), ()), ("call", "frozenset", (), ())):
                key = self._ev(node.func.value.args[0], fr)
                fr.env[name] = mk_list(_items(cur) + (("kadd", key, self._ev(node.args[0], fr)),))
                return
        v = self._ev(node, fr)
        return v

    # -- expressions ----------------------------------------------------------------------------------
    def _cond(self, n, fr: Frame):
        """value of an expression used as a condition: only its truth matters"""
        if isinstance(n, ast.BoolOp):
            vals = [self._cond(v, fr) for v in n.values]
            out = vals[0]
            for v in vals[1:]:
                out = mk_and(out, v) if isinstance(n.op, ast.And) else mk_or(out, v)
            return out
        if isinstance(n, ast.UnaryOp) and isinstance(n.op, ast.Not):
            return mk_not(self._cond(n.operand, fr))
        return self._truth(self._ev(n, fr))

    def _truth(self, v):
        if v[0] == "c":
            return C(bool(v[1]))
        if v[0] == "list" and v[1] and not any(i[0] in ("spread", "when") for i in v[1]):
            return C(True)
        if v[0] == "list" and not v[1]:
            return C(False)
        if v[0] == "s":
            if any(p[0] == "lit" for p in v[1]):
                return C(True)
        return v

    def _ev(self, n, fr: Frame):
        if n is None:
            return NONE
        if isinstance(n, ast.Constant):
            return C(n.value)
        if isinstance(n, ast.Name):
            return self._name(n.id, fr)
        if isinstance(n, ast.JoinedStr):
            parts = []
            for v in n.values:
                if isinstance(v, ast.Constant):
                    parts.append(("lit", str(v.value)))
                else:
                    x = self._ev(v.value, fr)
                    if v.format_spec is None and v.conversion == 114:
                        x = ("call", "repr", (x,), ())  # {x!r} is repr(x)
                    elif v.format_spec is not None or v.conversion not in (-1, 115):
                        spec = norm(v.format_spec) if v.format_spec is not None else ""
                        x = ("call", "format", (x, C(f"{chr(v.conversion) if v.conversion != -1 else ''}:{spec}")), ())
                    parts.append(("h", x))
            return mk_s(parts)
        if isinstance(n, (ast.List, ast.Tuple, ast.Set)):
            items = []
            for e in n.elts:
                if isinstance(e, ast.Starred):
                    items.append(("spread", self._ev(e.value, fr)))
                else:
                    items.append(self._ev(e, fr))
            if items and all(i[0] == "c" for i in items) and isinstance(n, ast.Tuple):
                return C(tuple(i[1] for i in items))
            return mk_list(items)
        if isinstance(n, ast.Dict):
            items = []
            for k, v in zip(n.keys, n.values):
                if k is None:
                    other = self._ev(v, fr)
                    if other[0] == "dict":
                        items.extend(other[1])
                    else:
                        return unk("dict with ** of unknown")
                else:
                    items.append((self._ev(k, fr), self._ev(v, fr)))
            return ("dict", tuple(items))
        if isinstance(n, ast.BinOp):
            return self._binop(type(n.op), self._ev(n.left, fr), self._ev(n.right, fr))
        if isinstance(n, ast.UnaryOp):
            v = self._ev(n.operand, fr)
            if isinstance(n.op, ast.Not):
                return mk_not(self._truth(v))
            if v[0] == "c" and isinstance(v[1], (int, float)):
                return C(-v[1] if isinstance(n.op, ast.USub) else v[1])
            return ("op", "neg" if isinstance(n.op, ast.USub) else "pos", v, NONE)
        if isinstance(n, ast.BoolOp):
            raw = [self._ev(v, fr) for v in n.values]
            if all(_is_boolean(v) for v in raw):
                vals = [self._truth(v) for v in raw]
                out = vals[0]
                for v in vals[1:]:
                    out = mk_and(out, v) if isinstance(n.op, ast.And) else mk_or(out, v)
                return out
            # in value position `a or b` is a when a is true, else b (`a and b`: b when a is true, else a)
            out = raw[-1]
            for v in reversed(raw[:-1]):
                if isinstance(n.op, ast.Or) and _empty_of_same_kind(v, out):
                    out = v  # `set(x) or set()`: a false set is the empty set
                    continue
                out = mk_if(self._truth(v), v, out) if isinstance(n.op, ast.Or) else mk_if(self._truth(v), out, v)
            return out
        if isinstance(n, ast.Compare):
            if len(n.ops) != 1:
                return unk("chained comparison")
            return mk_cmp(CMPS[type(n.ops[0])], self._ev(n.left, fr), self._ev(n.comparators[0], fr))
        if isinstance(n, ast.IfExp):
            return mk_if(self._cond(n.test, fr), self._ev(n.body, fr), self._ev(n.orelse, fr))
        if isinstance(n, ast.Attribute):
            d_ = dotted(n)
            if d_ is not None:
                if d_ in fr.env:
                    return fr.env[d_]
                head = d_.split(".")[0]
                if head in ("self", "cls") and d_.count(".") == 1 and fr.func is not None and "." in fr.func.qualname and n.attr.upper() == n.attr and any(ch.isalpha() for ch in n.attr):
                    cv_ = self._class_constant(fr.func.qualname.split(".")[0], n.attr)
                    if cv_ is not None:
                        return cv_
                if head in fr.env:
                    base = self._ev(n.value, fr)
                    return self._attr_nt(base, n.attr)
                if head in self._module_env(fr.rel):
                    base = self._ev(n.value, fr)
                    return _attr(base, n.attr)
                origin = self._imports(fr.rel).get(head)
                if origin and not origin.startswith("gotranx"):
                    d_ = origin + d_[len(head):]
                ev_ = self._enum_member_value(d_)
                if ev_ is not None:
                    return ev_
                return ("sym", canon_sym(d_))
            return self._attr_nt(self._ev(n.value, fr), n.attr)
        if isinstance(n, ast.Subscript):
            base = self._ev(n.value, fr)
            if isinstance(n.slice, ast.Slice):
                if n.slice.step is not None:
                    return ("call", "slice3", (base, self._ev(n.slice.lower, fr), self._ev(n.slice.upper, fr), self._ev(n.slice.step, fr)), ())
                lo, hi = self._ev(n.slice.lower, fr), self._ev(n.slice.upper, fr)
                if base[0] == "list" and not any(i[0] in ("spread", "when") for i in base[1]) and lo[0] == "c" and hi[0] == "c":
                    return ("list", base[1][lo[1]: hi[1]])
                if lo == C(0):
                    lo = NONE
                # X[a:][b:] is X[a + b:]
                if base[0] == "slice" and base[3] == NONE and hi == NONE and base[2][0] == "c" and isinstance(base[2][1], int) and base[2][1] >= 0 and lo[0] == "c" and isinstance(lo[1], int) and lo[1] >= 0:
                    return ("slice", base[1], C(base[2][1] + lo[1]), NONE)
                return ("slice", base, lo, hi)
            return mk_sub(base, self._ev(n.slice, fr))
        if isinstance(n, (ast.ListComp, ast.GeneratorExp, ast.SetComp)):
            return self._comp(n, n.elt, fr)
        if isinstance(n, ast.DictComp):
            v = self._comp(n, ast.Tuple([n.key, n.value], ast.Load()), fr)
            return _pairs_to_events(v)
        if isinstance(n, ast.Lambda):
            return ("fn", _Closure(n, fr.env, fr.rel, fr.func))
        if isinstance(n, ast.Call):
            return self._call(n, fr)
        if isinstance(n, ast.Starred):
            return ("spread", self._ev(n.value, fr))
        if isinstance(n, ast.NamedExpr):
            v = self._ev(n.value, fr)
            self._bind(n.target, v, fr)
            return v
        return unk(type(n).__name__)

    def _class_constant(self, cls_name: str, attr: str):
        """value of a class-level constant `NAME = <expr>` (looked up through the package bases), or None"""
        key = (cls_name, attr)
        cache = self.__dict__.setdefault("_class_consts", {})
        if key in cache:
            return cache[key]
        cache[key] = None
        seen, queue = set(), [cls_name]
        while queue:
            c = queue.pop(0)
            if c in seen:
                continue
            seen.add(c)
            for (rel, qn), cobj in self.sm.classes.items():
                if qn != c:
                    continue
                for st in cobj.node.body:
                    val = None
                    if isinstance(st, ast.Assign) and len(st.targets) == 1 and isinstance(st.targets[0], ast.Name) and st.targets[0].id == attr:
                        val = st.value
                    elif isinstance(st, ast.AnnAssign) and isinstance(st.target, ast.Name) and st.target.id == attr and st.value is not None:
                        val = st.value
                    if val is not None:
                        try:
                            v = self._ev(val, Frame(None, rel, {}, 0, 0))
                        except Exception:
                            v = None
                        if v is not None and not has_unk(v):
                            cache[key] = v
                        return cache[key]
                queue.extend(b.split(".")[-1] for b in cobj.bases)
        return None

    def _enum_member_value(self, dotted_name: str):
        """`Cls.member.value` / `Cls.member.name` for an Enum class of the package with constant members"""
        parts = dotted_name.split(".")
        if len(parts) < 3 or parts[-1] not in ("value", "name"):
            return None
        cname, mem = parts[-3], parts[-2]
        for (_rel, qn), cobj in self.sm.classes.items():
            if qn == cname and any(b.split(".")[-1] in ("Enum", "IntEnum", "StrEnum") for b in cobj.bases):
                for st in cobj.node.body:
                    if isinstance(st, ast.Assign) and len(st.targets) == 1 and isinstance(st.targets[0], ast.Name) and st.targets[0].id == mem and isinstance(st.value, ast.Constant):
                        return C(mem) if parts[-1] == "name" else C(st.value.value)
        return None

    def _nt_fields_of_ctor(self, base):
        if base[0] == "call" and base[1].split(".")[-1] in self._namedtuples():
            fields = self._namedtuples()[base[1].split(".")[-1]]
            vals = dict(zip(fields, base[2]))
            vals.update(dict(base[3]))
            return fields, vals
        return None, None

    def _attr_nt(self, base, name):
        fields, vals = self._nt_fields_of_ctor(base)
        if fields is not None and name in vals:
            return vals[name]
        cls = self.nt_of.get(base)
        if cls is not None and name in self._namedtuples().get(cls, []):
            return mk_sub(base, C(self._namedtuples()[cls].index(name)))
        return _attr(base, name)

    def _comp(self, n, elt, fr: Frame, gens=None):
        gens = list(n.generators) if gens is None else gens
        if len(gens) > 1:
            # [e for x in A for y in B(x)] is the flat-map of the inner comprehension over the outer one
            g0 = gens[0]
            d0 = fr.binder + 1
            it0 = self._ev(g0.iter, fr)
            it0, idx0 = self._iter(it0, d0)
            inner0 = Frame(fr.func, fr.rel, dict(fr.env), fr.depth, d0)
            self._bind_loop_target(g0.target, it0, idx0, d0, inner0)
            conds0 = tuple(self._cond(c, inner0) for c in g0.ifs)
            sub = self._comp(n, elt, inner0, gens[1:])
            return mk_comp(d0, it0, (("spread", sub),), conds0)
        g = gens[0]
        d = fr.binder + 1
        it = self._ev(g.iter, fr)
        it, idx = self._iter(it, d)
        known = _unwrap_seq(it)
        if known[0] == "c" and isinstance(known[1], tuple):
            known = ("list", tuple(C(x) for x in known[1]))
        if known[0] == "c" and isinstance(known[1], str) and 0 < len(known[1]) <= 16:
            known = ("list", tuple(C(ch) for ch in known[1]))  # iterating a constant string: its characters
        if known[0] == "list" and not any(i[0] in ("spread", "when") for i in known[1]) and _unrollable(known[1]):
            # a comprehension over a known sequence is evaluated element by element (constant propagation)
            out = []
            for k, elem in enumerate(known[1]):
                inner = Frame(fr.func, fr.rel, dict(fr.env), fr.depth, fr.binder)
                self._bind(g.target, elem if idx is None else ("list", (C((idx[2][1] if idx[2][0] == "c" else 0) + k), elem)), inner)
                cs = [self._cond(c, inner) for c in g.ifs]
                if any(c == C(False) for c in cs):
                    continue
                x = self._ev(elt, inner)
                for c in cs:
                    if c != C(True):
                        x = ("when", c, x)
                out.append(x)
            return mk_list(out)
        inner = Frame(fr.func, fr.rel, dict(fr.env), fr.depth, d)
        self._bind_loop_target(g.target, it, idx, d, inner)
        conds = tuple(self._cond(c, inner) for c in g.ifs)
        body = self._ev(elt, inner)
        return mk_comp(d, it, (body,), conds)

    def _name(self, name: str, fr: Frame):
        if name in fr.env:
            return fr.env[name]
        me = self._module_env(fr.rel)
        if name in me:
            v = me[name]
            if isinstance(v, ast.AST):
                me[name] = unk("recursive module constant")
                v = self._ev(v, Frame(None, fr.rel, {}, fr.depth + 1, 0))
                me[name] = v
            return v
        if name in ("True", "False", "None"):
            return C({"True": True, "False": False, "None": None}[name])
        origin = self._imports(fr.rel).get(name)
        if origin and not origin.startswith("gotranx"):
            return ("sym", canon_sym(origin))
        return ("sym", name)

    def instance_attr(self, cls_name: str, attr: str):
        """Value that __init__ of the class (or of a package base class) stores in self.<attr>, with the constructor's
        parameters expressed through the attributes that keep them (remove_unused -> self.remove_unused)."""
        key = (cls_name, attr)
        if key in self._inst:
            return self._inst[key]
        self._inst[key] = None
        seen, queue = set(), [cls_name]
        while queue:
            c = queue.pop(0)
            if c in seen:
                continue
            seen.add(c)
            for (rel, qn), cobj in self.sm.classes.items():
                if qn != c:
                    continue
                init = cobj.methods.get("__init__")
                queue.extend(b.split(".")[-1] for b in cobj.bases)
                if init is None:
                    continue
                sub = AV(self.sm, inline=self.inline)
                _, env = sub.returned(init)
                val = env.get(f"self.{attr}")
                if val is None:
                    continue
                keep = {}
                for k, x in env.items():
                    if k.startswith("self.") and x[0] == "sym" and x[1] in init.params:
                        keep.setdefault(x, ("sym", k))
                self._inst[key] = ("held", subst(val, keep) if keep else val, tuple(keep.items()))
                return self._inst[key]
        return None

    def _apply_held(self, held, args, kwargs, fr: Frame):
        if held[0] == "held":
            r = self._apply_held(held[1], args, kwargs, fr)
            return subst(r, dict(held[2])) if (r is not None and held[2]) else r
        if held[0] == "fn":
            return self._apply_closure(held[1], args, kwargs, Frame(None, fr.rel, {}, fr.depth, fr.binder))
        if held[0] == "if":
            a = self._apply_held(held[2], args, kwargs, fr)
            b = self._apply_held(held[3], args, kwargs, fr)
            if a is None or b is None:
                return None
            return mk_if(held[1], a, b)
        return None

    def _namedtuples(self) -> dict:
        if self._nt is None:
            self._nt = {}
            for (rel, qn), c in self.sm.classes.items():
                if any(b.split(".")[-1] == "NamedTuple" for b in c.bases):
                    self._nt[c.name] = [st.target.id for st in c.node.body if isinstance(st, ast.AnnAssign) and isinstance(st.target, ast.Name)]
        return self._nt

    def _imports(self, rel: str) -> dict:
        if rel not in self._imp:
            try:
                self._imp[rel] = self.sm.module_imports(rel.replace("src/gotranx/", ""))
            except Exception:
                self._imp[rel] = {}
        return self._imp[rel]

    def _module_env(self, rel: str) -> dict:
        if rel not in self._modenv:
            env: dict = {}
            mod = self.sm.modules.get(rel)
            if mod is not None:
                for st in mod.body:
                    if isinstance(st, ast.Assign) and len(st.targets) == 1 and isinstance(st.targets[0], ast.Name):
                        env[st.targets[0].id] = st.value
                    elif isinstance(st, ast.AnnAssign) and isinstance(st.target, ast.Name) and st.value is not None:
                        env[st.target.id] = st.value
            self._modenv[rel] = env
        return self._modenv[rel]

    def _binop(self, op, a, b):
        sym = OPS.get(op, "?")
        if sym == "+":
            if _is_str(a) and _is_str(b):
                return mk_s(s_parts(a) + s_parts(b))
            if a[0] == "list" or b[0] == "list" or a[0] == "comp" or b[0] == "comp":
                return mk_list(_spread_items(a) + _spread_items(b))
            if _is_str(a) or _is_str(b):
                return mk_s(s_parts(a) + s_parts(b))
        if sym == "-" and a[0] == "call" and a[1] in ("set", "frozenset") and len(a[2]) == 1 and not a[3]:
            # set(A) - B is {x for x in A if x not in B}
            d_ = max(max_binder(a), max_binder(b)) + 1
            return mk_comp(d_, a[2][0], (("bv", d_),), (mk_cmp("not in", ("bv", d_), b),))
        if a[0] == "c" and b[0] == "c":
            try:
                return C({"+": lambda: a[1] + b[1], "-": lambda: a[1] - b[1], "*": lambda: a[1] * b[1], "/": lambda: a[1] / b[1], "%": lambda: a[1] % b[1], "**": lambda: a[1] ** b[1], "//": lambda: a[1] // b[1]}[sym]())
            except Exception:
                pass
        if sym == "%" and _is_str(a):
            return ("call", "percent-format", (a, b), ())
        if sym in ("+", "*") and repr(a) > repr(b) and not (_is_str(a) or _is_str(b)) and a[0] != "list" and b[0] != "list":
            a, b = b, a  # commutative on numbers
        return ("op", sym, a, b)

    # -- calls ----------------------------------------------------------------------------------------
    def _call(self, n: ast.Call, fr: Frame):
        fn = n.func
        # functools.partial(g, a.., k=..) with g a function of the package is `lambda <the remaining parameters of g>:
        # g(a.., <them>, k=..)` (bound keywords are left out of the remaining parameters)
        if (dotted(fn) or "").split(".")[-1] == "partial" and n.args and isinstance(n.args[0], ast.Name) and not any(isinstance(a_, ast.Starred) for a_ in n.args) and all(k_.arg for k_ in n.keywords):
            g_ = self.sm.funcs.get((fr.rel, n.args[0].id))
            if g_ is not None and not g_.node.args.vararg and not g_.node.args.kwarg and not g_.node.args.kwonlyargs:
                bound_kw = {k_.arg for k_ in n.keywords}
                rest = [a_.arg for a_ in g_.node.args.args[len(n.args) - 1 :] if a_.arg not in bound_kw]
                lam = ast.Lambda(
                    args=ast.arguments(posonlyargs=[], args=[ast.arg(r_) for r_ in rest], kwonlyargs=[], kw_defaults=[], defaults=[]),
                    body=ast.Call(func=n.args[0], args=list(n.args[1:]), keywords=list(n.keywords) + [ast.keyword(arg=r_, value=ast.Name(r_, ast.Load())) for r_ in rest]),
                )
                ast.copy_location(lam, n)
                ast.fix_missing_locations(lam)
                return ("fn", _Closure(lam, fr.env, fr.rel, fr.func))
        d_ = dotted(fn)
        if d_ and (d_.startswith(("logger.", "logging.", "warnings.")) or d_ in ("print",)):
            return NONE
        args = []
        for a in n.args:
            if isinstance(a, ast.Starred):
                args.append(("spread", self._ev(a.value, fr)))
            else:
                args.append(self._ev(a, fr))
        kwargs = []
        for k in n.keywords:
            if k.arg is None:
                other = self._ev(k.value, fr)
                if other[0] == "dict" and all(x[0][0] == "c" for x in other[1]):
                    kwargs.extend((x[0][1], x[1]) for x in other[1])
                else:
                    kwargs.append(("**", other))
            else:
                kwargs.append((k.arg, self._ev(k.value, fr)))
        args = tuple(args)
        kwargs_t = tuple(sorted(kwargs, key=lambda kv: kv[0]))
        # local closures and lambdas
        if isinstance(fn, ast.Name):
            tgt = fr.env.get(fn.id)
            if tgt is None:
                tgt = self._name(fn.id, fr) if fn.id in self._module_env(fr.rel) else None
            if tgt is not None and tgt[0] == "fn":
                return self._apply_closure(tgt[1], args, kwargs, fr)
            if tgt is not None and tgt[0] == "if" and any(x[0] == "fn" for x in find_all(tgt, "fn")):
                # a handler picked from a table of closures: the call is made in each branch
                def call_value(t_):
                    if t_[0] == "fn":
                        return self._apply_closure(t_[1], args, kwargs, fr)
                    if t_[0] == "if":
                        return mk_if(t_[1], call_value(t_[2]), call_value(t_[3]))
                    if t_[0] == "raise":
                        return t_
                    if t_ == NONE:
                        return ("raise", "TypeError")
                    return mk_vcall(t_, args, kwargs_t)

                return call_value(tgt)
            if tgt is not None and fn.id in fr.env and tgt[0] == "sym" and tgt[1] != fn.id and "." not in tgt[1]:
                # a module-level function held in a local (an entry of a table of checks): called like the function itself
                held_f = self.sm.funcs.get((fr.rel, tgt[1]))
                if held_f is not None and fr.depth < MAX_DEPTH and self.inline(held_f) and not any(a_[0] == "spread" for a_ in args):
                    r_ = self._apply_func(held_f, args, kwargs, fr, None)
                    if r_ is not None:
                        return r_
            if tgt is not None and fn.id in fr.env and tgt[0] in ("attr", "bv", "sub", "if", "call", "mcall", "vcall", "raise") or (tgt is not None and fn.id in fr.env and tgt[0] == "sym" and tgt[1] != fn.id):
                # a callable value held in a local (bound method, element of a sequence of callables)
                v = mk_vcall(tgt, args, kwargs_t)
                self.call_log.append((fr.func, n, v))
                return v
        elif not isinstance(fn, ast.Attribute):
            tgt = self._ev(fn, fr)
            if tgt[0] == "fn":
                return self._apply_closure(tgt[1], args, kwargs, fr)
            if tgt[0] == "raise" or (tgt[0] == "if" and (tgt[2][0] == "raise" or tgt[3][0] == "raise")) or (tgt[0] == "sym" and isinstance(fn, ast.Call)):
                v = mk_vcall(tgt, args, kwargs_t)
                if v[0] != "raise":
                    self.call_log.append((fr.func, n, v))
                return v
            v = ("call", show(tgt), args, kwargs_t)
            self.call_log.append((fr.func, n, v))
            return v
        # NamedTuple._asdict on a constructor value
        if isinstance(fn, ast.Attribute) and fn.attr == "_asdict" and not args and not kwargs:
            recv = self._ev(fn.value, fr)
            fields, vals = self._nt_fields_of_ctor(recv)
            if fields is not None:
                vals = dict(vals)
                if all(f_ in vals for f_ in fields):
                    return ("dict", tuple((C(f_), vals[f_]) for f_ in fields))
        # NamedTuple._replace on a constructor value
        if isinstance(fn, ast.Attribute) and fn.attr == "_replace" and not args:
            recv = self._ev(fn.value, fr)
            fields, vals = self._nt_fields_of_ctor(recv)
            if fields is not None:
                vals = dict(vals)
                vals.update(dict(kwargs))
                return ("call", recv[1], (), tuple(sorted(vals.items())))
        # mutation of a tracked local inside an expression
        if isinstance(fn, ast.Attribute) and isinstance(fn.value, ast.Name) and fn.value.id in fr.env and fn.attr in MUTATING:
            name = fn.value.id
            cur = fr.env[name]
            if fn.attr == "pop" and not args and cur[0] == "comp":
                fr.env[name] = ("slice", cur, NONE, C(-1))
                return ("sub", cur, C(-1))
            if fn.attr == "pop" and not args and cur[0] == "list" and cur[1]:
                last = cur[1][-1]
                if last[0] not in ("spread", "when"):
                    fr.env[name] = ("list", cur[1][:-1])
                    return last
                if last[0] == "spread" and last[1][0] == "comp":
                    fr.env[name] = mk_list(cur[1][:-1] + (("spread", ("slice", last[1], NONE, C(-1))),))
                    return ("sub", last[1], C(-1))
            if fn.attr in ("append", "extend", "add", "insert", "update") and _is_seq(cur) or (fn.attr == "update" and cur[0] == "dict"):
                self._effect(n, fr)
                return NONE
            fr.env[name] = unk(f"{name}.{fn.attr}(...) not modelled")
            return unk(f"{name}.{fn.attr}(...) not modelled")
        # itertools.count(): an integer that next() reads and advances (the variable holds the next value)
        if d_ in ("itertools.count", "count") and len(args) <= 1 and (d_ == "itertools.count" or self._imports(fr.rel).get("count", "").startswith("itertools")):
            start = args[0] if args else dict(kwargs).get("start", C(0))
            if not kwargs or set(dict(kwargs)) <= {"start"}:
                return ("call", "itertools.count", (start,), ())
        if isinstance(fn, ast.Name) and fn.id == "next" and len(n.args) == 1 and isinstance(n.args[0], ast.Name) and n.args[0].id in fr.env:
            cur = fr.env[n.args[0].id]
            if cur[0] == "call" and cur[1] == "itertools.count" and len(cur[2]) == 1:
                cur = cur[2][0]
                fr.env["<count:" + n.args[0].id + ">"] = True
            if fr.env.get("<count:" + n.args[0].id + ">"):
                fr.env[n.args[0].id] = self._binop(ast.Add, cur, C(1))
                return cur
        # builtins and string / list methods with exact models
        m = self._builtin(n, d_, args, kwargs, fr)
        if m is not None:
            return m
        # package callees
        callee = self._resolve(fn, fr)
        if callee is None and self.receivers and isinstance(fn, ast.Attribute):
            rv = self._ev(fn.value, fr)
            cname = self.receivers.get(show(rv)) if rv[0] in ("sym", "attr") else None
            if cname is not None:
                for (rel_, qn), cobj in self.sm.classes.items():
                    if qn == cname and fn.attr in cobj.methods:
                        m_ = cobj.methods[fn.attr]
                        if not any(x.split(".")[-1] in ("property", "cached_property", "abstractmethod", "staticmethod", "classmethod") for x in m_.decorators()):
                            callee = m_
        if callee is None and self.cha and isinstance(fn, ast.Attribute) and not fn.attr.startswith("__"):
            cands = [cobj.methods[fn.attr] for cobj in self.sm.classes.values() if fn.attr in cobj.methods]
            if len(cands) == 1 and not any(x.split(".")[-1] in ("property", "cached_property", "abstractmethod", "staticmethod", "classmethod") for x in cands[0].decorators()):
                callee = cands[0]
        if callee is not None and fr.depth < MAX_DEPTH and (dotted(fn) or "") not in self.opaque and self.inline(callee):
            bound_self = isinstance(fn, ast.Attribute) and not _is_static(callee) and not (isinstance(fn.value, ast.Name) and fn.value.id == callee.qualname.split(".")[0])
            self._mutated_params = {}
            v = self._apply_func(callee, args, kwargs, fr, self._ev(fn.value, fr) if bound_self else None)
            if v is not None:
                mp, self._mutated_params = self._mutated_params, {}
                if mp:
                    order = self._param_order
                    for i, a_ in enumerate(n.args):
                        if isinstance(a_, ast.Name) and i < len(order) and order[i] in mp and a_.id in fr.env:
                            fr.env[a_.id] = mp[order[i]]
                    for k_ in n.keywords:
                        if k_.arg in mp and isinstance(k_.value, ast.Name) and k_.value.id in fr.env:
                            fr.env[k_.value.id] = mp[k_.arg]
                return v
        if callee is None and isinstance(fn, ast.Attribute) and isinstance(fn.value, ast.Name) and fn.value.id == "self" and fr.func is not None and "." in fr.func.qualname and fr.depth < MAX_DEPTH:
            held = self.instance_attr(fr.func.qualname.split(".")[0], fn.attr)
            if held is not None:
                v = self._apply_held(held, args, kwargs, fr)
                if v is not None:
                    return v
        ret_nt = None
        if callee is not None and callee.node.returns is not None:
            rn = norm(callee.node.returns).split(".")[-1].strip("'\"")
            if rn in self._namedtuples():
                ret_nt = rn
        if isinstance(fn, ast.Attribute):
            if d_ is not None and d_.split(".")[0] not in fr.env and d_.split(".")[0] not in self._module_env(fr.rel):
                origin = self._imports(fr.rel).get(d_.split(".")[0])
                if origin and not origin.startswith("gotranx"):
                    d_ = canon_sym(origin + d_[len(d_.split(".")[0]):])
                v = ("call", d_, args, kwargs_t)
                if d_ == "sympy.diff" and len(args) == 2 and not kwargs_t:
                    v = ("mcall", args[0], "diff", (args[1],), ())  # sympy.diff(e, s) is e.diff(s)
                if d_ == "sympy.sympify" and len(args) == 1 and args[0] in (C(True), C(False)):
                    v = ("sym", "sympy.true" if args[0][1] else "sympy.false")
            else:
                v = ("mcall", self._ev(fn.value, fr), fn.attr, args, kwargs_t)
                if fn.attr == "find_data" and len(args) == 1 and not kwargs_t:
                    # lark: tree.find_data(d) is (t for t in tree.iter_subtrees() if t.data == d)
                    d_ = fr.binder + 1 + max(max_binder(v[1]), max_binder(args[0]))
                    v = mk_comp(d_, ("mcall", v[1], "iter_subtrees", (), ()), (("bv", d_),), (mk_cmp("==", ("attr", ("bv", d_), "data"), args[0]),))
                if fn.attr == "has" and len(args) > 1 and not kwargs_t and not any(a_[0] == "spread" for a_ in args):
                    # sympy: x.has(a, b) is x.has(a) or x.has(b)
                    v = ("mcall", v[1], "has", (args[0],), ())
                    for a_ in args[1:]:
                        v = mk_or(v, ("mcall", v[1] if v[0] == "mcall" else self._ev(fn.value, fr), "has", (a_,), ()))
        else:
            nm = d_ or norm(fn)
            origin = self._imports(fr.rel).get(nm) if d_ else None
            if origin and not origin.startswith("gotranx"):
                nm = canon_sym(origin)
            v = ("call", nm, args, kwargs_t)
        v = self._conventional(v, callee)
        if ret_nt is not None:
            self.nt_of[v] = ret_nt
        self.call_log.append((fr.func, n, v))
        return v

    def _conventional(self, v, callee):
        """A call of a package function that is not expanded is written the way the vetted tree writes it: the parameters it
        passes by position are positional, those it passes by keyword are keywords (`g(a, b)` and `g(x=a, y=b)` are one
        call; sa/alpha.py, anchors.json `conventions`)."""
        if os.environ.get("VERIF_NO_ALPHA") or v[0] not in ("call", "mcall"):
            return v
        name = (v[1] if v[0] == "call" else v[2]).split(".")[-1]
        conv = self._conventions().get(name)
        if conv is None:
            return v
        args, kwargs = (v[2], v[3]) if v[0] == "call" else (v[3], v[4])
        if any(a_[0] == "spread" for a_ in args) or any(k == "**" for k, _ in kwargs):
            return v
        # today's signature: of the resolved callee, else of the one function of that name
        f = callee
        if f is None:
            cands = [g for g in self.sm.all_funcs() if g.name == name]
            f = cands[0] if len(cands) == 1 else None
        if f is None or f.node.args.vararg or f.node.args.posonlyargs:
            return v
        params = [x.arg for x in f.node.args.args]
        if "." in f.qualname and params and params[0] in ("self", "cls") and not _is_static(f):
            params = params[1:]
        if len(args) > len(params):
            return v
        bound = dict(zip(params, args))
        for k, val in kwargs:
            if k in bound:
                return v
            bound[k] = val
        new_args, new_kw = [], []
        positional_ok = True
        for p_ in params:
            if p_ not in bound:
                positional_ok = False
                continue
            want_pos = p_ in conv["pos"] or (p_ not in conv["kw"] and p_ in dict(zip(params, args)))
            if want_pos and positional_ok:
                new_args.append(bound[p_])
            else:
                positional_ok = False
                new_kw.append((p_, bound[p_]))
        new_kw += [(k, val) for k, val in kwargs if k not in params]
        new_kw_t = tuple(sorted(new_kw, key=lambda kv: kv[0]))
        return ("call", v[1], tuple(new_args), new_kw_t) if v[0] == "call" else ("mcall", v[1], v[2], tuple(new_args), new_kw_t)

    def _conventions(self) -> dict:
        from . import alpha

        return alpha.table().get("conventions", {})

    def _builtin(self, n: ast.Call, d_, args, kwargs, fr: Frame):
        # {k1: v1, ...}.get(key, default) on a table of constant keys is a chain of comparisons
        if isinstance(n.func, ast.Attribute) and n.func.attr == "get" and len(args) in (1, 2) and not kwargs:
            tbl = self._ev(n.func.value, fr)
            if tbl[0] == "dict" and tbl[1] and all(isinstance(kv, tuple) and len(kv) == 2 and kv[0][0] == "c" for kv in tbl[1]) and len(tbl[1]) <= 16:
                out = args[1] if len(args) == 2 else NONE
                for k_, v_ in reversed(tbl[1]):
                    out = mk_if(mk_cmp("==", args[0], k_), v_, out)
                return out
        fn = n.func
        kw = dict(kwargs)
        if isinstance(fn, ast.Name):
            name = fn.id
            if name in fr.env:
                return None
            if name == "str" and len(args) == 1:
                return mk_s((("h", args[0]),))
            if name in ("list", "tuple") and len(args) == 1:
                a = args[0]
                if a[0] in ("list", "comp"):
                    return mk_list(_spread_items(a))
                if a[0] in ("attr", "sym", "sub", "slice") or (a[0] == "if" and all(x[0] in ("list", "comp", "attr", "sym") for x in a[2:4])):
                    return a  # a copy of a sequence is that sequence (values are immutable here)
                return ("call", name, args, ())
            if name in ("list", "tuple", "dict", "set") and not args and not kwargs:
                return ("list", ()) if name != "dict" else ("dict", ())
            if name in ("set", "frozenset") and len(args) == 1 and args[0] in (("list", ()), C(())):
                return ("call", name, (), ())
            if name == "dict" and not args:
                return ("dict", tuple((C(k), v) for k, v in kwargs))
            if name == "dict" and len(args) == 1 and not kwargs:
                a0 = args[0]
                if a0[0] == "list" and a0[1] and all(i[0] in ("kv", "kadd") or (i[0] == "spread" and has(i, "kv") or has(i, "kadd")) for i in a0[1]):
                    return a0  # dict(<mapping under construction>) is that mapping
                if a0[0] == "comp" and (has(a0[3], "kv") or has(a0[3], "kadd")):
                    return a0
                # dict([(k, v), ...]) over a known list of pairs with constant keys is a dict display
                a1 = _unwrap_seq(a0)
                if a1[0] == "list" and a1[1] and not any(i[0] in ("spread", "when") for i in a1[1]):
                    pairs = []
                    for i in a1[1]:
                        if i[0] == "list" and len(i[1]) == 2 and i[1][0][0] == "c":
                            pairs.append((i[1][0], i[1][1]))
                        elif i[0] == "c" and isinstance(i[1], tuple) and len(i[1]) == 2:
                            pairs.append((C(i[1][0]), C(i[1][1])))
                        else:
                            pairs = None
                            break
                    if pairs is not None:
                        out_ = {}
                        for k_, v_ in pairs:
                            out_[k_] = v_
                        return ("dict", tuple(out_.items()))
                # dict(zip(A, range(len(A)))) / dict(zip(A, itertools.count())) is {x: i for i, x in enumerate(A)}
                if a0[0] == "call" and a0[1] == "zip" and len(a0[2]) == 2 and not a0[3]:
                    A_, R_ = _unwrap_seq(a0[2][0]), a0[2][1]
                    counts = R_ == ("call", "range", (("call", "len", (A_,), ()),), ()) or R_ == ("call", "range", (("call", "len", (a0[2][0],), ()),), ()) or (R_[0] == "call" and R_[1] == "itertools.count" and R_[2] in ((), (C(0),)))
                    if counts:
                        d_ = fr.binder + 1 + max_binder(A_)
                        return mk_comp(d_, A_, (("kv", ("bv", d_), ("idx", d_, C(0))),))
                ev_ = _pairs_to_events(_unwrap_seq(a0))
                if ev_[0] == "list":
                    return ev_
            if name == "len" and len(args) == 1:
                a = args[0]
                if a[0] == "list" and not any(i[0] in ("spread", "when") for i in a[1]):
                    return C(len(a[1]))
                if a[0] == "c" and isinstance(a[1], (str, tuple)):
                    return C(len(a[1]))
                return ("call", "len", args, ())
            if name == "isinstance":
                if len(args) == 2 and args[0][0] == "c" and isinstance(args[0][1], (str, int, float)) and args[1][0] == "sym" and any(qn == args[1][1].split(".")[-1] for (_r, qn) in self.sm.classes):
                    return C(False)  # a plain constant is not an instance of a class of the package
                return ("call", "isinstance", args, ())
            if name in ("indent", "dedent"):
                return self._textwrap(name, args, kw)
            if name == "getattr" and len(args) == 2 and not kw and args[1][0] == "c" and isinstance(args[1][1], str) and args[1][1].isidentifier():
                return _attr(args[0], args[1][1])  # getattr(x, 'name') is x.name
            if name == "next" and len(args) == 2 and not kwargs and _unwrap_seq(args[0])[0] == "comp":
                # next((x for x in X if c(x)), default): the first match if there is one, else the default
                cp_ = _unwrap_seq(args[0])
                if len(cp_[3]) == 1 and cp_[3][0][0] not in ("spread", "when", "kv", "kadd"):
                    exists = mk_anyall("any", mk_comp(cp_[1], cp_[2], (cp_[4][0],))) if len(cp_[4]) == 1 else (mk_anyall("any", mk_comp(cp_[1], cp_[2], (C(True),))) if not cp_[4] else None)
                    if exists is not None:
                        return mk_if(exists, ("sub", cp_, C(0)), args[1])
            if name in ("range", "zip", "enumerate", "reversed", "sorted", "map", "filter", "sum", "min", "max", "any", "all", "int", "float", "bool", "repr", "abs", "round", "type", "getattr", "hasattr", "iter", "next", "set", "frozenset"):
                if name == "range" and len(args) == 2 and args[0] == C(0):
                    args = (args[1],)
                if name in ("zip", "enumerate", "reversed", "sorted", "map", "filter", "sum", "min", "max", "any", "all", "set", "frozenset", "iter"):
                    args = tuple(_unwrap_seq(a) for a in args)
                if name in ("any", "all") and len(args) == 1 and not kwargs:
                    return mk_anyall(name, args[0])
                if name in ("map", "filter") and len(args) == 2 and args[0][0] == "fn" and not kwargs:
                    # map(f, X) is (f(x) for x in X); filter(p, X) is (x for x in X if p(x)) - f, p local functions / lambdas
                    d_ = fr.binder + 1 + max(max_binder(args[1]), 0)
                    sub_fr = Frame(fr.func, fr.rel, fr.env, fr.depth, d_)
                    r_ = self._apply_closure(args[0][1], (("bv", d_),), [], sub_fr)
                    if r_ is not None and not has_unk(r_):
                        return mk_comp(d_, args[1], (r_,)) if name == "map" else mk_comp(d_, args[1], (("bv", d_),), (r_,))
                if name == "map" and len(args) == 2 and args[0] == ("sym", "str") and not kwargs:
                    d_ = fr.binder + 1 + max_binder(args[1])
                    return mk_comp(d_, args[1], (mk_s((("h", ("bv", d_)),)),))  # map(str, X) is (str(x) for x in X)
                if False:
                    # any(any(c for y in Y) for x in X) is any over the flattened sequence
                    it_ = args[0][3][0]
                    if it_[0] == "call" and it_[1] == name and len(it_[2]) == 1 and it_[2][0][0] == "comp":
                        args = (("comp", args[0][1], args[0][2], (("spread", it_[2][0]),), ()),)
                if name == "reduce":
                    pass
                return ("call", name, tuple(args), tuple(sorted(kwargs)))
            if name == "reduce" and len(args) >= 2 and args[0][0] == "fn":
                return self._reduce(args, fr)
            return None
        if isinstance(fn, ast.Attribute):
            m = fn.attr
            if d_ in ("textwrap.indent", "textwrap.dedent"):
                return self._textwrap(m, args, kw)
            if d_ in ("functools.reduce",) and len(args) >= 2 and args[0][0] == "fn":
                return self._reduce(args, fr)
            recv_node = fn.value
            if m == "join" and len(args) == 1:
                sep = self._ev(recv_node, fr)
                if _is_str(sep):
                    seq = args[0]
                    if seq[0] == "comp":
                        seq = mk_list((("spread", seq),))
                    return mk_join(sep, seq)
            if m == "format":
                recv = self._ev(recv_node, fr)
                if _is_str(recv):
                    return self._format(recv, args, kw)
            if m == "difference" and len(args) == 1 and not kw:
                # A.difference(B) keeps the elements of A that are not in B (A a comprehension / collection display)
                recv = _unwrap_seq(self._ev(recv_node, fr))
                while recv[0] == "call" and recv[1] in ("set", "frozenset") and len(recv[2]) == 1 and not recv[3]:
                    recv = _unwrap_seq(recv[2][0])
                if recv[0] == "comp" and len(recv[3]) == 1 and recv[3][0][0] not in ("spread", "when", "kv", "kadd"):
                    return mk_comp(recv[1], recv[2], recv[3], tuple(recv[4]) + (mk_cmp("not in", recv[3][0], args[0]),))
            if m in ("items", "keys", "values") and not args:
                recv = self._ev(recv_node, fr)
                if recv[0] == "dict":
                    if m == "items":
                        return ("list", tuple(("list", (k, v)) for k, v in recv[1]))
                    return ("list", tuple(k if m == "keys" else v for k, v in recv[1]))
                return ("mcall", recv, m, (), ())
            if m == "get" and len(args) == 1 and not kwargs:
                recv = self._ev(recv_node, fr)
                if recv[0] in ("sym", "attr") or (recv[0] == "dict" and not all(k[0] == "c" for k, _ in recv[1])):
                    # the value for a present key; `is None` tests on it are read as 'key absent' (see mk_cmp)
                    self.get_log.append((fr.func, recv, args[0]))
                    return ("sub", recv, args[0])
            if m == "get" and args:
                recv = self._ev(recv_node, fr)
                if recv[0] == "dict" and args[0][0] == "c" and all(k[0] == "c" for k, _ in recv[1]):
                    for k, v in recv[1]:
                        if k == args[0]:
                            return v
                    return args[1] if len(args) > 1 else NONE
            if m in ("index", "find", "rfind", "rindex", "count") and len(args) == 1 and args[0][0] == "c" and isinstance(args[0][1], str):
                recv_s = self._ev(recv_node, fr)
                if recv_s[0] == "c" and isinstance(recv_s[1], str):
                    try:
                        return C(getattr(recv_s[1], m)(args[0][1]))
                    except ValueError:
                        return ("raise", "ValueError")
            if m == "index" and len(args) == 1:
                recv = self._ev(recv_node, fr)
                if recv[0] == "list" and not any(i[0] in ("spread", "when") for i in recv[1]) and args[0][0] == "c" and all(i[0] == "c" for i in recv[1]):
                    try:
                        return C([i[1] for i in recv[1]].index(args[0][1]))
                    except ValueError:
                        return ("raise", "ValueError")
            if m == "copy" and not args:
                recv = self._ev(recv_node, fr)
                if recv[0] in ("list", "dict"):
                    return recv
            if m in ("strip", "lstrip", "rstrip", "upper", "lower", "capitalize", "title", "replace", "split", "startswith", "endswith") :
                recv = self._ev(recv_node, fr)
                if recv[0] == "c" and isinstance(recv[1], str) and all(a[0] == "c" for a in args):
                    try:
                        return C(getattr(recv[1], m)(*[a[1] for a in args]))
                    except Exception:
                        return unk("string method on constant failed")
                return ("mcall", recv, m, tuple(args), tuple(sorted(kwargs)))
        return None

    def _reduce(self, args, fr: Frame):
        fnv, seq = args[0], args[1]
        d = fr.binder + 1
        if len(args) > 2:
            init, it = args[2], seq
        else:
            init, it = mk_sub(seq, C(0)), ("slice", seq, C(1), NONE)
        body = self._apply_closure(fnv[1], (("acc", d, "<reduce>"), ("bv", d)), [], Frame(fr.func, fr.rel, fr.env, fr.depth, d))
        return mk_fold(d, it, init, subst(body, {("acc", d, "<reduce>"): ("acc", d)}))

    def _textwrap(self, name, args, kw):
        # keyword form: indent(text, prefix="    ") / indent(text=..., prefix=...) / dedent(text=...)
        if kw and set(kw) <= {"text", "prefix"} and not ("text" in kw and args) and not ("prefix" in kw and len(args) > 1):
            args = tuple(args) + ((kw["text"],) if "text" in kw else ()) + ((kw["prefix"],) if "prefix" in kw and name == "indent" else ())
            kw = {}
        if name == "dedent" and args and args[0][0] == "c" and isinstance(args[0][1], str):
            return C(textwrap.dedent(args[0][1]))
        if name == "indent" and len(args) >= 2 and args[0][0] == "c" and args[1][0] == "c" and isinstance(args[0][1], str) and not kw:
            return C(textwrap.indent(args[0][1], args[1][1]))
        return ("call", name, tuple(args), tuple(sorted(kw.items())))

    def _format(self, recv, args, kw):
        return format_value(recv, args, kw)

    def _resolve(self, fn, fr: Frame) -> Func | None:
        sm = self.sm
        if isinstance(fn, ast.Name):
            if fr.func is not None:
                nested = sm.funcs.get((fr.rel, f"{fr.func.qualname}.{fn.id}"))
                if nested is not None:
                    return nested
            f = sm.funcs.get((fr.rel, fn.id))
            if f is not None:
                return f
            short = fr.rel.replace("src/gotranx/", "")
            try:
                imps = sm.module_imports(short)
            except Exception:
                imps = {}
            origin = imps.get(fn.id)
            if origin:
                modname, _, name = origin.rpartition(".")
                rel = sm.resolve_module_rel(modname)
                if rel:
                    return sm.funcs.get((rel, name))
            return None
        if isinstance(fn, ast.Attribute) and isinstance(fn.value, ast.Name) and fn.value.id not in fr.env and fn.value.id not in ("self", "cls"):
            # ClassName.method(...) on a class of the package (static / class methods)
            for (rel, qn), cobj in sm.classes.items():
                if qn == fn.value.id and fn.attr in cobj.methods:
                    m = cobj.methods[fn.attr]
                    if any(x.split(".")[-1] in ("staticmethod", "classmethod") for x in m.decorators()):
                        return m
            return None
        if isinstance(fn, ast.Attribute) and isinstance(fn.value, ast.Name) and fn.value.id in ("self", "cls") and fr.func is not None and "." in fr.func.qualname:
            cls = fr.func.qualname.split(".")[0]
            # not overridden below, found in the class or its package bases
            seen = set()
            queue = [cls]
            found = None
            while queue and found is None:
                c = queue.pop(0)
                if c in seen:
                    continue
                seen.add(c)
                for (rel, qn), cobj in sm.classes.items():
                    if qn == c:
                        if fn.attr in cobj.methods:
                            found = cobj.methods[fn.attr]
                            break
                        queue.extend(b.split(".")[-1] for b in cobj.bases)
            if found is None:
                return None
            # dynamic dispatch: only overrides in subclasses of the current class can be meant by self.<name>
            subs, grew = {cls}, True
            while grew:
                grew = False
                for (rel, qn), cobj in sm.classes.items():
                    if qn not in subs and any(b.split(".")[-1] in subs for b in cobj.bases):
                        subs.add(qn)
                        grew = True
            for (rel, qn), cobj in sm.classes.items():
                if qn in subs and qn != found.qualname.split(".")[0] and fn.attr in cobj.methods and cobj.methods[fn.attr] is not found:
                    return None
            decs = found.decorators()
            if any(x.split(".")[-1] in ("property", "cached_property", "abstractmethod") for x in decs):
                return None
            return found
        return None

    def _apply_func(self, callee: Func, args, kwargs, fr: Frame, self_val):
        a = callee.node.args
        if any(x[0] == "spread" for x in args) or any(k == "**" for k, _ in kwargs):
            return None
        is_gen = any(isinstance(x, (ast.Yield, ast.YieldFrom)) for x in walk_no_nested(callee.node))
        params = [x.arg for x in a.posonlyargs + a.args]
        env = {}
        pos = list(args)
        if self_val is not None and params:
            env[params[0]] = self_val if self_val[0] != "unk" else ("sym", params[0])
            params = params[1:]
        elif params and params[0] in ("self", "cls") and "." in callee.qualname and not _is_static(callee):
            env[params[0]] = ("sym", params[0])
            params = params[1:]
        if len(pos) > len(params) and not a.vararg:
            return None
        for p, v in zip(params, pos):
            env[p] = v
        if a.vararg:
            env[a.vararg.arg] = ("list", tuple(pos[len(params):]))
        allp = params + [x.arg for x in a.kwonlyargs]
        extra = {}
        for k, v in kwargs:
            if k in allp:
                env[k] = v
            elif a.kwarg:
                extra[k] = v
            else:
                return None
        if a.kwarg:
            env[a.kwarg.arg] = ("dict", tuple((C(k), v) for k, v in extra.items()))
        defaults = dict(zip([x.arg for x in a.posonlyargs + a.args][len(a.posonlyargs + a.args) - len(a.defaults):], a.defaults))
        defaults.update({x.arg: dv for x, dv in zip(a.kwonlyargs, a.kw_defaults) if dv is not None})
        for p in allp:
            if p not in env:
                if p in defaults:
                    env[p] = self._ev(defaults[p], Frame(None, callee.rel, {}, fr.depth + 1, 0))
                else:
                    return None
        sub = Frame(callee, callee.rel, env, fr.depth + 1, fr.binder)
        if is_gen:
            # a generator is the sequence of the values it yields
            sub.env["<yield>"] = ("list", ())
            r = self._body(callee.node.body, sub)
            if not (r is _FALL or r is None or r == NONE):
                return unk("generator with an exit that is not understood")
            return sub.env.get("<yield>", unk("generator"))
        env0 = dict(env)
        r = self._body(callee.node.body, sub)
        # parameters mutated in place (never re-bound): the caller's object has changed too
        rebound = {x.id for st_ in callee.node.body for x in ast.walk(st_) if isinstance(x, ast.Name) and isinstance(x.ctx, (ast.Store, ast.Del))}
        muts = set(_mutated_names(callee.node.body)) - rebound
        self._mutated_params = {p: sub.env[p] for p in muts if p in env0 and p in sub.env and sub.env[p] != env0[p]}
        self._param_order = ([x.arg for x in a.posonlyargs + a.args][1:] if self_val is not None else [x.arg for x in a.posonlyargs + a.args])
        return self._finish(r, sub)

    def _callee_param_mutations(self, n: ast.Call, fr: Frame) -> list[str]:
        """caller names handed to an expandable helper that mutates the corresponding parameter in place"""
        try:
            callee = self._resolve(n.func, fr)
        except Exception:
            callee = None
        if callee is None or not self.inline(callee):
            return []
        body = callee.node.body
        rebound = {x.id for st_ in body for x in ast.walk(st_) if isinstance(x, ast.Name) and isinstance(x.ctx, (ast.Store, ast.Del))}
        muts = set(_mutated_names(body)) - rebound
        if not muts:
            return []
        a = callee.node.args
        params = [x.arg for x in a.posonlyargs + a.args]
        if isinstance(n.func, ast.Attribute) and params and params[0] in ("self", "cls") and not _is_static(callee):
            params = params[1:]
        out = []
        for i, arg in enumerate(n.args):
            if isinstance(arg, ast.Name) and i < len(params) and params[i] in muts:
                out.append(arg.id)
        for k_ in n.keywords:
            if k_.arg in muts and isinstance(k_.value, ast.Name):
                out.append(k_.value.id)
        return out

    def _apply_closure(self, clo: "_Closure", args, kwargs, fr: Frame):
        node = clo.node
        a = node.args
        params = [x.arg for x in a.posonlyargs + a.args]
        env = dict(clo.env)
        same_scope = clo.func is fr.func
        if same_scope:
            for k_ in list(env):
                if k_ in fr.env:
                    env[k_] = fr.env[k_]
            for k_, v_ in fr.env.items():
                env.setdefault(k_, v_)
        if len(args) > len(params):
            return unk("closure arity")
        for p, v in zip(params, args):
            env[p] = v
        for k, v in kwargs:
            env[k] = v
        defaults = dict(zip(params[len(params) - len(a.defaults):], a.defaults))
        for p in params:
            if p not in env or (p in defaults and p not in dict(zip(params, args)) and p not in dict(kwargs)):
                if p in defaults:
                    env[p] = self._ev(defaults[p], Frame(clo.func, clo.rel, dict(clo.env), fr.depth + 1, fr.binder))
                elif p not in env:
                    return unk("closure argument missing")
        sub = Frame(clo.func, clo.rel, env, fr.depth + 1, fr.binder)
        if fr.depth >= MAX_DEPTH:
            return unk("inlining depth")
        if isinstance(node, ast.Lambda):
            return self._ev(node.body, sub)
        if any(isinstance(x, (ast.Yield, ast.YieldFrom)) for x in walk_no_nested(node)):
            sub.env["<yield>"] = ("list", ())
            r = self._body(node.body, sub)
            if not (r is _FALL or r is None or r == NONE):
                return unk("generator with an exit that is not understood")
            return sub.env.get("<yield>", unk("generator"))
        r = self._body(node.body, sub)
        if same_scope:
            for m_ in _mutated_names(node.body):
                if m_ in fr.env and m_ not in params and m_ in sub.env and sub.env[m_] != fr.env[m_]:
                    fr.env[m_] = sub.env[m_]
        return self._finish(r, sub)

    def _finish(self, r, sub: Frame):
        if r is None or any(r is x for x in (_FALL, _CONT, _BREAK)):
            return NONE
        if r is _MIXED:
            return unk("exit not understood")
        if r[0] == "pret":
            return mk_if(r[1], r[2], NONE)
        return r

    def returned(self, f: Func, args: dict | None = None):
        """Value of the function (early exits merged as conditionals)."""
        env = {}
        a = f.node.args
        for p in [x.arg for x in a.posonlyargs + a.args + a.kwonlyargs]:
            env[p] = ("sym", p)
        env.update(args or {})
        self._closure_bindings(f, env)
        fr = Frame(f, f.rel, env, 0, 0)
        r = self._body(f.node.body, fr)
        out_env = {k: (canon_binders(x) if isinstance(x, tuple) and not k.startswith("<") else x) for k, x in fr.env.items()}
        return canon_binders(self._finish(r, fr)), out_env


class _Closure:
    __slots__ = ("node", "env", "rel", "func")

    def __init__(self, node, env, rel, func):
        self.node = node
        self.env = env
        self.rel = rel
        self.func = func

    def __repr__(self):
        return f"<closure {getattr(self.node, 'name', 'lambda')}>"

    def __eq__(self, other):
        return isinstance(other, _Closure) and ast.dump(self.node) == ast.dump(other.node)

    def __hash__(self):
        return hash(ast.dump(self.node))


_FALL = ("fall",)
_BREAK = ("break",)
_CONT = ("continue",)
_MIXED = ("mixed-exit",)


def _is_lookup_guard(st: ast.Try) -> bool:
    if len(st.body) != 1 or len(st.handlers) != 1 or st.finalbody:
        return False
    asg = st.body[0]
    if not (isinstance(asg, (ast.Assign, ast.AnnAssign)) and isinstance(asg.value, ast.Subscript) and not isinstance(asg.value.slice, ast.Slice)):
        return False
    h = st.handlers[0]
    if h.type is None or (dotted(h.type) or "").split(".")[-1] != "KeyError" or not h.body:
        return False
    return isinstance(h.body[-1], (ast.Continue, ast.Return, ast.Raise, ast.Break))


def _lift_raise(v):
    """v = (raise X if c else w)  ->  (('pret', c, ('raise', X)), w); nested conditionals are followed along the
    non-raising side only."""
    if v[0] == "raise":
        return ("pret", C(True), v), NONE
    if v[0] == "if":
        if v[2][0] == "raise":
            inner, rest = _lift_raise(v[3]) if has(v[3], "raise") and v[3][0] == "if" else (None, v[3])
            if inner is None:
                return ("pret", v[1], v[2]), rest
            if inner[2] == v[2]:
                return ("pret", mk_or(v[1], inner[1]), v[2]), rest
            return ("pret", v[1], v[2]), v[3]
        if v[3][0] == "raise":
            inner, rest = _lift_raise(v[2]) if has(v[2], "raise") and v[2][0] == "if" else (None, v[2])
            c = mk_not(v[1])
            if inner is None:
                return ("pret", c, v[3]), rest
            if inner[2] == v[3]:
                return ("pret", mk_or(c, inner[1]), v[3]), rest
            return ("pret", c, v[3]), v[2]
    return None, v


def _has_exit(st) -> bool:
    for n in walk_no_nested(st):
        if isinstance(n, (ast.Return, ast.Raise, ast.Break, ast.Continue)):
            return True
    return False


def _always_exits(stmts) -> bool:
    if not stmts:
        return False
    last = stmts[-1]
    if isinstance(last, (ast.Return, ast.Raise)):
        return True
    if isinstance(last, ast.If):
        return _always_exits(last.body) and _always_exits(last.orelse)
    return False


def _is_static(f: Func) -> bool:
    return any(d.split(".")[-1] == "staticmethod" for d in f.decorators())


def _load(t):
    import copy

    t2 = copy.deepcopy(t)
    for x in ast.walk(t2):
        if hasattr(x, "ctx"):
            x.ctx = ast.Load()
    return t2


LIB_ALIASES = {
    # documented aliases of one object in sympy
    "sympy.functions.Piecewise": "sympy.Piecewise",
    "sympy.functions.elementary.piecewise.Piecewise": "sympy.Piecewise",
    "sympy.S.true": "sympy.true",
    "sympy.S.false": "sympy.false",
    "sympy.logic.boolalg.true": "sympy.true",
    "sympy.core.relational.Relational": "sympy.Rel",
    "sympy.core.numbers.NegativeOne": "sympy.S.NegativeOne",
    "sympy.tensor.indexed.Indexed": "sympy.Indexed",
    "sympy.tensor.indexed.IndexedBase": "sympy.IndexedBase",
    "sympy.tensor.IndexedBase": "sympy.IndexedBase",
    "sympy.core.symbol.Symbol": "sympy.Symbol",
    "sympy.functions.exp": "sympy.exp",
    "sympy.functions.elementary.exponential.exp": "sympy.exp",
}


def canon_sym(text: str) -> str:
    for k, v in LIB_ALIASES.items():
        if text == k or text.startswith(k + "."):
            return v + text[len(k):]
    return text


def _attr(base, name):
    if base[0] == "enum":  # ('enum', class, member, value): a member of an Enum class, supplied by a rule
        if name == "value":
            return C(base[3])
        if name == "name":
            return C(base[2])
    if base[0] == "sym":
        return ("sym", canon_sym(base[1] + "." + name))
    return ("attr", base, name)


# methods whose result is a string whatever the receiver (sympy's printer API, str methods)
STR_METHODS = {"doprint", "_print", "strip", "lstrip", "rstrip", "format", "lower", "upper", "replace", "_get_comment", "_get_statement", "_format"}


def _unrollable(items) -> bool:
    """a known sequence is executed element by element when it is short, or when it is a table of constants
    (constant propagation through a literal table costs nothing however long the table is)"""
    if len(items) <= 16:
        return True

    def const(x):
        return x[0] == "c" or (x[0] == "list" and all(const(y) for y in x[1]))

    return len(items) <= 512 and all(const(x) for x in items)


def _empty_of_same_kind(a, e) -> bool:
    """e is the empty value of the type a is known to have"""
    if e[0] == "call" and e[1] in ("set", "list", "dict", "tuple", "frozenset") and not e[2] and not e[3]:
        return a[0] == "call" and a[1] == e[1]
    if e == ("list", ()):  # [], (), set(), list(), tuple() are all modelled as the empty sequence
        return a[0] in ("list", "comp") or (a[0] == "call" and a[1] in ("set", "list", "tuple", "frozenset", "sorted"))
    if e == ("dict", ()):
        return a[0] == "dict"
    if e == C(""):
        return _is_str(a)
    return False


def _is_boolean(v) -> bool:
    return (
        v[0] in ("cmp", "not", "bool")
        or (v[0] == "c" and isinstance(v[1], bool))
        or (v[0] == "call" and v[1] in ("isinstance", "issubclass", "any", "all", "bool", "callable", "hasattr", "nonempty", "raised"))
        or (v[0] == "mcall" and v[2] in ("startswith", "endswith", "has", "isidentifier", "isdigit", "exists", "is_file", "is_dir", "issubset", "issuperset", "isdisjoint"))
        or (v[0] == "if" and _is_boolean(v[2]) and _is_boolean(v[3]))
    )


def _is_str(v) -> bool:
    return (
        (v[0] == "c" and isinstance(v[1], str))
        or v[0] in ("s", "join")
        or (v[0] == "if" and _is_str(v[2]) and _is_str(v[3]))
        or (v[0] == "call" and v[1] in ("indent", "dedent", "str", "repr"))
        or (v[0] == "mcall" and v[2] in STR_METHODS)
    )


def _pairs_to_events(v):
    """a comprehension / list of (key, value) pairs as the store events of the mapping it builds"""
    if v[0] == "comp" and len(v[3]) == 1 and v[3][0][0] == "list" and len(v[3][0][1]) == 2:
        k, x = v[3][0][1]
        return mk_list((("spread", ("comp", v[1], v[2], (("kv", k, x),), v[4])),))
    if v[0] == "list":
        # a pair whose two parts are constants is folded into one constant tuple by the list constructor: unfold
        items = tuple(("list", (C(i[1][0]), C(i[1][1]))) if i[0] == "c" and isinstance(i[1], tuple) and len(i[1]) == 2 else i for i in v[1])
        v = ("list", items)
    if v[0] == "list" and all(i[0] == "list" and len(i[1]) == 2 for i in v[1]):
        if all(i[1][0][0] == "c" for i in v[1]):
            return ("dict", tuple((i[1][0], i[1][1]) for i in v[1]))
        return ("list", tuple(("kv", i[1][0], i[1][1]) for i in v[1]))
    return ("call", "dict", (v,), ())


def _as_events(v):
    """A mapping under construction as the list of its store events ('kv', key, value) / ('kadd', key, value)."""
    if v[0] == "dict":
        return ("list", tuple(("kv", k, x) for k, x in v[1]))
    if v[0] in ("list", "acc"):
        return v
    if v[0] == "call" and v[1].split(".")[-1] in ("defaultdict", "dict", "OrderedDict") and not v[3] and all(a[0] in ("sym",) for a in v[2]):
        return ("list", ())
    return None


def _is_seq(v) -> bool:
    return v[0] in ("list", "acc", "comp")


def _items(v):
    return v[1] if v[0] == "list" else (("spread", v),)


def _spread_items(v):
    if v[0] == "list":
        return v[1]
    return (("spread", v),)


def _target_names(t) -> list[str]:
    return [x.id for x in ast.walk(t) if isinstance(x, ast.Name)]


def _assigned_in(stmts) -> list[str]:
    out = []
    for st in stmts:
        for n in _assigned(st):
            if n not in out:
                out.append(n)
    return out


def _assigned(st) -> list[str]:
    out = []
    for n in ast.walk(st):
        if isinstance(n, (ast.FunctionDef, ast.Lambda)) and n is not st:
            continue
        if isinstance(n, ast.Name) and isinstance(n.ctx, (ast.Store, ast.Del)):
            out.append(n.id)
        elif isinstance(n, ast.Call) and isinstance(n.func, ast.Attribute) and isinstance(n.func.value, ast.Name) and n.func.attr in ("append", "extend", "add", "update", "insert", "pop", "remove", "clear", "sort", "reverse", "setdefault", "discard"):
            out.append(n.func.value.id)
        elif isinstance(n, ast.Subscript) and isinstance(n.ctx, ast.Store) and isinstance(n.value, ast.Name):
            out.append(n.value.id)
        elif isinstance(n, ast.Call) and isinstance(n.func, ast.Attribute) and isinstance(n.func.value, ast.Subscript) and isinstance(n.func.value.value, ast.Name) and n.func.attr in ("append", "extend", "add", "update"):
            out.append(n.func.value.value.id)
        elif isinstance(n, ast.Call) and isinstance(n.func, ast.Attribute) and n.func.attr == "setdefault" and isinstance(n.func.value, ast.Name):
            out.append(n.func.value.id)
        elif isinstance(n, (ast.Yield, ast.YieldFrom)):
            out.append("<yield>")
        elif isinstance(n, ast.Call) and isinstance(n.func, ast.Name) and n.func.id == "next" and len(n.args) == 1 and isinstance(n.args[0], ast.Name):
            out.append(n.args[0].id)  # next(c) advances the iterator c
    return out


def _mutated_names(body) -> list[str]:
    """Names mutated in place (method calls, subscript stores) - not plain re-bindings."""
    out = []
    for st in body:
        for n in ast.walk(st):
            if isinstance(n, ast.Call) and isinstance(n.func, ast.Attribute) and n.func.attr in ("append", "extend", "add", "update", "insert", "pop", "remove", "clear", "sort", "reverse", "setdefault", "discard"):
                b = n.func.value
                if isinstance(b, ast.Subscript):
                    b = b.value
                if isinstance(b, ast.Name):
                    out.append(b.id)
            elif isinstance(n, ast.Subscript) and isinstance(n.ctx, ast.Store) and isinstance(n.value, ast.Name):
                out.append(n.value.id)
            elif isinstance(n, ast.Call) and isinstance(n.func, ast.Name) and n.func.id == "next" and len(n.args) == 1 and isinstance(n.args[0], ast.Name):
                out.append(n.args[0].id)
    return out


def _merge(cond, a, b):
    """phi of two values; lists that share a prefix keep it and guard the rest."""
    if a[0] == "acc" and b[0] == "list" and b[1] and b[1][0] == ("spread", a):
        a = ("list", (("spread", a),))
    if b[0] == "acc" and a[0] == "list" and a[1] and a[1][0] == ("spread", b):
        b = ("list", (("spread", b),))
    if a[0] == "list" and b[0] == "list":
        n = 0
        while n < len(a[1]) and n < len(b[1]) and a[1][n] == b[1][n]:
            n += 1
        common = a[1][:n]
        ra, rb = a[1][n:], b[1][n:]
        # common suffix
        m = 0
        while m < len(ra) and m < len(rb) and ra[len(ra) - 1 - m] == rb[len(rb) - 1 - m]:
            m += 1
        suffix = ra[len(ra) - m:] if m else ()
        ra, rb = ra[: len(ra) - m], rb[: len(rb) - m]
        mid = tuple(("when", cond, i) for i in ra) + tuple(("when", mk_not(cond), i) for i in rb)
        return mk_list(common + mid + suffix)
    return mk_if(cond, a, b)


# --------------------------------------------------------------------------------------------------------
# flat text of a string value (what the generated text looks like, holes for what is not a string literal)

HO, HC = "\ue000", "\ue001"  # hole delimiters inside flat text


def flatten(v) -> str:
    """Text of a string value with holes HO<term>HC.  indent / dedent with constant prefixes are applied to the
    text; a join over a comprehension becomes ⟦for $d in <iter>: body⟧."""
    t = v[0]
    if t == "c":
        return v[1] if isinstance(v[1], str) else str(v[1])
    if t == "s":
        out = []
        for p in v[1]:
            if p[0] == "lit":
                out.append(p[1])
            else:
                out.append(_flat_hole(p[1]))
        return "".join(out)
    return _flat_hole(v)


def _flat_hole(v) -> str:
    t = v[0]
    if t in ("c", "s"):
        return flatten(v)
    if t == "call" and v[1] == "indent" and len(v[2]) >= 2 and v[2][1][0] == "c" and not v[3]:
        return textwrap.indent(flatten(v[2][0]), v[2][1][1])
    if t == "call" and v[1] == "dedent" and len(v[2]) == 1:
        return textwrap.dedent(flatten(v[2][0]))
    if t == "join":
        sep = flatten(v[1]) if _is_str(v[1]) else None
        seq = v[2]
        if sep is not None and seq[0] == "list":
            out = []
            for it in seq[1]:
                if it[0] == "spread" and it[1][0] == "comp":
                    cp = it[1]
                    cs = "".join(f" if {show(c)}" for c in cp[4])
                    sp = f"|sep={sep!r}" if sep else ""
                    out.append(f"⟦for ${cp[1]} in {show(cp[2])}{cs}{sp}: " + sep.join(flatten(i) if _is_str(i) else HO + show(i) + HC for i in cp[3]) + "⟧")
                elif it[0] in ("spread", "when"):
                    out.append(HO + show(it) + HC)
                else:
                    out.append(flatten(it) if _is_str(it) else HO + show(it) + HC)
            return sep.join(out)
        if sep is not None and seq[0] == "comp":
            return _flat_hole(("join", v[1], ("list", (("spread", seq),))))
    return HO + show(v) + HC


def compatible(v, want) -> bool:
    """Could v be `want` once its not-understood parts (unk terms) are known?  unk matches anything; everything else
    must agree structurally.  `not compatible` is a definite difference even for a partly unknown value."""
    if isinstance(v, tuple) and v and v[0] == "unk":
        return True
    if isinstance(want, tuple) and want and want[0] == "unk":
        return True
    if isinstance(v, tuple) and isinstance(want, tuple):
        if len(v) != len(want):
            return False
        return all(compatible(a, b) for a, b in zip(v, want))
    return v == want


def to_python(v, names: dict | None = None) -> str:
    """Python source text of a term (for the term evaluator of sa.te); bound elements are named by `names`
    ({depth: identifier}).  Raises ValueError for terms that have no expression form."""
    names = names or {}
    t = v[0]
    r = lambda x: to_python(x, names)  # noqa: E731
    if t == "c":
        return repr(v[1])
    if t == "sym":
        return v[1]
    if t == "enum":
        return f"{v[1]}.{v[2]}"
    if t == "bv":
        base = names.get(v[1], f"_bv{v[1]}")
        return base + "".join(f"[{i}]" for i in v[2:])
    if t in ("idx", "cidx", "first", "acc"):
        return f"_{t}{v[1]}"
    if t == "attr":
        return f"{r(v[1])}.{v[2]}"
    if t == "sub":
        return f"{r(v[1])}[{r(v[2])}]"
    if t == "call":
        a = [r(x) for x in v[2]] + [f"{k}={r(x)}" for k, x in v[3] if k != "**"]
        return f"{v[1]}({', '.join(a)})"
    if t == "mcall":
        a = [r(x) for x in v[3]] + [f"{k}={r(x)}" for k, x in v[4] if k != "**"]
        return f"{r(v[1])}.{v[2]}({', '.join(a)})"
    if t == "op":
        if v[1] in ("neg", "pos"):
            return f"({'-' if v[1] == 'neg' else '+'}{r(v[2])})"
        return f"({r(v[2])} {v[1]} {r(v[3])})"
    if t == "cmp":
        return f"({r(v[2])} {v[1]} {r(v[3])})"
    if t == "not":
        return f"(not {r(v[1])})"
    if t == "bool":
        return "(" + f" {v[1]} ".join(r(x) for x in v[2]) + ")"
    if t == "if":
        return f"({r(v[2])} if {r(v[1])} else {r(v[3])})"
    if t == "list":
        if any(i[0] in ("spread", "when", "kv", "kadd", "ev", "obj") for i in v[1]):
            raise ValueError("list with structured items")
        return "[" + ", ".join(r(i) for i in v[1]) + "]"
    if t == "s":
        out = []
        for p in v[1]:
            if p[0] == "lit":
                out.append(p[1].replace("{", "{{").replace("}", "}}").replace('"', '\\"'))
            else:
                out.append("{" + r(p[1]) + "}")
        return 'f"' + "".join(out) + '"'
    raise ValueError(f"no expression form for {t}")
