"""Template model (TM): the string skeletons of templates/python.py, jax.py, c.py.

A template function returns ``dedent(f'''...''')``.  The f-string is *not* evaluated: each
placeholder ``{expr}`` is replaced by the identifier ``PH_<expr>`` and, for the Python / JAX
templates, the resulting text is parsed with ``ast`` so that bound names, statement order,
calls and stores of the generated function can be inspected.
"""

from __future__ import annotations

import ast
import re
import textwrap
from dataclasses import dataclass

from .core import AnalysisError
from .sm import Func, SourceModel, dotted, norm


def _san(expr_text: str) -> str:
    return "PH_" + re.sub(r"\W+", "_", expr_text).strip("_")


@dataclass
class Skeleton:
    func: Func
    text: str  # with PH_ identifiers
    placeholders: dict  # PH_name -> source expression text
    raw: str  # with {expr} markers


def fstring_parts(node) -> tuple[str, dict, str] | None:
    if isinstance(node, ast.Constant) and isinstance(node.value, str):
        return node.value, {}, node.value
    if isinstance(node, ast.JoinedStr):
        out, raw, ph = [], [], {}
        for v in node.values:
            if isinstance(v, ast.Constant):
                out.append(str(v.value))
                raw.append(str(v.value))
            elif isinstance(v, ast.FormattedValue):
                t = norm(v.value)
                name = _san(t)
                ph[name] = t
                out.append(name)
                raw.append("{" + t + "}")
        return "".join(out), ph, "".join(raw)
    return None


def returned_skeletons(f: Func) -> list[Skeleton]:
    """Skeletons of every (f-)string that a template function returns, directly or via dedent()."""
    out = []
    for n in ast.walk(f.node):
        if isinstance(n, ast.Return) and n.value is not None:
            v = n.value
            if isinstance(v, ast.Call) and (dotted(v.func) or "").split(".")[-1] == "dedent" and v.args:
                v = v.args[0]
            parts = fstring_parts(v)
            if parts is not None:
                text, ph, raw = parts
                out.append(Skeleton(f, textwrap.dedent(text), ph, textwrap.dedent(raw)))
    return out


def local_strings(f: Func) -> dict[str, Skeleton]:
    """name -> skeleton for locals assigned from (f-)strings, indent(f-string, ...) or dedent(...)"""
    out = {}
    for n in ast.walk(f.node):
        if isinstance(n, ast.Assign) and len(n.targets) == 1 and isinstance(n.targets[0], ast.Name):
            v = n.value
            while isinstance(v, ast.Call) and (dotted(v.func) or "").split(".")[-1] in ("dedent", "indent") and v.args:
                v = v.args[0]
            parts = fstring_parts(v)
            if parts is not None:
                text, ph, raw = parts
                out[n.targets[0].id] = Skeleton(f, text, ph, raw)
    return out


def py_parse(sk: Skeleton) -> ast.Module:
    """Parse a Python/JAX skeleton; placeholder-only lines become indented expression statements."""
    lines = sk.text.split("\n")
    fixed = []
    in_def = False
    for ln in lines:
        stripped = ln.strip()
        if stripped.startswith("def ") or stripped.startswith("@"):
            in_def = in_def or stripped.startswith("def ")
        if in_def and re.fullmatch(r"PH_\w+", stripped) and not ln.startswith(" "):
            fixed.append("    " + stripped)
        else:
            fixed.append(ln)
    src = "\n".join(fixed)
    try:
        return ast.parse(src)
    except SyntaxError as e:
        raise AnalysisError(f"template skeleton of {sk.func.key()} does not parse after placeholder substitution: {e}")


class Undecided(Exception):
    """The template's text is not a single skeleton (unresolved conditional / unknown construction)."""


def av_skeleton(sm: SourceModel, f: Func, args: dict | None = None) -> Skeleton:
    """Skeleton of the text a template function returns, computed by the abstract value evaluator: helpers are
    expanded, locals resolved to the function's parameters, indent / dedent applied.  Holes are written
    ``{term}`` in ``raw`` and ``PH_term`` in ``text``."""
    from . import av

    A = av.AV(sm, inline=lambda callee: True)
    val, _ = A.returned(f, args)
    if av.has_unk(val):
        raise Undecided(f"{f.key()}: the returned text is not understood ({av.find_all(val, 'unk')[0][1]})")
    if val[0] == "if" or not av._is_str(val):
        raise Undecided(f"{f.key()}: the returned text depends on {av.show(val[1]) if val[0] == 'if' else 'a non-string construction'}")
    flat = av.flatten(val)
    raw, text, ph = [], [], {}
    i = 0
    while i < len(flat):
        j = flat.find(av.HO, i)
        if j < 0:
            raw.append(flat[i:])
            text.append(flat[i:])
            break
        raw.append(flat[i:j])
        text.append(flat[i:j])
        k = flat.find(av.HC, j)
        term = flat[j + 1: k]
        name = _san(term)
        ph[name] = term
        raw.append("{" + term + "}")
        text.append(name)
        i = k + 1
    txt = "".join(text)
    for k, m in enumerate(re.findall(r"⟦[^⟧]*⟧", txt)):
        ph[f"PH_loop_{k}"] = m
        txt = txt.replace(m, f"PH_loop_{k}", 1)
    return Skeleton(f, txt, ph, "".join(raw))


class TemplateModel:
    def __init__(self, sm: SourceModel):
        self.sm = sm
        self.mods = {}
        for short in ("templates/python.py", "templates/jax.py", "templates/c.py"):
            self.mods[short] = {f.qualname: f for f in sm.funcs_in(short) if "." not in f.qualname}
        # names imported from a sibling template module (jax re-uses python's index functions)
        self.reexports = {}
        for short in self.mods:
            imps = sm.module_imports(short)
            for local, origin in imps.items():
                modname, _, name = origin.rpartition(".")
                rel = sm.resolve_module_rel(modname)
                if rel and rel.endswith("templates/python.py") and short != "templates/python.py":
                    self.reexports[(short, local)] = ("templates/python.py", name)

    def func(self, short: str, name: str) -> Func | None:
        f = self.mods.get(short, {}).get(name)
        if f is None and (short, name) in self.reexports:
            s2, n2 = self.reexports[(short, name)]
            f = self.mods.get(s2, {}).get(n2)
        return f

    def skeleton(self, short: str, name: str, args: dict | None = None) -> Skeleton:
        """Resolved skeleton (see av_skeleton); raises Undecided when the text is not a single skeleton."""
        f = self.func(short, name)
        if f is None:
            raise AnalysisError(f"template function {short}::{name} not found")
        return av_skeleton(self.sm, f, args)
