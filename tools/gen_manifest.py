#!/venv/bin/python
"""Regenerate MANIFEST.json from the table below (one entry per implemented property)."""
import json
import subprocess
from pathlib import Path

VERIF = Path(__file__).resolve().parent.parent
props = [json.loads(l)["id"] for l in (VERIF / "properties.jsonl").read_text().splitlines() if l.strip()]

CLAIMED = {
    "C04": dict(
        technique="static analysis: slot-family extraction over the ast (producers of name<->index pairs normalised by inlining the model's accessors), def-use of remove_unused in sorted_assignments, template skeleton parsing; since the rebuild the function-level clauses are decided on abstract values (sa/av.py: symbolic summaries of what a function computes, compared with the vetted reference value; three-valued: ok / violation / undecided)",
        text="Decides the structure the property factors through, for all models at once: every producer of a (name, index) pair (18 sites: enumerate / counters / template lists / matrices) numbers its family's slots over a sequence proven order-equivalent to the family's public index function; index templates refuse unknown names; init templates use their own index function; the argument-order enums are exactly the permutations and only reach the formal list; declared counts belong to the family's size class. Also: the ordered accessors of the model sort sets (one slot per atom even when it belongs to several components).",
        note="Assumes sympy prints Indexed(X,i) as X[i] and that sequence expressions keep the shapes the normaliser knows (comprehensions, tuple/list, accessor calls); an unknown shape is reported, never assumed equal. No generated code is executed.",
        ref="3/C04",
    ),
    "C05": dict(
        technique="static analysis: path enumeration of the scheme builder + AC-normalised term comparison; alias table and template/Func-tuple inspection; since the rebuild the function-level clauses are decided on abstract values (sa/av.py: symbolic summaries of what a function computes, compared with the vetted reference value; three-valued: ok / violation / undecided)",
        text="Decides, for every model at once, that each path of explicit_euler for a state derivative prints the derivative first and stores exactly STATE + DT*DERIV at the state's slot (counter advanced once, after the store), that every accepted alias and Scheme member maps to the builder of its family and the generated function carries the requested name, that the result array is freshly allocated and inputs are const / never stored through, and that the dt symbol is the formal argument. Numerical equality up to rounding is not decided. Also: generator methods keep no state between calls (a remembered argument tuple fixes later signatures) and jax functions carry a plain @jax.jit (no buffer donation).",
        note="Terms are compared syntactically modulo associativity/commutativity of + and *; sympy's printing of Add/Mul/Indexed is trusted.",
        ref="3/C05",
    ),
    "C06": dict(
        technique="static analysis: path table of generalized_rush_larsen against reference terms; condition-chain analysis of fraction_numerator_is_nonzero; per-scheme evaluation of add_schemes' keyword arguments; since the rebuild the function-level clauses are decided on abstract values (sa/av.py: symbolic summaries of what a function computes, compared with the vetted reference value; three-valued: ok / violation / undecided)",
        text="Decides the formula structure: Euler fallback iff the own-state derivative is identically zero, guarded exponential-integrator term iff the zero-division check is needed, plain term otherwise, linearisation = diff of the state's own expression w.r.t. its own state and printed before use; the guard is elided only for a**-1 and products of accepted factors; delta reaches the guard for every scheme that takes it. Convergence / exactness / finiteness are numerical consequences and are not decided. Also: sign() - which only differentiation of abs() puts into a linearisation - is printed by every backend as a function that is 0 at 0. Also: CodeGenerator.scheme keeps no result between calls and the `delta` key of the configuration is merged with the command-line value itself.",
        note="sympy.diff and the printers are trusted; predicates are opaque atoms.",
        ref="3/C06",
    ),
    "C07": dict(
        technique="static analysis: sibling cross-check of path tables (hybrid vs explicit Euler vs generalized RL) after term normalisation; option-flow of stiff_states/delta; since the rebuild the function-level clauses are decided on abstract values (sa/av.py: symbolic summaries of what a function computes, compared with the vetted reference value; three-valued: ok / violation / undecided)",
        text="Decides that hybrid_rush_larsen's path table is {not STIFF or DIFF_ZERO -> the explicit Euler term; STIFF and not DIFF_ZERO -> exactly the two generalized-RL terms}, with STIFF := state name in set(stiff_states) (None = empty), same slot discipline, and that stiff_states/delta reach exactly the builders that take them. Also: the `stiff_states` / `scheme` configuration keys are merged with the command-line values themselves (not with values already altered depending on another option).",
        note="Numerical agreement of generated steps is not decided; the three builders are compared as term tables.",
        ref="3/C07",
    ),
    "C09": dict(
        technique="static analysis: order-provenance dataflow (annotation-typed set/dict/sequence values with HASH taints, interprocedural summaries, sinks = emitted text / slot numbers / topological sorter / templates / ordered accessors) + who-may-write check for process-global state; since the rebuild the function-level clauses are decided on abstract values (sa/av.py: symbolic summaries of what a function computes, compared with the vetted reference value; three-valued: ok / violation / undecided)",
        text="Decides, for all models and hash seeds at once, that no order derived from iterating a set/frozenset (or from a sort with a non-injective key) reaches an order-sensitive sink on the load->generate->save path (all ~30 set-iteration sites are enumerated and discharged), and that no function of the package writes module-level objects (history independence). Also: no public function modifies a caller-supplied argument in place (directly, through an alias, or by handing it to a package function that does), so a list or dict of options passed twice gives the same result twice. An early exit from a loop over an unordered collection may not select by visiting order (sink S9), and no function on the path draws on a per-process source (sympy.Dummy's counter, id(), hash(), uuid, random, temporary names; clocks in the text-producing modules). No method of the model or of a generator keeps results on the object between calls (a cached_property excepted: it has no arguments).",
        note="Receiver types come from the package's annotations (no type checker available); untyped operands are counted and assumed to be external ordered sequences. sympy/graphlib/lark are assumed deterministic given ordered inputs. myokit.py is out of scope.",
        ref="3/C09",
    ),
    "C10": dict(
        technique="static analysis: the same order-provenance dataflow with TEXT taints (ODE.components keeps first-appearance order) + container-kind checks in the transformer; since the rebuild the function-level clauses are decided on abstract values (sa/av.py: symbolic summaries of what a function computes, compared with the vetted reference value; three-valued: ok / violation / undecided)",
        text="Decides that the textual order of blocks/entries/lines is discarded (atoms gathered in frozensets), that the one sequence that keeps text order (ODE.components) reaches no emitted code, slot number, sorter input or ordered accessor, and that ODE.__eq__ does not compare it element-wise. Also: no set-traversal order (which depends on insertion order, hence on the text) reaches those sinks, and a name can be defined only once (the redefinition check compares by identity and precedes the merge into sets), so no survivor of two equal-comparing definitions is chosen by text order.",
        note="lark delivers children in text order; comments' own order is exempt (the property does not permute them).",
        ref="3/C10",
    ),
    "C12": dict(
        technique="static analysis: provenance of every removal predicate (must be `name in ODE.dependents()`), loop/filter shape of dependents(), call-site arguments of the unpack helpers, purity of generator methods, STATE slot family; since the rebuild the function-level clauses are decided on abstract values (sa/av.py: symbolic summaries of what a function computes, compared with the vetted reference value; three-valued: ok / violation / undecided)",
        text="Decides that liveness is computed from the complete, unfiltered dependency relation, that only rhs filters the state unpacking while schemes/monitors unpack every state they read, that generator methods keep no state between calls, and that the state slot layout is independent of remove_unused (post-sort filter over intermediates only). The PARAM slot family is checked the same way (a producer that filters by use before numbering renumbers the used parameters). Every scheme builder prints the definition of each helper name its update formula reads on every path that reads it (it never relies on a same-named definition of the model, which removal would drop).",
        note="Numerical equality of the two generated modules is not decided.",
        ref="3/C12",
    ),
    "C18": dict(
        technique="static analysis: parameter def-use / keyword-forwarding flow over the typer commands, mains and get_code; evaluation-order check of load -> generate -> write; config-key table cross-checked with docs/config.md; since the rebuild the function-level clauses are decided on abstract values (sa/av.py: symbolic summaries of what a function computes, compared with the vetted reference value; three-valued: ok / violation / undecided)",
        text="Decides that every option a conversion command accepts reaches the dispatched main (and from there get_code / the generator / add_schemes / the formatter / the output path), per scheme which keyword arguments are passed, that the output file is touched only after generation returned and holds get_code's text unmodified with no handler around it, that an explicit --config wins, and that every documented configuration key is read with the CLI value as default into the forwarded variable. Also: the file written is the given output name itself (sibling mains agree), validate_scheme keeps one scheme per requested entry in the order given, and the backend selects its generator with unknown backends rejected. Every non-raising path of a main writes the output file, and the project's own pyproject.toml is consulted only where no --config path was given. A command option with a literal default uses the default of the main it is handed to.",
        note="Exit codes as seen from a shell and typer's own validation are not decided.",
        ref="3/C18",
    ),
    "C20": dict(
        technique="static analysis: STATE slot family for the matrix builders; bound/def-use analysis of the substitution loop; wiring of jacobi_matrix; since the rebuild the function-level clauses are decided on abstract values (sa/av.py: symbolic summaries of what a function computes, compared with the vetted reference value; three-valued: ok / violation / undecided)",
        text="Decides that states_matrix/rhs_matrix use the state order of the generated code, that the intermediate-expansion loop substitutes the complete, unmodified map until none are left with a bound that is absent or derived from the model's size (also at every call site), raising only if something is left, and that jacobi_matrix = rhs_matrix(ode).jacobian(states_matrix(ode)). Also: no function of sympytools keeps results in module-level state.",
        note="Equality of the matrices with the model's derivatives is not decided (sympy's xreplace/jacobian trusted).",
        ref="3/C20",
    ),
}

CLAIMED.update({
    "C01": dict(
        technique="static analysis: path/term tables of binary_op / unary_op / Conditional / ContinuousConditional, grammar-model comparison of the precedence ladder and function vocabulary, printer-resolution table (sympy MRO + ast of gotranx overrides), STATE slot family; since the rebuild the function-level clauses are decided on abstract values (sa/av.py: symbolic summaries of what a function computes, compared with the vetted reference value; three-valued: ok / violation / undecided)",
        text="Decides structural necessary conditions of the front end and of rhs emission for all models at once: operator table and fold direction, precedence ladder, function vocabulary bound to the right sympy objects, conditional builders, definition-before-use, time aliases, NumPy printer coverage of every producible class, and that each derivative lands in its state's slot. It does NOT decide numerical equality to rounding.",
        note="sympy's inherited printers are trusted as recorded in the vetted table (sympy 1.14.0); numerics are not decided.",
        ref="3/C01",
    ),
    "C02": dict(
        technique="static analysis: C printer resolution table with vetted verdicts, ast checks of gotranx overrides (Mod, Piecewise, Float), regex-AST check of post-processing, C template / count / slot-family checks; since the rebuild the function-level clauses are decided on abstract values (sa/av.py: symbolic summaries of what a function computes, compared with the vetted reference value; three-valued: ok / violation / undecided)",
        text="Decides necessary conditions: every producible class is printed by a vetted value-preserving method or an analysed gotranx method (Mod with the divisor's sign, ternary conditionals), post-processing only rewrites whole words, index chains / counts / const formals / slot layout have the required shape. The known integer-division defect is reported as a KNOWN-FINDING. That the C code compiles and agrees numerically is not decided. Also: the front end shared with the other backends (operator table, folds, precedence, vocabulary, conditional builders) and the replacement function of bool_to_int evaluated per word.",
        note="Only a compiler decides compilation; numerics not decided; printer table for sympy 1.14.0.",
        ref="3/C02",
    ),
    "C03": dict(
        technique="static analysis: size-class analysis of num_return_values vs the extent of the filled array, template skeleton checks, JaxPrinter rewrite rule, emitted-API table; since the rebuild the function-level clauses are decided on abstract values (sa/av.py: symbolic summaries of what a function computes, compared with the vetted reference value; three-valued: ok / violation / undecided)",
        text="Decides that every method hands the JAX template the extent of the array it fills, that the template returns exactly _values_0.._values_{n-1} in order and JaxPrinter rewrites exactly the stores into `values`, that templates are functional (no in-place stores) and that every numpy.<name> a print method can emit is callable that way under jax.numpy with n-ary And/Or keeping all operands. Importability / jit / numerics are not decided. Also: the shared front end; every keyword handed to the method template is a named, used parameter of the jax template; get_code generates for the model it was given in every backend.",
        note="jax itself is not executed.",
        ref="3/C03",
    ),
    "C08": dict(
        technique="static analysis: guard-structure checks (registry scope, redefinition raise before set merge, recorded kinds, predicate), pairing guards, frozen table of every except clause; since the rebuild the function-level clauses are decided on abstract values (sa/av.py: symbolic summaries of what a function computes, compared with the vetted reference value; three-valued: ok / violation / undecided)",
        text="Decides that the guards exist, see every definition and cannot be bypassed: redefinitions raise before atoms are merged in sets, gather_atoms records all four kinds (tagged), check_components runs first for every component, d<x>_dt always goes through find_state, undefined symbols become MissingSymbolError, and no except clause outside the vetted table can swallow an error. That every concrete ill-formed text raises is not decided. Also: one atom per entry of a declaration block, atoms registered over every item of a line, sort_assignments hands every dependency to graphlib, no path fabricates a symbol for an unknown name. The registry of first definitions is keyed by the name alone, and the expression builder visits every child of every node (an undefined name in any operand, argument or branch is looked up).",
        note="lark / graphlib behaviour trusted.",
        ref="3/C08",
    ),
    "C11": dict(
        technique="static analysis: writer-vocabulary vs grammar-vocabulary (printer resolution table x grammar model), operator table, coverage of the writer helpers; since the rebuild the function-level clauses are decided on abstract values (sa/av.py: symbolic summaries of what a function computes, compared with the vetted reference value; three-valued: ok / violation / undecided)",
        text="Decides that everything the writer can emit for a producible class is accepted by ode.lark with the right head per operator and all operands, that all sections / atoms / annotations are written unmodified, header-less expressions first, and that the reader applies functions to all arguments. Numerical equality after reload is not decided. Also: the grammar's number token accepts, as one token, every shape of literal the writer prints (witness per shape, matched against the regular expression lark compiles the terminal to), and each annotation is left out exactly when the atom does not have it.",
        note="sympy StrPrinter rows as vetted for 1.14.0.",
        ref="3/C11",
    ),
    "C13": dict(
        technique="static analysis: definition of missing_variables, sibling agreement of the four generator methods and two templates, path enumeration of the missing_values loops (counter discipline); since the rebuild the function-level clauses are decided on abstract values (sa/av.py: symbolic summaries of what a function computes, compared with the vetted reference value; three-valued: ok / violation / undecided)",
        text="Decides that missing variables are exactly used-minus-defined in sorted numbering, that rhs / monitor_values / missing_values / scheme all unpack them and pass the formal, that missing_values can export states, parameters and every assignment at the requested slot with the early exit after the store, that the jax template returns slots in order, and that model - C / C.to_ode() keep the right components. Numerical agreement of sub-models is not decided.",
        note="",
        ref="3/C13",
    ),
    "C14": dict(
        technique="static analysis: array-safety lint over the NumPy printer resolution table (vetted inherited methods + fragments of gotranx methods), class-table constant folding, shape-template checks; since the rebuild the function-level clauses are decided on abstract values (sa/av.py: symbolic summaries of what a function computes, compared with the vetted reference value; three-valued: ok / violation / undecided)",
        text="Decides that no scalar-only or batch-reducing construct can be emitted for any producible class (conditional expressions, and/or/not, math.*, reductions such as numpy.all / allclose / .reduce), that a surviving Not is normalised before printing, and that result shapes use the batch axis states.shape[1] for all three Shape members. Column-wise numerical equality is not decided. Also: logical connectives are built evaluated, so no unevaluated Not reaches the scalar-only printer.",
        note="sympy 1.14.0 vetted table.",
        ref="3/C14",
    ),
    "C15": dict(
        technique="static analysis: clone-consistency and bookkeeping checks of the Myokit converter (rename sites, substitution chains, initial-value lookup, two-pass export); since the rebuild the function-level clauses are decided on abstract values (sa/av.py: symbolic summaries of what a function computes, compared with the vetted reference value; three-valued: ok / violation / undecided)",
        text="Decides only necessary bookkeeping conditions of the converter. The main content of the property - the generated rhs equals Myokit's own evaluation - is NOT decided and cannot be decided statically; this check is claimed for the clauses named in its evidence only. Also: units on export, writer rows and unvetted printer overrides on the save-and-reload path. Also recorded here: the NumPy function table names the functions of the model, Equality is printed as the exact comparison, and the writer nests a Piecewise first-pair-outermost.",
        note="Myokit is not executed; dynamics are not decided.",
        ref="3/C15",
    ),
    "C16": dict(
        technique="static analysis: shape of the singularity rewrite (linear use of the original expression), skip predicate, search loop, lookup scope; since the rebuild the function-level clauses are decided on abstract values (sa/av.py: symbolic summaries of what a function computes, compared with the vetted reference value; three-valued: ok / violation / undecided)",
        text="Decides that the rewrite uses the original expression once on the regular branch (today it does not: KNOWN-FINDING, a test pins the defective output), that exactly the infinite singularities are skipped, that the search covers every stateful dependency model-wide without early exit, and that nothing changes without singularities. Correctness of sympy's limits and numerical agreement are not decided. Also: the expression is returned unchanged on exactly the leaves where nothing is removable.",
        note="sympy.singularities / limit trusted.",
        ref="3/C16",
    ),
    "C17": dict(
        technique="static analysis: taint of free text (comment / unit strings) into evaluators, handler breadth, regex star-height, grammar-model checks of the comment terminal and tagged blocks, who-may-read table for annotation attributes; since the rebuild the function-level clauses are decided on abstract values (sa/av.py: symbolic summaries of what a function computes, compared with the vetted reference value; three-valued: ok / violation / undecided)",
        text="Decides which code can see comment / annotation text and what it may do with it: evaluators reached (three KNOWN-FINDINGs: pint evaluates the text), every failure treated as 'not a unit', no super-linear regex or recursion on it; the grammar makes comments one line-bounded terminal and accepts comment / blank lines inside tagged blocks; no generator, template or scheme reads unit / description / comment. 'Never hangs' as such is not decided. Also: the text the parser sees is the model text itself - no rewrite of the raw text (which cannot know where comments are) sits between the file and the grammar. Free text is never part of a %-format / str.format template (logging calls with arguments), and annotations are not read through getattr either.",
        note="pint behaviour as observed for 0.26.",
        ref="3/C17",
    ),
    "C19": dict(
        technique="static analysis: reserved-name extraction from template skeletons / argument tables vs presence of a guard; whole-word regex check; grammar terminals; printed-text-only interpolation lint over print methods; since the rebuild the function-level clauses are decided on abstract values (sa/av.py: symbolic summaries of what a function computes, compared with the vetted reference value; three-valued: ok / violation / undecided)",
        text="Decides the set of names the generated code uses for itself and whether a guard covers it (today none: KNOWN-FINDING), that post-processing cannot corrupt identifiers, that only the exact token `pi` is the constant, that the Myokit importer renames consistently, and that print methods only interpolate printed text (sympy's reserved-word renaming cannot be bypassed). Behaviour per identifier is not decided. Also: `t` and `time` are the time symbol of every model and `t` is never a missing variable, so the generated functions' own time argument is never re-bound from the model. Also: no run-time generated temporaries (cse / numbered_symbols / Dummy), whole-name matching in the C index functions, writer constants. Print methods' class-level attributes do not replace sympy's reserved words, every binding `<name> = ...` in generated code is produced by the printer, and the name -> slot tables are keyed by the model's own names.",
        note="",
        ref="3/C19",
    ),
})

NOT_YET = "check under construction (see DESIGN.md); not claimed yet"

fix_commits = subprocess.run(["git", "-C", "/repo", "log", "--format=%H %s"], capture_output=True, text=True).stdout.splitlines()
fix_commits = [l.split()[0] for l in fix_commits if l.split(" ", 1)[1].startswith("fix:")][::-1]

manifest = {
    "version": 1,
    "setup_cmd": "true",
    "hooks": {
        "guard": "FINSBERG_GOTRANX_VERIF",
        "enable": "no hooks: the checks only read /repo's source (ast, ode.lark, sympy class tables); the guard name is reserved and unused",
        "baseline_off_cmd": "cd /repo && /venv/bin/python -m pytest -ra -q -p no:cacheprovider --timeout=900 --continue-on-collection-errors",
        "source_commits": fix_commits,
        "add_only": True,
    },
    "engines": [
        {"name": "sa", "path": "sa/", "serves_properties": sorted(CLAIMED), "kind_free_text": "repository-specific static analysis engine: source model (ast), abstract value evaluator (symbolic summaries with algebraic normalisation, no execution), order-provenance dataflow, path/term evaluator, slot families, flow rules, grammar / printer / template models"},
    ],
    "checks": [],
    "notes": "All checks are ./check <ID> [--tier quick|thorough] [--repo DIR]; exit 0 held / 1 VIOLATION / 2 ANALYSIS-ERROR. Thorough = quick + in-memory liveness self-test of every rule (micro-mutations of the current source) + regression corpus of seeded changes (must be reported) + negative corpus of behaviour-preserving refactorings (must stay silent). Known findings: known_findings.json.",
    "not_applicable": [],
}
for p in props:
    if p in CLAIMED:
        c = CLAIMED[p]
        manifest["checks"].append(
            {
                "property_id": p,
                "quick_cmd": f"./check {p} --tier quick",
                "thorough_cmd": f"./check {p} --tier thorough",
                "evidence_file": f"evidence/{p}.json",
                "replay_cmd_template": f"./check {p} --replay {{path}}",
                "engine": "sa",
                "level_claimed": {"category": "other", "text": c["text"], "design_ref": c["ref"]},
                "level_note": c["note"],
                "technique": c["technique"],
            }
        )
    else:
        manifest["not_applicable"].append({"property_id": p, "reason": NOT_YET})
(VERIF / "MANIFEST.json").write_text(json.dumps(manifest, indent=1))
print(f"claimed {len(manifest['checks'])}, not_applicable {len(manifest['not_applicable'])}, fix commits {len(fix_commits)}")
