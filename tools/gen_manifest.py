#!/venv/bin/python
"""Regenerate MANIFEST.json from the table below (one entry per implemented property)."""
import json
import subprocess
from pathlib import Path

VERIF = Path(__file__).resolve().parent.parent
props = [json.loads(l)["id"] for l in (VERIF / "properties.jsonl").read_text().splitlines() if l.strip()]

CLAIMED = {
    "C04": dict(
        technique="static analysis: slot-family extraction over the ast (producers of name<->index pairs normalised by inlining the model's accessors), def-use of remove_unused in sorted_assignments, template skeleton parsing",
        text="Decides the structure the property factors through, for all models at once: every producer of a (name, index) pair (18 sites: enumerate / counters / template lists / matrices) numbers its family's slots over a sequence proven order-equivalent to the family's public index function; index templates refuse unknown names; init templates use their own index function; the argument-order enums are exactly the permutations and only reach the formal list; declared counts belong to the family's size class.",
        note="Assumes sympy prints Indexed(X,i) as X[i] and that sequence expressions keep the shapes the normaliser knows (comprehensions, tuple/list, accessor calls); an unknown shape is reported, never assumed equal. No generated code is executed.",
        ref="3/C04",
    ),
    "C05": dict(
        technique="static analysis: path enumeration of the scheme builder + AC-normalised term comparison; alias table and template/Func-tuple inspection",
        text="Decides, for every model at once, that each path of explicit_euler for a state derivative prints the derivative first and stores exactly STATE + DT*DERIV at the state's slot (counter advanced once, after the store), that every accepted alias and Scheme member maps to the builder of its family and the generated function carries the requested name, that the result array is freshly allocated and inputs are const / never stored through, and that the dt symbol is the formal argument. Numerical equality up to rounding is not decided.",
        note="Terms are compared syntactically modulo associativity/commutativity of + and *; sympy's printing of Add/Mul/Indexed is trusted.",
        ref="3/C05",
    ),
    "C06": dict(
        technique="static analysis: path table of generalized_rush_larsen against reference terms; condition-chain analysis of fraction_numerator_is_nonzero; per-scheme evaluation of add_schemes' keyword arguments",
        text="Decides the formula structure: Euler fallback iff the own-state derivative is identically zero, guarded exponential-integrator term iff the zero-division check is needed, plain term otherwise, linearisation = diff of the state's own expression w.r.t. its own state and printed before use; the guard is elided only for a**-1 and products of accepted factors; delta reaches the guard for every scheme that takes it. Convergence / exactness / finiteness are numerical consequences and are not decided.",
        note="sympy.diff and the printers are trusted; predicates are opaque atoms.",
        ref="3/C06",
    ),
    "C07": dict(
        technique="static analysis: sibling cross-check of path tables (hybrid vs explicit Euler vs generalized RL) after term normalisation; option-flow of stiff_states/delta",
        text="Decides that hybrid_rush_larsen's path table is {not STIFF or DIFF_ZERO -> the explicit Euler term; STIFF and not DIFF_ZERO -> exactly the two generalized-RL terms}, with STIFF := state name in set(stiff_states) (None = empty), same slot discipline, and that stiff_states/delta reach exactly the builders that take them.",
        note="Numerical agreement of generated steps is not decided; the three builders are compared as term tables.",
        ref="3/C07",
    ),
    "C09": dict(
        technique="static analysis: order-provenance dataflow (annotation-typed set/dict/sequence values with HASH taints, interprocedural summaries, sinks = emitted text / slot numbers / topological sorter / templates / ordered accessors) + who-may-write check for process-global state",
        text="Decides, for all models and hash seeds at once, that no order derived from iterating a set/frozenset (or from a sort with a non-injective key) reaches an order-sensitive sink on the load->generate->save path (all ~30 set-iteration sites are enumerated and discharged), and that no function of the package writes module-level objects (history independence).",
        note="Receiver types come from the package's annotations (no type checker available); untyped operands are counted and assumed to be external ordered sequences. sympy/graphlib/lark are assumed deterministic given ordered inputs. myokit.py is out of scope.",
        ref="3/C09",
    ),
    "C10": dict(
        technique="static analysis: the same order-provenance dataflow with TEXT taints (ODE.components keeps first-appearance order) + container-kind checks in the transformer",
        text="Decides that the textual order of blocks/entries/lines is discarded (atoms gathered in frozensets), that the one sequence that keeps text order (ODE.components) reaches no emitted code, slot number, sorter input or ordered accessor, and that ODE.__eq__ does not compare it element-wise.",
        note="lark delivers children in text order; comments' own order is exempt (the property does not permute them).",
        ref="3/C10",
    ),
    "C12": dict(
        technique="static analysis: provenance of every removal predicate (must be `name in ODE.dependents()`), loop/filter shape of dependents(), call-site arguments of the unpack helpers, purity of generator methods, STATE slot family",
        text="Decides that liveness is computed from the complete, unfiltered dependency relation, that only rhs filters the state unpacking while schemes/monitors unpack every state they read, that generator methods keep no state between calls, and that the state slot layout is independent of remove_unused (post-sort filter over intermediates only).",
        note="Numerical equality of the two generated modules is not decided.",
        ref="3/C12",
    ),
    "C18": dict(
        technique="static analysis: parameter def-use / keyword-forwarding flow over the typer commands, mains and get_code; evaluation-order check of load -> generate -> write; config-key table cross-checked with docs/config.md",
        text="Decides that every option a conversion command accepts reaches the dispatched main (and from there get_code / the generator / add_schemes / the formatter / the output path), per scheme which keyword arguments are passed, that the output file is touched only after generation returned and holds get_code's text unmodified with no handler around it, that an explicit --config wins, and that every documented configuration key is read with the CLI value as default into the forwarded variable.",
        note="Exit codes as seen from a shell and typer's own validation are not decided.",
        ref="3/C18",
    ),
    "C20": dict(
        technique="static analysis: STATE slot family for the matrix builders; bound/def-use analysis of the substitution loop; wiring of jacobi_matrix",
        text="Decides that states_matrix/rhs_matrix use the state order of the generated code, that the intermediate-expansion loop substitutes the complete, unmodified map until none are left with a bound that is absent or derived from the model's size (also at every call site), raising only if something is left, and that jacobi_matrix = rhs_matrix(ode).jacobian(states_matrix(ode)).",
        note="Equality of the matrices with the model's derivatives is not decided (sympy's xreplace/jacobian trusted).",
        ref="3/C20",
    ),
}

NOT_YET = "check under construction (see DESIGN.md); not claimed yet"

fix_commits = subprocess.run(["git", "-C", "/repo", "log", "--format=%H %s"], capture_output=True, text=True).stdout.splitlines()
fix_commits = [l.split()[0] for l in fix_commits if l.split(" ", 1)[1].startswith("fix:")][::-1]

manifest = {
    "version": 1,
    "setup_cmd": "true",
    "hooks": {
        "guard": "FINSBERG_GOTRANX_VERIF",
        "enable": "no hooks: the checks only read /repo's source (ast, ode.lark, sympy class tables); the guard name is reserved and unused",
        "baseline_off_cmd": "cd /repo && /venv/bin/python -m pytest -ra -q -p no:cacheprovider --timeout=900 --continue-on-collection-errors",
        "source_commits": fix_commits,
        "add_only": True,
    },
    "engines": [
        {"name": "sa", "path": "sa/", "serves_properties": sorted(CLAIMED), "kind_free_text": "repository-specific static analysis engine: source model (ast), order-provenance dataflow, path/term evaluator, slot families, flow rules, grammar / printer / template models"},
    ],
    "checks": [],
    "notes": "All checks are ./check <ID> [--tier quick|thorough] [--repo DIR]; exit 0 held / 1 VIOLATION / 2 ANALYSIS-ERROR. Thorough = quick + in-memory liveness self-test of every rule (micro-mutations of the current source). Known findings: known_findings.json.",
    "not_applicable": [],
}
for p in props:
    if p in CLAIMED:
        c = CLAIMED[p]
        manifest["checks"].append(
            {
                "property_id": p,
                "quick_cmd": f"./check {p} --tier quick",
                "thorough_cmd": f"./check {p} --tier thorough",
                "evidence_file": f"evidence/{p}.json",
                "replay_cmd_template": f"./check {p} --replay {{path}}",
                "engine": "sa",
                "level_claimed": {"category": "other", "text": c["text"], "design_ref": c["ref"]},
                "level_note": c["note"],
                "technique": c["technique"],
            }
        )
    else:
        manifest["not_applicable"].append({"property_id": p, "reason": NOT_YET})
(VERIF / "MANIFEST.json").write_text(json.dumps(manifest, indent=1))
print(f"claimed {len(manifest['checks'])}, not_applicable {len(manifest['not_applicable'])}, fix commits {len(fix_commits)}")
