#!/bin/bash
# Run the pinned baseline on a tree (default /repo) and compare with BASELINE.json stable_pass.
# usage: tools/baseline.sh [repo_dir]
REPO=${1:-/repo}
OUT=$(mktemp /tmp/baseline.XXXXXX.xml)
cd "$REPO" && PYTHONPATH="$REPO/src" /venv/bin/python -m pytest -ra -q -p no:cacheprovider --timeout=900 --continue-on-collection-errors --junitxml="$OUT" >/dev/null 2>&1
/venv/bin/python - "$OUT" <<'PY'
import json, sys, xml.etree.ElementTree as ET
base = set(json.load(open('/root/.vp/BASELINE.json'))['stable_pass'])
passed = set()
for tc in ET.parse(sys.argv[1]).getroot().iter('testcase'):
    if not any(ch.tag in ('failure', 'error', 'skipped') for ch in tc):
        passed.add(f"{tc.get('classname')}::{tc.get('name')}")
missing = sorted(base - passed)
print(f"baseline: {len(base)} expected, {len(base & passed)} passed, {len(missing)} missing, {len(passed - base)} extra-pass")
for m in missing: print("  MISSING", m)
sys.exit(1 if missing else 0)
PY
RC=$?
rm -f "$OUT"
exit $RC
