#!/venv/bin/python
"""Synthetic negative corpus 2: in every top-level function / method of the package all local variables are renamed
(`v` -> `v_l`), one function per tree.  Parameters, names bound by import / except / global / nonlocal and names of nested
functions are left alone; only ast.Name nodes are touched (never keywords, attributes or strings), so each tree is
behaviour-preserving by construction.  Every property's rules run on each tree in memory; any alarm or exit 2 is a false
alarm of the machinery.   usage: tools/locals_sweep.py [-v] [substring of qualname ...]"""
import ast, importlib, os, sys
from concurrent.futures import ProcessPoolExecutor
from pathlib import Path
VERIF = Path(__file__).resolve().parent.parent
sys.path.insert(0, str(VERIF)); sys.dont_write_bytecode = True
from sa import core
from sa.sm import SourceModel
REPO = Path(os.environ.get("VERIF_REPO", "/repo"))
PROPS = sorted(q.stem.upper() for q in (VERIF / "rules").glob("c[0-9][0-9].py"))

def top_functions(tree):
    out = []
    def walk(node, prefix):
        for st in ast.iter_child_nodes(node):
            if isinstance(st, (ast.FunctionDef, ast.AsyncFunctionDef)):
                out.append((prefix + st.name, st))
            elif isinstance(st, ast.ClassDef):
                walk(st, prefix + st.name + ".")
    walk(tree, "")
    return out

def renamed_text(src: str, fn: ast.AST):
    stored, keep = set(), set()
    for n in ast.walk(fn):
        if isinstance(n, ast.Name) and isinstance(n.ctx, (ast.Store, ast.Del)):
            stored.add(n.id)
        elif isinstance(n, (ast.FunctionDef, ast.AsyncFunctionDef, ast.Lambda)):
            a = n.args
            keep |= {x.arg for x in a.posonlyargs + a.args + a.kwonlyargs} | ({a.vararg.arg} if a.vararg else set()) | ({a.kwarg.arg} if a.kwarg else set())
            if not isinstance(n, ast.Lambda):
                keep.add(n.name)
        elif isinstance(n, ast.ClassDef):
            keep.add(n.name)
            keep |= {x.id for st in n.body for x in ast.walk(st) if isinstance(x, ast.Name)}
        elif isinstance(n, (ast.Global, ast.Nonlocal)):
            keep |= set(n.names)
        elif isinstance(n, ast.ExceptHandler) and n.name:
            keep.add(n.name)
        elif isinstance(n, (ast.Import, ast.ImportFrom)):
            keep |= {(al.asname or al.name).split(".")[0] for al in n.names}
        elif isinstance(n, ast.Match):
            return None
    names = {v for v in stored - keep if not v.startswith("__")}
    if not names:
        return None
    lines = src.splitlines(True)
    edits = {}
    for n in ast.walk(fn):
        if isinstance(n, ast.Name) and n.id in names and n.lineno == n.end_lineno:
            edits.setdefault(n.lineno, []).append((n.col_offset, n.end_col_offset, n.id + "_l"))
    for ln, es in edits.items():
        raw = lines[ln - 1].encode()
        for a, b, new in sorted(es, reverse=True):
            raw = raw[:a] + new.encode() + raw[b:]
        lines[ln - 1] = raw.decode()
    out = "".join(lines)
    try:
        ast.parse(out)
    except SyntaxError:
        return None
    return out

def jobs():
    out = []
    for p in sorted((REPO / "src/gotranx").rglob("*.py")):
        src = p.read_text()
        for q, fn in top_functions(ast.parse(src)):
            out.append((str(p.relative_to(REPO)), q))
    return out

def run_one(job):
    rel, q = job
    src = (REPO / rel).read_text()
    fn = dict(top_functions(ast.parse(src)))[q]
    new = renamed_text(src, fn)
    if new is None:
        return job, None
    overlay = {rel: new}
    known = {f"{k['property']}|{k['rule']}|{k['construct']}" for k in core.load_known() if k.get("status") == "open"}
    res = {}
    for p in PROPS:
        ctx = None; err = None
        try:
            sm = SourceModel(REPO, overlay=overlay)
            ctx = core.Ctx(p, REPO, "quick", sm, quiet=True); ctx.overlay = overlay
            importlib.import_module(f"rules.{p.lower()}").run(ctx)
            ctx.check_floors()
        except Exception as e:
            err = f"{type(e).__name__}: {str(e)[:90]}"
        fails = [o for o in (ctx.failures() if ctx else []) if core.finding_key(p, o) not in known]
        if fails or err:
            res[p] = sorted({o.rule for o in fails}) or err
    return job, res

if __name__ == "__main__":
    sel = [a for a in sys.argv[1:] if not a.startswith("-")]
    js = [j for j in jobs() if not sel or any(s in j[1] for s in sel)]
    ok = n = 0
    with ProcessPoolExecutor(min(14, os.cpu_count() or 4)) as ex:
        for (rel, q), res in ex.map(run_one, js):
            if res is None:
                continue
            n += 1
            if res:
                print(f"locals of {rel}::{q}: FALSE ALARM {res}")
            else:
                ok += 1
                if "-v" in sys.argv: print(f"locals of {rel}::{q}: silent")
    print(f"locals sweep: {ok}/{n} silent")
    sys.exit(0 if ok == n else 2)
