#!/venv/bin/python
"""Verify one seeded change: it applies to /repo HEAD, the pinned baseline still passes with it, its demo fails with it
and passes without it; then record which checks fire on it.   usage: verify_seed.py PROP K PATCH DEMO OUT.json"""
import json, os, re, subprocess, sys, tempfile, time
from pathlib import Path
VERIF = Path(__file__).resolve().parent.parent
prop, k, patch, demo, out = sys.argv[1:6]
res = {"property": prop, "k": int(k), "patch": patch, "demo": demo}
wt = Path(tempfile.mkdtemp(prefix=f"seed_{prop}_{k}_", dir="/tmp")); wt.rmdir()
subprocess.run(["git", "-C", "/repo", "worktree", "add", "-q", "--detach", str(wt), "HEAD"], check=True)
try:
    r = subprocess.run(["git", "-C", str(wt), "apply", patch], capture_output=True, text=True)
    res["applies"] = r.returncode == 0
    if r.returncode == 0:
        env = dict(os.environ, PYTHONPATH=f"{wt}/src", PYTHONHASHSEED="0")
        env.pop("PYTHONHASHSEED")
        t0 = time.time()
        r = subprocess.run([str(VERIF / "tools" / "baseline.sh"), str(wt)], capture_output=True, text=True)
        res["baseline_ok"] = r.returncode == 0
        res["baseline_line"] = r.stdout.strip().splitlines()[0] if r.stdout.strip() else r.stderr[-200:]
        res["baseline_s"] = round(time.time() - t0)
        r = subprocess.run(["/venv/bin/python", demo], capture_output=True, text=True, env=env, cwd="/tmp", timeout=900)
        res["demo_with_patch_rc"] = r.returncode
        res["demo_with_patch_tail"] = (r.stdout + r.stderr)[-400:]
        env2 = dict(os.environ, PYTHONPATH="/repo/src")
        r = subprocess.run(["/venv/bin/python", demo], capture_output=True, text=True, env=env2, cwd="/tmp", timeout=900)
        res["demo_clean_rc"] = r.returncode
        if r.returncode != 0:
            res["demo_clean_tail"] = (r.stdout + r.stderr)[-400:]
        fired = {}
        for p in sorted(q.stem.upper() for q in (VERIF / "rules").glob("c[0-9][0-9].py")):
            r = subprocess.run([str(VERIF / "check"), p, "--repo", str(wt), "--no-evidence"], capture_output=True, text=True, cwd=VERIF)
            if r.returncode != 0:
                fired[p] = {"rc": r.returncode, "rules": sorted(set(re.findall(r"FINDING rule=(\S+)", r.stdout)))}
        res["fired"] = fired
        res["own_check_fires"] = fired.get(prop, {}).get("rc") == 1
finally:
    subprocess.run(["git", "-C", "/repo", "worktree", "remove", "--force", str(wt)])
Path(out).write_text(json.dumps(res, indent=1))
print(prop, k, "applies" if res.get("applies") else "NO-APPLY", "baseline", res.get("baseline_ok"), "demo+patch rc", res.get("demo_with_patch_rc"), "demo clean rc", res.get("demo_clean_rc"), "fired", {p: v["rules"] for p, v in res.get("fired", {}).items()})
