#!/venv/bin/python
"""Synthetic negative corpus 3: for every module-level function of the package whose name is unique in the package and
that takes no *args, every call `g(a, b)` (by bare name or `module.g`) is rewritten to pass its positional arguments by
keyword, `g(x=a, y=b)` - one callee per tree.  Behaviour-preserving by construction.  Every property's rules run on each
tree in memory; any alarm or exit 2 is a false alarm of the machinery.   usage: tools/keyword_sweep.py [-v]"""
import ast, importlib, os, sys
from concurrent.futures import ProcessPoolExecutor
from pathlib import Path
VERIF = Path(__file__).resolve().parent.parent
sys.path.insert(0, str(VERIF)); sys.dont_write_bytecode = True
from sa import core
from sa.sm import SourceModel
REPO = Path(os.environ.get("VERIF_REPO", "/repo"))
PROPS = sorted(q.stem.upper() for q in (VERIF / "rules").glob("c[0-9][0-9].py"))

def callees():
    defs = {}
    for p in sorted((REPO / "src/gotranx").rglob("*.py")):
        for st in ast.parse(p.read_text()).body:
            if isinstance(st, ast.FunctionDef):
                defs.setdefault(st.name, []).append(st)
    # names also defined as methods / nested functions anywhere are ambiguous
    allnames = {}
    for p in sorted((REPO / "src/gotranx").rglob("*.py")):
        for n in ast.walk(ast.parse(p.read_text())):
            if isinstance(n, ast.FunctionDef):
                allnames[n.name] = allnames.get(n.name, 0) + 1
    out = {}
    for name, ds in defs.items():
        if len(ds) == 1 and allnames[name] == 1 and not ds[0].args.vararg and not ds[0].args.posonlyargs and not ds[0].decorator_list:
            out[name] = [a.arg for a in ds[0].args.args]
    return out

def rewrite(src: str, name: str, params: list[str]):
    tree = ast.parse(src)
    lines = src.splitlines(True)
    edits = []
    for n in ast.walk(tree):
        if isinstance(n, ast.Call) and ((isinstance(n.func, ast.Name) and n.func.id == name) or (isinstance(n.func, ast.Attribute) and n.func.attr == name and isinstance(n.func.value, ast.Name))):
            if not n.args or any(isinstance(a, ast.Starred) for a in n.args) or len(n.args) > len(params):
                continue
            if any(k.arg is None for k in n.keywords):
                continue
            for a, pname in zip(n.args, params):
                edits.append((a.lineno, a.col_offset, f"{pname}="))
    if not edits:
        return None
    for ln, col, text in sorted(edits, reverse=True):
        raw = lines[ln - 1].encode()
        lines[ln - 1] = (raw[:col] + text.encode() + raw[col:]).decode()
    out = "".join(lines)
    try:
        ast.parse(out)
    except SyntaxError:
        return None
    return out

def run_one(job):
    name, params = job
    overlay = {}
    for p in sorted((REPO / "src/gotranx").rglob("*.py")):
        new = rewrite(p.read_text(), name, params)
        if new is not None:
            overlay[str(p.relative_to(REPO))] = new
    if not overlay:
        return name, None
    known = {f"{k['property']}|{k['rule']}|{k['construct']}" for k in core.load_known() if k.get("status") == "open"}
    res = {}
    for p in PROPS:
        ctx = None; err = None
        try:
            sm = SourceModel(REPO, overlay=overlay)
            ctx = core.Ctx(p, REPO, "quick", sm, quiet=True); ctx.overlay = overlay
            importlib.import_module(f"rules.{p.lower()}").run(ctx)
            ctx.check_floors()
        except Exception as e:
            err = f"{type(e).__name__}: {str(e)[:90]}"
        fails = [o for o in (ctx.failures() if ctx else []) if core.finding_key(p, o) not in known]
        if fails or err:
            res[p] = sorted({o.rule for o in fails}) or err
    return name, res

if __name__ == "__main__":
    ok = n = 0
    with ProcessPoolExecutor(min(14, os.cpu_count() or 4)) as ex:
        for name, res in ex.map(run_one, sorted(callees().items())):
            if res is None:
                continue
            n += 1
            if res:
                print(f"keywords for {name}: FALSE ALARM {res}")
            else:
                ok += 1
                if "-v" in sys.argv: print(f"keywords for {name}: silent")
    print(f"keyword sweep: {ok}/{n} silent")
    sys.exit(0 if ok == n else 2)
