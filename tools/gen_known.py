#!/venv/bin/python
"""Regenerate known_findings.json: fixed entries (from /repo's `fix:` commits) + the open findings listed here.
Run by hand when a finding is added; the checks never write this file."""
import json, subprocess
from pathlib import Path
VERIF = Path(__file__).resolve().parent.parent
FIXED = {
 "feed dependencies": ("C09","R09.a","src/gotranx/ode.py::sort_assignments::assignment.value.dependencies","hash-ordered predecessors fed to TopologicalSorter; tests/odefiles/ORdmm_Land.ode generated differently under PYTHONHASHSEED=0 and 1"),
 "keep the assignment order": ("C04","R04.a","src/gotranx/ode.py::ODE.sorted_assignments::remove_unused-is-a-post-sort-filter","remove_unused re-sorted a reduced set: rhs/scheme slots != state_index for states(s0=1, s1=1); bu0 = s1 + s0; ds0_dt = s0; ds1_dt = s1"),
 "get_scheme returns": ("C09","R09.b","src/gotranx/schemes.py::get_scheme::store::func.__code__","get_scheme mutated the module-level scheme function: a function returned earlier changed its name"),
 "ODE equality": ("C10","R10.a","attribute .components keeps the order of first appearance in the model text","text-ordered components compared element-wise in ODE.__eq__: swapping two component blocks gave unequal models"),
 "save exp(1)": ("C11","R11.a","writer::Exp1","writer emitted 'E' and 'Ne(...)' which the grammar rejects (y = exp(1)*a; Conditional(Not(Eq(x, a)), ..))"),
 "print sign()": ("C14","R14.a","numpy-printer::sign","scalar-only conditional expression for sign(): vectorised generalized_rush_larsen of dx_dt = -abs(x)*a failed"),
 "monitor_values and missing_values report": ("C03","R03.a","src/gotranx/codegen/base.py::CodeGenerator.monitor_values::num_return_values","JAX monitor_values/missing_values returned num_states entries"),
 "JAX backend prints And/Or": ("C03","R03.b","jax-printer::And","logical_and.reduce((a, b, c)) is a TypeError under jax.numpy"),
 "ode2c forwards": ("C18","R18.a","src/gotranx/cli/__init__.py::ode2c::gotran2c.main::format","ode2c dropped --format"),
 "convert --jax": ("C18","R18.a","src/gotranx/cli/__init__.py::convert::option::jax","convert --jax was never read"),
 "rhs_matrix expands intermediate": ("C20","R20.b","src/gotranx/sympytools.py::rhs_matrix::bound-default::max_tries","max_tries=20: RuntimeError for chains of depth >= 20"),
 "bool_to_int": ("C02","R02.c","src/gotranx/codegen/c.py::bool_to_int","str.replace('true', '1') rewrote identifiers such as is_true"),
 "C missing_index": ("C04","R04.b","src/gotranx/templates/c.py::missing_index::family-name","C missing_index generated a second monitor_index"),
 "duplicate detection covers": ("C08","R08.a","src/gotranx/ode.py::gather_atoms::record::state_derivatives","conflicting derivatives of one state, and a parameter and a state with the same name and value, were accepted"),
 "reject conflicting definitions": ("C08","R08.a","src/gotranx/transformer.py::TreeToODE.ode::redefinition-raises","x = 1 ... x = 3 merged in a set before the duplicate check (the docs' own invalid example was accepted)"),
 "a name can be defined only once": ("C08","R08.a","src/gotranx/transformer.py::TreeToODE.ode::redefinition-raises","x = a # first / x = a # second kept two intermediates named x (monitor array one entry longer than monitor_index)"),
 "a trailing comment that is not a unit": ("C17","R17.a","src/gotranx/transformer.py::units.ureg(<the text>)::any-failure-absorbed","comment texts such as '# see eq. (3' or '# 1/0' aborted the load (TokenError, ZeroDivisionError)"),
 "an annotation that pint cannot turn into a unit": ("C17","R17.a","src/gotranx/atoms.py::ureg.Unit(<the text>)::any-failure-absorbed","'# mV + mV' raised TypeError from ureg.Unit and aborted the load"),
 "an empty comment": ("C17","R17.b","src/gotranx/ode.lark::comment::terminal","an empty '#' comment swallowed the following line"),
 "comment lines and blank lines": ("C17","R17.b","src/gotranx/ode.lark::expressions::\"expressions\"::block-items","a comment line or white-space-only line inside expressions(\"A\") ended the block"),
 "C backend prints Mod": ("C02","R02.b","c-printer::Mod","Mod printed as fmod (sign of the dividend): Mod(-3.5, 2) gave -1.5 in C, 0.5 in NumPy"),
 "nested binary calls in the NumPy": ("C14","R14.a","numpy-printer::And","logical_and.reduce((scalar, array, ...)) fails on inhomogeneous operands with vectorised input"),
 "rhs_matrix also expands": ("C20","R20.b","src/gotranx/sympytools.py::rhs_matrix::map","references to state derivatives (dy_dt = dx_dt*b - y) were left unexpanded; the Jacobian missed the dependence"),
 "save expressions without a component": ("C11","R11.b","src/gotranx/codegen/ode.py::GotranODECodePrinter.print_assignments::headerless-first","header-less expressions written after a named block were absorbed into it on reload"),
 "save a negated And/Or": ("C11","R11.a","writer::Not","Not(And(..)) printed as ~(...), rejected by the loader"),
}
OPEN = [
 {"property":"C19","rule":"R19.a","construct":"src/gotranx::reserved-name-guard",
  "what":"no reserved-name guard on the load -> generate path: a parameter named dt silently replaces the scheme's time step (explicit_euler with parameter dt=0.5, step 0.1: 0.75 instead of 0.95), t/time/pi are captured likewise, states/values/numpy/parameters break the generated module",
  "witness":"states(x=1)\\nparameters(dt=0.5)\\ndx_dt = -dt*x  + explicit_euler(states, t, 0.1, parameters)", "why_not_fixed":"needs a new validation (or renaming) feature with a policy decision (raise vs rename, per backend keyword lists); not a minimal repair"},
 {"property":"C16","rule":"R16.a","construct":"src/gotranx/atoms.py::remove_singularities::sum(exprs)",
  "what":"k per-singularity conditionals each carry the full expression and are added up: k*expr away from the singular points (x/(exp(x)-1) + (x-1)/(exp(x-1)-1) is doubled at x = 0.5: 2.0415 -> 4.0830)",
  "witness":"y = x/(exp(x)-1) + (x-1)/(exp(x-1)-1)", "why_not_fixed":"tests/test_python_codegen.py::test_codegen_rhs_singular_ode pins the doubled text (`2 * x / (numpy.exp(x) - 1.0) + 2 * (x - 2) / ...`); the unedited suite must keep passing"},
 {"property":"C02","rule":"R02.a","construct":"c-printer::Integer::real-literal",
  "what":"the C printer prints an Integer operand of `/` and an Integer exponent as C int literals (inherited StrPrinter._print_Integer): `y = 1/4` is emitted as `const double y = 1/4;` (== 0), `2**(1/2)` as pow(2, 1/2) (== 1), `(3/2)*x` as (3/2)*x (== x)",
  "witness":"states(x=1)\\nparameters(a=2)\\ny = 1/4\\nz = 2**(1/2)\\ndx_dt = a*y + z", "why_not_fixed":"printing integers as reals must be contextual (array indices, init values pinned by tests/test_c_codegen.py::test_c_codegen_initial_parameter_values_no_clang_format); not a small patch"},
 {"property":"C17","rule":"R17.a","construct":"src/gotranx/transformer.py::units.ureg(<the text>)",
  "what":"the text of a trailing comment is parsed *and evaluated* by pint to find out whether it is a unit: `ds_dt = a # 9**9**9` hangs the loader (arbitrary-precision power tower)",
  "witness":"states(s=1)\\nparameters(a=1)\\nds_dt = a # 9**9**9", "why_not_fixed":"needs a unit recogniser that does not evaluate arithmetic; not a small patch"},
 {"property":"C17","rule":"R17.a","construct":"src/gotranx/atoms.py::ureg.Unit(<the text>)",
  "what":"unit strings (trailing unit annotations and ScalarParam(unit=...)) are evaluated by pint.Unit: the same power-tower text hangs", "witness":"ds_dt = a # 9**9**9 mV", "why_not_fixed":"same mechanism as above"},
 {"property":"C17","rule":"R17.a","construct":"src/gotranx/atoms.py::ureg.Unit(<first word of the text>)",
  "what":"fallback attempt of unit_from_string evaluates the first word of the unit string with pint.Unit", "witness":"ScalarParam(1, unit=\"9**9**9 mV\")", "why_not_fixed":"same mechanism as above"},
]
log = subprocess.run(["git","-C","/repo","log","--format=%h|%s"],capture_output=True,text=True).stdout.strip().splitlines()[::-1]
findings = []
for line in log:
    h, subj = line.split("|",1)
    if not subj.startswith("fix:"): continue
    hit = [v for k,v in FIXED.items() if k in subj]
    assert len(hit)==1, (subj, hit)
    prop, rule, construct, what = hit[0]
    findings.append({"property":prop,"rule":rule,"status":"fixed","commit":h,"construct":construct,"what":what,"line":f"fixed: property={prop} {h} {what}"})
for o in OPEN:
    findings.append({**o, "status":"open"})
import sys
extra = VERIF / "tools" / "open_findings_extra.json"
if extra.exists():
    for o in json.loads(extra.read_text()):
        findings.append({**o, "status":"open"})
(VERIF/"known_findings.json").write_text(json.dumps({"findings":findings}, indent=1))
print(len([f for f in findings if f['status']=='fixed']), "fixed,", len([f for f in findings if f['status']=='open']), "open")
