#!/venv/bin/python
"""Recompute seeded/<id>/meta.json: checks_that_fire / own_check_fires from the current rules (in memory)."""
import importlib, json, sys
from concurrent.futures import ProcessPoolExecutor
from pathlib import Path
VERIF = Path(__file__).resolve().parent.parent
sys.path.insert(0, str(VERIF)); sys.dont_write_bytecode = True
from sa import core, udiff
from sa.sm import SourceModel
REPO = Path('/repo')
PROPS = sorted(q.stem.upper() for q in (VERIF / "rules").glob("c[0-9][0-9].py"))

def fired(d):
    overlay = udiff.apply((d / "patch.diff").read_text(), lambda rel: (REPO / rel).read_text() if (REPO / rel).exists() else None)
    known = {f"{k['property']}|{k['rule']}|{k['construct']}" for k in core.load_known() if k.get("status") == "open"}
    res = {}
    for p in PROPS:
        try:
            sm = SourceModel(REPO, overlay=overlay)
            ctx = core.Ctx(p, REPO, "quick", sm, quiet=True); ctx.overlay = overlay
            importlib.import_module(f"rules.{p.lower()}").run(ctx)
            ctx.check_floors()
        except Exception:
            res[p] = ["ANALYSIS-ERROR"]
            continue
        fails = sorted({o.rule for o in ctx.failures() if core.finding_key(p, o) not in known})
        if fails:
            res[p] = fails
    return d.name, res

if __name__ == "__main__":
    dirs = [d for d in sorted((VERIF / "seeded").iterdir()) if (d / "patch.diff").exists()]
    bad = 0
    with ProcessPoolExecutor(14) as ex:
        for name, res in ex.map(fired, dirs):
            mp = VERIF / "seeded" / name / "meta.json"
            m = json.loads(mp.read_text())
            m["checks_that_fire"] = res
            m["own_check_fires"] = m["property"] in res and res[m["property"]] != ["ANALYSIS-ERROR"]
            mp.write_text(json.dumps(m, indent=1) + "\n")
            if not m["own_check_fires"]:
                bad += 1
                print("MISS", name, res)
    print(f"{len(dirs)} seeded changes, {bad} not reported by their own property's check")
