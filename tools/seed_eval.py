#!/venv/bin/python
"""Apply a seeded patch to a scratch worktree of /repo and run checks against it.

usage: tools/seed_eval.py PATCH [PROP ...]      (default: all properties that have a rule module)
Prints, per property, the exit code and the rules that fired.  The worktree is removed afterwards.
"""
import subprocess, sys, tempfile, shutil, os, re
from pathlib import Path
VERIF = Path(__file__).resolve().parent.parent
patch = Path(sys.argv[1]).resolve()
props = [p.upper() for p in sys.argv[2:]] or sorted(p.stem.upper() for p in (VERIF / "rules").glob("c[0-9][0-9].py"))
wt = Path(tempfile.mkdtemp(prefix="seedwt_", dir="/tmp"))
wt.rmdir()
subprocess.run(["git", "-C", "/repo", "worktree", "add", "-q", "--detach", str(wt), "HEAD"], check=True)
try:
    r = subprocess.run(["git", "-C", str(wt), "apply", str(patch)], capture_output=True, text=True)
    if r.returncode != 0:
        print("PATCH DOES NOT APPLY:", r.stderr.strip()); sys.exit(3)
    fired_any = False
    for p in props:
        r = subprocess.run([str(VERIF / "check"), p, "--repo", str(wt), "--no-evidence"], capture_output=True, text=True, cwd=VERIF)
        rules = sorted(set(re.findall(r"FINDING rule=(\S+)", r.stdout)))
        if r.returncode != 0:
            fired_any = True
            print(f"  {p}: exit {r.returncode} rules={rules}")
            if r.returncode == 2 or "-v" in os.environ.get("SEED_EVAL_FLAGS", ""):
                print("     " + "\n     ".join(r.stdout.strip().splitlines()[-6:]))
    if not fired_any:
        print("  (no check fired)")
finally:
    subprocess.run(["git", "-C", "/repo", "worktree", "remove", "--force", str(wt)])
