#!/venv/bin/python
"""Regenerate the tables of DESIGN.md that list the seeded changes (§10) and the refactorings (§12) from the meta.json
files, between the markers <!-- SEEDS:BEGIN/END --> and <!-- REFACTORS:BEGIN/END -->."""
import json, re
from pathlib import Path
VERIF = Path(__file__).resolve().parent.parent
d = (VERIF / "DESIGN.md").read_text()


def clip(t, n):
    t = " ".join(str(t).split()).replace("|", "/")
    return t if len(t) <= n else t[: n - 1] + "…"


rows = ["| seed | what it changes (one line) | needs | checks that fire |", "|---|---|---|---|"]
for sd in sorted(p_ for p_ in (VERIF / "seeded").iterdir() if p_.is_dir()):
    m = json.loads((sd / "meta.json").read_text())
    fire = "; ".join(f"{p} {','.join(r)}" for p, r in sorted(m.get("checks_that_fire", {}).items()))
    rows.append(f"| {sd.name} | {clip(m.get('summary', ''), 170)} | {clip(m.get('needs', ''), 110)} | {fire} |")
seeds = "\n".join(rows)
rows = ["| id | functions | kind | size | pinned suite | undecided obligations |", "|---|---|---|---|---|---|"]
und = {}
uf = VERIF / "refactors" / "_undecided.json"
if uf.exists():
    und = json.loads(uf.read_text())
for rd in sorted(p for p in (VERIF / "refactors").iterdir() if p.is_dir()):
    m = json.loads((rd / "meta.json").read_text())
    ver = (rd / "verified.txt").read_text().strip() if (rd / "verified.txt").exists() else "?"
    ok = "263/263" if "263 passed, 0 missing" in ver else ver[:40]
    rows.append(f"| {rd.name} | {clip(', '.join(m.get('functions', [])), 90)} | {clip(m.get('kind', ''), 110)} | {m.get('size', '')} | {ok} | {clip(und.get(rd.name, ''), 60)} |")
refs = "\n".join(rows)
for tag, body in (("SEEDS", seeds), ("REFACTORS", refs)):
    pat = re.compile(rf"<!-- {tag}:BEGIN -->.*?<!-- {tag}:END -->", re.S)
    if pat.search(d):
        d = pat.sub(lambda _m: f"<!-- {tag}:BEGIN -->\n{body}\n<!-- {tag}:END -->", d)
    else:
        print(f"marker {tag} not found")
(VERIF / "DESIGN.md").write_text(d)
print("tables regenerated")
