#!/venv/bin/python
"""Synthetic negative corpus: every function of the package that nothing outside the package refers to (tests, docs,
examples) - plus every underscore / nested function - is renamed consistently in all modules (NAME tokens only), one
rename per tree, and every property's rules are run on each tree in memory.  A rename is behaviour-preserving by
construction, so every alarm or exit 2 is a false alarm of the machinery (sa/alpha.py is what makes this sweep silent).
usage: tools/rename_sweep.py [-v]"""
import ast, importlib, os, re, sys
from concurrent.futures import ProcessPoolExecutor
from pathlib import Path
VERIF = Path(__file__).resolve().parent.parent
sys.path.insert(0, str(VERIF)); sys.dont_write_bytecode = True
from sa import alpha, core
from sa.sm import SourceModel
REPO = Path(os.environ.get("VERIF_REPO", "/repo"))
PROPS = sorted(q.stem.upper() for q in (VERIF / "rules").glob("c[0-9][0-9].py"))
SKIP = {"_print", "_format", "_doprint", "_module_format", "_call_userfunc", "_call_userfunc_token"}

def candidates():
    src = {p: p.read_text() for p in (REPO / "src/gotranx").rglob("*.py")}
    outside = "\n".join(q.read_text(errors="ignore") for d in ("tests", "docs", "examples") for q in (REPO / d).rglob("*") if q.is_file() and q.suffix in (".py", ".md", ".ipynb", ".rst", ".txt"))
    blob = "\n".join(n.value for t in src.values() for n in ast.walk(ast.parse(t)) if isinstance(n, ast.Constant) and isinstance(n.value, str))
    names = set()
    for t in src.values():
        for n in ast.walk(ast.parse(t)):
            if isinstance(n, ast.FunctionDef) and not n.name.startswith("__") and not n.name.startswith(("_print_", "_hprint")) and len(n.name) > 3:
                if n.name.startswith("_") or not re.search(rf"(?<!\w){re.escape(n.name)}(?!\w)", outside):
                    names.add(n.name)
    if "--attrs" in sys.argv:
        # private instance attributes (self._x = ...) instead of functions
        fnames = {n.name for t in src.values() for n in ast.walk(ast.parse(t)) if isinstance(n, ast.FunctionDef)}
        names = {n.attr for t in src.values() for n in ast.walk(ast.parse(t)) if isinstance(n, ast.Attribute) and isinstance(n.ctx, ast.Store) and isinstance(n.value, ast.Name) and n.value.id == "self" and n.attr.startswith("_") and not n.attr.startswith("__")} - fnames
        names = {n for n in names if not re.search(rf"(?<!\w){re.escape(n)}(?!\w)", outside)}
    # a name that also occurs inside a string constant is skipped: renaming it there would change behaviour
    return sorted(n for n in names - SKIP if not re.search(rf"(?<!\w){re.escape(n)}(?!\w)", blob))

def run_one(nm):
    overlay = {}
    for p_ in (REPO / "src/gotranx").rglob("*.py"):
        t = p_.read_text(); t2 = alpha.rename_tokens(t, {nm: nm + "_renamed"})
        if t2 != t: overlay[str(p_.relative_to(REPO))] = t2
    known = {f"{k['property']}|{k['rule']}|{k['construct']}" for k in core.load_known() if k.get("status") == "open"}
    res = {}
    for p in PROPS:
        ctx = None; err = None
        try:
            sm = SourceModel(REPO, overlay=overlay)
            ctx = core.Ctx(p, REPO, "quick", sm, quiet=True); ctx.overlay = overlay
            importlib.import_module(f"rules.{p.lower()}").run(ctx)
            ctx.check_floors()
        except Exception as e:
            err = f"{type(e).__name__}: {str(e)[:90]}"
        fails = [o for o in (ctx.failures() if ctx else []) if core.finding_key(p, o) not in known]
        if fails or err:
            res[p] = sorted({o.rule for o in fails}) or err
    return nm, res

if __name__ == "__main__":
    names = candidates()
    ok = 0
    with ProcessPoolExecutor(min(14, os.cpu_count() or 4)) as ex:
        for nm, res in ex.map(run_one, names):
            if res:
                print(f"rename {nm}: FALSE ALARM {res}")
            else:
                ok += 1
                if "-v" in sys.argv: print(f"rename {nm}: silent")
    print(f"rename sweep: {ok}/{len(names)} silent")
    sys.exit(0 if ok == len(names) else 2)
