#!/venv/bin/python
"""Run every property's rules, in memory, against the corpora:
   seeded/     (changes that break a property: the property's own check must report them)
   refactors/  (behaviour-preserving edits: no check may report anything or break)
usage: tools/corpus.py [seeded|refactors|all] [-v] [ID ...]"""
import importlib, json, sys, os
from concurrent.futures import ProcessPoolExecutor
from pathlib import Path
VERIF = Path(__file__).resolve().parent.parent
sys.path.insert(0, str(VERIF)); sys.dont_write_bytecode = True
from sa import core, udiff
from sa.sm import SourceModel
REPO = Path(os.environ.get("VERIF_REPO", "/repo"))
PROPS = sorted(q.stem.upper() for q in (VERIF / "rules").glob("c[0-9][0-9].py"))

def run_one(args):
    kind, name, diff_path = args
    diff = Path(diff_path).read_text()
    try:
        overlay = udiff.apply(diff, lambda rel: (REPO / rel).read_text() if (REPO / rel).exists() else None)
    except udiff.PatchError as e:
        return kind, name, None, f"does not apply: {e}"
    known = {f"{k['property']}|{k['rule']}|{k['construct']}" for k in core.load_known() if k.get("status") == "open"}
    res = {}
    for p in PROPS:
        ctx = None
        err = None
        try:
            sm = SourceModel(REPO, overlay=overlay)
            ctx = core.Ctx(p, REPO, "quick", sm, quiet=True); ctx.overlay = overlay
            importlib.import_module(f"rules.{p.lower()}").run(ctx)
            ctx.check_floors()
        except Exception as e:
            err = f"{type(e).__name__}: {str(e)[:150]}"
        fails = [o for o in (ctx.failures() if ctx else []) if core.finding_key(p, o) not in known]
        und = [f"{o.rule}:{o.construct.split('::')[-1][:30]}" for o in (ctx.obligations if ctx else []) if getattr(o, "undecided", False)]
        if und:
            res.setdefault("_undecided", {})[p] = und
        if fails or err:
            res[p] = {"rules": sorted({o.rule for o in fails}), "err": err, "first": [f"{o.rule} {o.construct[:80]} :: {o.what[:140]}" for o in fails[:4]]}
    return kind, name, res, None

def main():
    args = [a for a in sys.argv[1:] if not a.startswith("-")]
    verbose = "-v" in sys.argv
    which = args[0] if args and args[0] in ("seeded", "refactors", "all") else "all"
    ids = set(a for a in args if a not in ("seeded", "refactors", "all"))
    jobs = []
    if which in ("seeded", "all"):
        jobs += [("seeded", d.name, str(d / "patch.diff")) for d in sorted((VERIF / "seeded").iterdir()) if (d / "patch.diff").exists() and (not ids or d.name in ids)]
    if which in ("refactors", "all"):
        jobs += [("refactors", d.name, str(d / "refactor.diff")) for d in sorted((VERIF / "refactors").iterdir()) if (d / "refactor.diff").exists() and (not ids or d.name in ids)]
    bad_seed = bad_ref = 0
    n_und = [0]
    und_all = {}
    with ProcessPoolExecutor(14) as ex:
        for kind, name, res, note in ex.map(run_one, jobs):
            if res is None:
                print(f"{kind:9} {name}: {note}"); continue
            if kind == "seeded":
                res.pop("_undecided", None)
                prop = name.split("-")[0]
                own = prop in res and res[prop]["rules"]
                errs = {p: v["err"] for p, v in res.items() if v["err"] and not v["rules"]}
                if not own: bad_seed += 1
                if not own or errs or verbose:
                    print(f"seeded    {name}: " + ("" if own else "NOT CAUGHT by own check; ") + str({p: v['rules'] for p, v in res.items() if v['rules']}) + (f"  EXIT2 {errs}" if errs else ""))
            else:
                und = res.pop("_undecided", {})
                if und:
                    und_all[name] = "; ".join(f"{p_} {', '.join(v_)}" for p_, v_ in sorted(und.items()))
                if und and verbose:
                    print(f"refactor  {name}: undecided {und}")
                n_und[0] += sum(len(v) for v in und.values())
                if res:
                    bad_ref += 1
                    print(f"refactor  {name}: FALSE ALARM {{{', '.join(p + ':' + ','.join(v['rules'] or ['EXIT2']) for p, v in res.items())}}}")
                    if verbose:
                        for p, v in res.items():
                            for l in v["first"]: print(f"       {p} {l}")
                            if v["err"]: print(f"       {p} ERR {v['err']}")
                elif verbose:
                    print(f"refactor  {name}: silent")
    if which in ("refactors", "all") and not ids:
        (VERIF / "refactors" / "_undecided.json").write_text(json.dumps(und_all, indent=1, sort_keys=True) + "\n")
    ns = sum(1 for j in jobs if j[0] == "seeded"); nr = sum(1 for j in jobs if j[0] == "refactors")
    print(f"seeded: {ns - bad_seed}/{ns} caught by their own check;  refactors: {nr - bad_ref}/{nr} silent ({n_und[0]} obligations undecided on the refactored trees)")

if __name__ == "__main__":
    main()
