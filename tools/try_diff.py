#!/venv/bin/python
"""Run the rules of some properties, in memory, against /repo + one diff.   usage: tools/try_diff.py DIFF [PROP ...]"""
import importlib, sys, os
from pathlib import Path
VERIF = Path(__file__).resolve().parent.parent
sys.path.insert(0, str(VERIF)); sys.dont_write_bytecode = True
from sa import core, udiff
from sa.sm import SourceModel
REPO = Path(os.environ.get("VERIF_REPO", "/repo"))
diff = Path(sys.argv[1]).read_text() if sys.argv[1] != "-" else ""
props = [a.upper() for a in sys.argv[2:]] or sorted(q.stem.upper() for q in (VERIF / "rules").glob("c[0-9][0-9].py"))
overlay = udiff.apply(diff, lambda rel: (REPO / rel).read_text() if (REPO / rel).exists() else None) if diff else {}
known = {f"{k['property']}|{k['rule']}|{k['construct']}" for k in core.load_known() if k.get("status") == "open"}
for p in props:
    sm = SourceModel(REPO, overlay=overlay)
    ctx = core.Ctx(p, REPO, "quick", sm, quiet=True); ctx.overlay = overlay
    try:
        importlib.import_module(f"rules.{p.lower()}").run(ctx)
        ctx.check_floors()
    except Exception as e:
        import traceback; traceback.print_exc()
    fails = [o for o in ctx.failures() if core.finding_key(p, o) not in known]
    und = [o for o in ctx.obligations if getattr(o, "undecided", False)]
    print(f"{p}: {len(fails)} findings, {len(und)} undecided, {len(ctx.obligations)} obligations")
    for o in fails[:8]:
        print(f"   {o.rule} {o.construct[:90]} :: {o.what[:300]}")
    for o in und[:5]:
        print(f"   UNDECIDED {o.rule} {o.construct[:90]}")
