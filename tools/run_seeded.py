#!/venv/bin/python
"""Run every check against every seeded change in /verif/seeded (each applied to a scratch worktree of /repo HEAD,
removed afterwards) and refresh `checks_that_fire` in its meta.json.   usage: tools/run_seeded.py [ID ...]"""
import json, re, subprocess, sys, tempfile
from concurrent.futures import ThreadPoolExecutor
from pathlib import Path
VERIF = Path(__file__).resolve().parent.parent
props = sorted(q.stem.upper() for q in (VERIF / "rules").glob("c[0-9][0-9].py"))
want = set(sys.argv[1:])
def one(sd: Path):
    wt = Path(tempfile.mkdtemp(prefix="seeded_", dir="/tmp")); wt.rmdir()
    subprocess.run(["git", "-C", "/repo", "worktree", "add", "-q", "--detach", str(wt), "HEAD"], check=True)
    try:
        r = subprocess.run(["git", "-C", str(wt), "apply", str(sd / "patch.diff")], capture_output=True, text=True)
        if r.returncode != 0:
            return sd.name, None, {}
        fired, broken = {}, {}
        for p in props:
            r = subprocess.run([str(VERIF / "check"), p, "--repo", str(wt), "--no-evidence"], capture_output=True, text=True, cwd=VERIF)
            if r.returncode == 1:
                fired[p] = sorted(set(re.findall(r"FINDING rule=(\S+)", r.stdout)))
            elif r.returncode != 0:
                broken[p] = r.stdout.strip().splitlines()[-1][:160]
        return sd.name, fired, broken
    finally:
        subprocess.run(["git", "-C", "/repo", "worktree", "remove", "--force", str(wt)])
dirs = [d for d in sorted((VERIF / "seeded").iterdir()) if d.is_dir() and (not want or d.name in want)]
missed = 0
with ThreadPoolExecutor(12) as ex:
    for name, fired, broken in ex.map(one, dirs):
        mp = VERIF / "seeded" / name / "meta.json"
        meta = json.loads(mp.read_text())
        if fired is None:
            print(f"{name}: PATCH DOES NOT APPLY to /repo HEAD"); missed += 1; continue
        own = meta["property"] in fired
        meta["checks_that_fire"], meta["own_check_fires"] = fired, own
        mp.write_text(json.dumps(meta, indent=1))
        if not own: missed += 1
        print(f"{name}: {fired}" + ("" if own else "   <-- own check silent") + (f"   ANALYSIS-ERROR in {broken}" if broken else ""))
print(f"{len(dirs)} seeded changes, {missed} not caught by their own property's check")
sys.exit(1 if missed else 0)
