#!/venv/bin/python
"""Development aid: AV value of every function touched by a refactor diff, before and after.
usage: tools/avdiff.py refactors/B3/refactor.diff [short::qualname ...]"""
import sys, ast
from pathlib import Path
VERIF = Path(__file__).resolve().parent.parent
sys.path.insert(0, str(VERIF)); sys.dont_write_bytecode = True
from sa import udiff, av
from sa.sm import SourceModel
REPO = Path("/repo")
diff = Path(sys.argv[1]).read_text()
overlay = udiff.apply(diff, lambda rel: (REPO / rel).read_text() if (REPO / rel).exists() else None)
sm0, sm1 = SourceModel(REPO), SourceModel(REPO, overlay=overlay)
A0, A1 = av.AV(sm0), av.AV(sm1)
want = sys.argv[2:]
for rel in overlay:
    short = rel.replace("src/gotranx/", "")
    for f0 in sm0.funcs_in(short):
        if "<locals>" in f0.qualname: continue
        if want and f"{short}::{f0.qualname}" not in want: continue
        f1 = sm1.func(short, f0.qualname, required=False)
        if f1 is None: print("GONE", f0.qualname); continue
        if ast.dump(f0.node) == ast.dump(f1.node) and not want: continue
        try:
            v0, _ = A0.returned(f0); v1, _ = A1.returned(f1)
        except Exception as e:
            import traceback; traceback.print_exc(); continue
        tag = "EQUAL" if v0 == v1 else ("UNK" if av.has_unk(v0) or av.has_unk(v1) else "DIFF")
        print(f"== {short}::{f0.qualname}: {tag}")
        if tag != "EQUAL" or want:
            print("   before:", av.show(v0)[:3000]); print("   after :", av.show(v1)[:3000])
