#!/bin/bash
# Verify that each refactors/<id>/refactor.diff applies to /repo HEAD and keeps the pinned baseline green.
# usage: tools/verify_refactors.sh [ID ...]   (results: refactors/<id>/verified.txt)
cd /verif
IDS=${@:-$(ls refactors)}
run_one() {
  id=$1
  wt=/tmp/vr_$id
  rm -rf $wt; git -C /repo worktree add -q --detach $wt HEAD 2>/dev/null || { echo "$id: worktree failed"; return; }
  if git -C $wt apply /verif/refactors/$id/refactor.diff 2>/dev/null; then
    res=$(/verif/tools/baseline.sh $wt | head -3 | tr '\n' ' ')
  else
    res="DOES NOT APPLY"
  fi
  echo "$id: $res" | tee /verif/refactors/$id/verified.txt
  git -C /repo worktree remove --force $wt; rm -rf $wt
}
export -f run_one
echo $IDS | tr ' ' '\n' | xargs -P 8 -I{} bash -c 'run_one {}'
git -C /repo worktree prune
