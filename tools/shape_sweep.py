#!/venv/bin/python
"""Synthetic negative corpus 4: two mechanical restructurings, each behaviour-preserving by construction, one function per
tree:
  --delegate : the body of a function moves to a new private helper `_do_<name>` with the same parameters, and the
               function becomes `return <helper>(<its parameters>)` (methods: `return self._do_<name>(...)`)
  --result   : every `return <expr>` of a function becomes `result_ = <expr>; return result_`
Functions with decorators other than staticmethod, generators, nested functions and functions using `super()` / `locals()`
are skipped for --delegate.  Every property's rules run on each tree in memory; any alarm or exit 2 is a false alarm.
usage: tools/shape_sweep.py --delegate|--result [-v] [substring ...]"""
import ast, importlib, os, sys, textwrap
from concurrent.futures import ProcessPoolExecutor
from pathlib import Path
VERIF = Path(__file__).resolve().parent.parent
sys.path.insert(0, str(VERIF)); sys.dont_write_bytecode = True
from sa import core
from sa.sm import SourceModel
REPO = Path(os.environ.get("VERIF_REPO", "/repo"))
PROPS = sorted(q.stem.upper() for q in (VERIF / "rules").glob("c[0-9][0-9].py"))
MODE = "delegate" if "--delegate" in sys.argv else "result"

def top_functions(tree):
    out = []
    def walk(node, prefix, cls):
        for st in ast.iter_child_nodes(node):
            if isinstance(st, ast.FunctionDef):
                out.append((prefix + st.name, st, cls))
            elif isinstance(st, ast.ClassDef):
                walk(st, prefix + st.name + ".", st)
    walk(tree, "", None)
    return out

def delegate(src, q, fn, cls):
    if fn.decorator_list or fn.name.startswith("__") or any(isinstance(n, (ast.Yield, ast.YieldFrom, ast.Await)) for n in ast.walk(fn)):
        return None
    if any(isinstance(n, ast.Name) and n.id in ("super", "locals", "vars", "__class__") for n in ast.walk(fn)):
        return None
    a = fn.args
    if a.posonlyargs:
        return None
    lines = src.splitlines(True)
    start, end = fn.lineno - 1, fn.end_lineno
    body_start = fn.body[0].lineno - 1
    if isinstance(fn.body[0], ast.Expr) and isinstance(fn.body[0].value, ast.Constant) and isinstance(fn.body[0].value.value, str):
        if len(fn.body) == 1:
            return None
        body_start = fn.body[1].lineno - 1
    header = "".join(lines[start:fn.body[0].lineno - 1])
    if fn.body[0].lineno == fn.lineno:
        return None  # one-liner
    indent = len(lines[start]) - len(lines[start].lstrip())
    pad = " " * indent
    helper = f"_do_{fn.name.lstrip('_')}"
    is_method = cls is not None
    params = [x.arg for x in a.args]
    call_args = []
    for p in (params[1:] if is_method and params and params[0] in ("self", "cls") else params):
        call_args.append(p)
    call_args += [f"*{a.vararg.arg}"] if a.vararg else []
    call_args += [f"{x.arg}={x.arg}" for x in a.kwonlyargs]
    call_args += [f"**{a.kwarg.arg}"] if a.kwarg else []
    recv = (params[0] + ".") if is_method and params and params[0] in ("self", "cls") else ""
    if is_method and not recv:
        return None
    new_header = header.replace(f"def {fn.name}(", f"def {helper}(", 1)
    wrapper = header + "".join(lines[fn.body[0].lineno - 1:body_start]) + f"{pad}    return {recv}{helper}({', '.join(call_args)})\n\n"
    helper_def = new_header + "".join(lines[body_start:end]) + "\n"
    out = "".join(lines[:start]) + helper_def + wrapper + "".join(lines[end:])
    try:
        ast.parse(out)
    except SyntaxError:
        return None
    return out

def result_var(src, q, fn, cls):
    rets = [n for n in ast.walk(fn) if isinstance(n, ast.Return) and n.value is not None and n.lineno == n.end_lineno]
    # only returns of this function (not of nested ones), written on one line, as a statement on its own line
    nested = {id(r) for n in ast.walk(fn) if n is not fn and isinstance(n, (ast.FunctionDef, ast.Lambda)) for r in ast.walk(n) if isinstance(r, ast.Return)}
    rets = [r for r in rets if id(r) not in nested]
    if not rets or any(isinstance(n, (ast.Yield, ast.YieldFrom)) for n in ast.walk(fn)):
        return None
    lines = src.splitlines(True)
    for r in sorted(rets, key=lambda r: -r.lineno):
        line = lines[r.lineno - 1]
        if not line.lstrip().startswith("return "):
            continue
        ind = line[: len(line) - len(line.lstrip())]
        expr = line.strip()[len("return "):]
        lines[r.lineno - 1] = f"{ind}result_ = {expr}\n{ind}return result_\n"
    out = "".join(lines)
    try:
        ast.parse(out)
    except SyntaxError:
        return None
    return out if out != src else None

def jobs():
    out = []
    for p in sorted((REPO / "src/gotranx").rglob("*.py")):
        for q, fn, cls in top_functions(ast.parse(p.read_text())):
            out.append((str(p.relative_to(REPO)), q))
    return out

def run_one(job):
    rel, q = job
    src = (REPO / rel).read_text()
    fn, cls = {qq: (f, c) for qq, f, c in top_functions(ast.parse(src))}[q]
    new = (delegate if MODE == "delegate" else result_var)(src, q, fn, cls)
    if new is None:
        return job, None
    overlay = {rel: new}
    known = {f"{k['property']}|{k['rule']}|{k['construct']}" for k in core.load_known() if k.get("status") == "open"}
    res = {}
    for p in PROPS:
        ctx = None; err = None
        try:
            sm = SourceModel(REPO, overlay=overlay)
            ctx = core.Ctx(p, REPO, "quick", sm, quiet=True); ctx.overlay = overlay
            importlib.import_module(f"rules.{p.lower()}").run(ctx)
            ctx.check_floors()
        except Exception as e:
            err = f"{type(e).__name__}: {str(e)[:90]}"
        fails = [o for o in (ctx.failures() if ctx else []) if core.finding_key(p, o) not in known]
        if fails or err:
            res[p] = sorted({o.rule for o in fails}) or err
    return job, res

if __name__ == "__main__":
    sel = [a for a in sys.argv[1:] if not a.startswith("-")]
    js = [j for j in jobs() if not sel or any(s in j[1] for s in sel)]
    ok = n = 0
    with ProcessPoolExecutor(min(14, os.cpu_count() or 4)) as ex:
        for (rel, q), res in ex.map(run_one, js):
            if res is None:
                continue
            n += 1
            if res:
                print(f"{MODE} {rel}::{q}: FALSE ALARM {res}")
            else:
                ok += 1
                if "-v" in sys.argv: print(f"{MODE} {rel}::{q}: silent")
    print(f"{MODE} sweep: {ok}/{n} silent")
    sys.exit(0 if ok == n else 2)
