#!/venv/bin/python
"""Regenerate /verif/anchors.json from the current (vetted) tree of /repo: for every function of the package a digest of
its body with its own name masked, its scope and its callers, plus every identifier the tree uses (sa/alpha.py)."""
import json, sys
from pathlib import Path
VERIF = Path(__file__).resolve().parent.parent
sys.path.insert(0, str(VERIF))
from sa import alpha
REPO = Path(sys.argv[1] if len(sys.argv) > 1 else "/repo")
texts = {str(p.relative_to(REPO)): p.read_text() for p in sorted((REPO / "src/gotranx").rglob("*.py"))}
t = alpha.build_table(texts)
from sa import gm
G = gm.GrammarModel(REPO, normalise_renames=False)
t["grammar"] = {name: r["shape"] for name, r in G.rules.items()}
(VERIF / "anchors.json").write_text(json.dumps(t, indent=0, sort_keys=True) + "\n")
print(f"{sum(len(m) for m in t['modules'].values())} functions in {len(t['modules'])} modules, {len(t['identifiers'])} identifiers")
