"""C17 - comments, layout and annotations are inert."""

from __future__ import annotations

import ast

from sa import te
import re

from sa.core import Ctx
from sa.sm import call_kw, const_str, dotted, find_calls, norm, walk_no_nested

from . import common
from .c11 import grammar

EVALUATORS = {"eval", "exec", "compile", "sympify", "parse_expr", "parse_expression", "parse_units", "ureg", "Unit", "Quantity", "literal_eval"}
ANNOT = {"unit", "unit_str", "description", "comment"}
NUMERIC_MODULES = [
    "codegen/base.py", "codegen/python.py", "codegen/c.py", "codegen/jax.py", "templates/python.py", "templates/c.py", "templates/jax.py",
    "schemes.py", "sympytools.py", "expressions.py", "cli/gotran2py.py", "cli/gotran2c.py", "cli/utils.py",
]


def star_height(pattern: str) -> int:
    """Maximal nesting depth of unbounded repeats in a regular expression (re's own parser; nothing is matched)."""
    import re._parser as sp

    def rec(items) -> int:
        best = 0
        for op, av in items:
            name = str(op)
            if name in ("MAX_REPEAT", "MIN_REPEAT", "POSSESSIVE_REPEAT"):
                lo, hi, sub = av
                inner = rec(sub)
                unbounded = str(hi) == "MAXREPEAT" or (isinstance(hi, int) and hi > 64)
                best = max(best, inner + (1 if unbounded else 0))
            elif name == "SUBPATTERN":
                best = max(best, rec(av[3]))
            elif name == "BRANCH":
                best = max(best, max((rec(b) for b in av[1]), default=0))
            elif name in ("ASSERT", "ASSERT_NOT"):
                best = max(best, rec(av[1]))
            elif name == "ATOMIC_GROUP":
                best = max(best, rec(av))
        return best

    return rec(sp.parse(pattern))


def run(ctx: Ctx):
    sm = ctx.sm
    G = grammar(ctx)
    ctx.assume("'never hangs' as such is NOT decided; what is decided is which code can see comment / annotation text and what it may do with it")

    # ---- R17.a comment / annotation text reaches no evaluator ---------------------------------------
    ctx.rule("R17.a", "free text (comment text, unit strings, descriptions) reaches no expression evaluator; where a unit parser must see it, every failure is treated as 'not a unit'; no super-linear regular expression and no recursion is applied to it", floor=7)
    scope = ["transformer.py", "atoms.py", "units.py", "ode.py", "ode_component.py", "load.py", "parser.py"]
    for short in scope:
        for f in sm.funcs_in(short):
            for c in walk_no_nested(f.node):
                if not isinstance(c, ast.Call):
                    continue
                d = dotted(c.func) or ""
                tail = d.split(".")[-1]
                if tail not in EVALUATORS:
                    continue
                args = list(c.args) + [k.value for k in c.keywords]
                texty = [a for a in args if any(isinstance(x, ast.Attribute) and x.attr in ("text", "unit_str", "description") for x in ast.walk(a)) or any(isinstance(x, ast.Name) and x.id in ("unit_str", "text", "comment", "description") for x in ast.walk(a))]
                if not texty and short == "transformer.py" and tail in ("eval", "exec", "compile", "literal_eval", "parse_expr", "sympify"):
                    # a child token of the parse tree handed to a Python / sympy evaluator: quoted strings, unit and
                    # description texts are tokens of the grammar, not literals of Python
                    texty = [a for a in args if any(isinstance(x, ast.Attribute) and x.attr == "children" for x in ast.walk(a))]
                if not texty:
                    # build_expression(tree) etc. are not text evaluators; sympify of a SCIENTIFIC_NUMBER token is checked in C01
                    continue
                shape = "first word of the text" if ".split(" in norm(texty[0]) else "the text"
                key = f"{f.rel}::{d}(<{shape}>)"
                ctx.fail(
                    "R17.a",
                    key,
                    f"{f.qualname} hands free text `{norm(texty[0])}` to `{d}(...)`, which evaluates arithmetic in it (pint parses and computes the expression): an annotation such as `# 9**9**9` makes loading hang, and text can change what is loaded"
                    if tail in ("ureg", "Unit", "Quantity", "parse_units", "parse_expression")
                    else f"{f.qualname} hands free text `{norm(texty[0])}` to `{d}(...)`, which reads it as Python / sympy source: ordinary annotation text (a backslash, an apostrophe, an unbalanced bracket) makes it raise, so the text of an annotation decides whether the model loads",
                    f.where(c),
                )
                # whatever the evaluator raises for that text must be absorbed where it is called
                parents = {ch: pa for pa in ast.walk(f.node) for ch in ast.iter_child_nodes(pa)}
                node, guard = c, None
                while node in parents:
                    pa = parents[node]
                    if isinstance(pa, ast.Try) and any(node is s_ or node in list(ast.walk(s_)) for s_ in pa.body):
                        guard = pa
                        break
                    node = pa
                okg = guard is not None and any(h.type is None or norm(h.type) in ("Exception", "BaseException") for h in guard.handlers)
                if okg:
                    for h in guard.handlers:
                        if any(p_.exit == "raise" for p_ in te.enumerate_paths(h.body)):
                            okg = False
                ctx.check(
                    okg,
                    "R17.a",
                    f"{f.rel}::{d}(<{shape}>)::any-failure-absorbed",
                    "whatever pint raises for the text is absorbed (the text is then just not a unit)",
                    f"{f.qualname}: the probe `{norm(c)[:60]}` is not inside a try whose handlers catch Exception without re-raising; ordinary comment / unit texts make pint raise all sorts of exceptions (TokenError, ZeroDivisionError, AssertionError, TypeError, DefinitionSyntaxError ...) and would abort the load",
                    f.where(guard) if guard is not None else f.where(c),
                )
    for short in ("transformer.py",):
        for f in sm.funcs_in(short):
            pre = [c for c in walk_no_nested(f.node) if isinstance(c, ast.Call) and (dotted(c.func) or "").split(".")[-1] not in ("isinstance", "len", "Comment", "ureg", "str") and not (dotted(c.func) or "").split(".")[-1].startswith("_") and any(isinstance(x, ast.Attribute) and x.attr == "text" and "Comment" not in norm(c.func) for a in list(c.args) for x in ast.walk(a))]
            if f.qualname == "get_unit_and_comment_from_assignment" or pre:
                ctx.check(not pre, "R17.a", f.key("no-other-consumer"), "comment text is only probed as a unit and stored", f"{f.qualname} passes comment text to {[norm(c.func) for c in pre]}: every extra consumer of free text is a new way for a comment to change or block loading", f.where(pre[0]) if pre else f.where())
    # free text as a *format template*: a logging call with extra positional arguments %-formats its first argument
    # (structlog's filtering logger: `event % args`), `str % x` and `str.format` do the same - a `%` or a brace in an
    # annotation then raises ("unsupported format character") and the text of a comment decides whether the model loads
    LOG_LEVELS = {"debug", "info", "warning", "warn", "error", "exception", "critical", "msg", "log"}
    n_fmt = 0
    for short in scope + ["codegen/ode.py", "save.py"]:
        for f in sm.funcs_in(short):
            for c in walk_no_nested(f.node):
                tmpl = None
                if isinstance(c, ast.Call) and isinstance(c.func, ast.Attribute) and c.func.attr in LOG_LEVELS and "log" in norm(c.func.value).lower() and len(c.args) >= 2:
                    tmpl, how = c.args[0], f"`{norm(c.func)}(template, *args)` %-formats its first argument"
                elif isinstance(c, ast.BinOp) and isinstance(c.op, ast.Mod) and isinstance(c.left, ast.JoinedStr):
                    tmpl, how = c.left, "`template % args`"
                elif isinstance(c, ast.Call) and isinstance(c.func, ast.Attribute) and c.func.attr in ("format", "format_map") and isinstance(c.func.value, ast.JoinedStr):
                    tmpl, how = c.func.value, "`template.format(...)`"
                if tmpl is None:
                    continue
                n_fmt += 1
                dyn = [x for x in ast.walk(tmpl) if isinstance(x, ast.FormattedValue)] if isinstance(tmpl, ast.JoinedStr) else ([] if isinstance(tmpl, ast.Constant) else [tmpl])
                ctx.check(
                    not dyn,
                    "R17.a",
                    f.key(f"format-template::{norm(tmpl)[:40]}"),
                    "the format template is a literal",
                    f"{f.qualname}: {how}, and the template `{norm(tmpl)[:80]}` interpolates run-time text ({', '.join(sorted({norm(getattr(x, 'value', x)) for x in dyn}))[:80]}) before it is used as a template: a `%` (or brace) in a unit string or comment raises while loading",
                    f.where(c),
                )
    # regular expressions in the modules that see free text
    n_rx = 0
    for short in scope + ["codegen/ode.py"]:
        mod = sm.module(short)
        for c in ast.walk(mod):
            if isinstance(c, ast.Call) and (dotted(c.func) or "").startswith("re.") and c.args:
                pat = const_str(c.args[0])
                if pat is None:
                    continue
                n_rx += 1
                try:
                    h = star_height(pat)
                except Exception as e:
                    ctx.fail("R17.a", f"{sm.rel(short)}::regex::{pat}", f"regular expression {pat!r} cannot be parsed: {e}", f"{sm.rel(short)}:{c.lineno}")
                    continue
                ctx.check(h <= 1, "R17.a", f"{sm.rel(short)}::regex::{pat}", f"star height {h}", f"regular expression {pat!r} nests unbounded repeats (star height {h}): matching free text with it can take exponential time (a comment can make loading hang)", f"{sm.rel(short)}:{c.lineno}")

    # ---- R17.b grammar ---------------------------------------------------------------------------
    ctx.rule("R17.b", "grammar: white space is ignored; a comment is one terminal from # to the end of the line (may be empty, cannot span lines); comment lines and blank lines are accepted inside a component-tagged block without ending it", floor=5)
    # what is ignored covers the white space characters of lark's common.WS (blank, tab, form feed, CR, LF): a layout
    # character that stops being ignored makes a file that only differs in layout fail to load
    ign_chars = set()
    for tname in G.ignore:
        t_ = G.terms.get(tname)
        if t_ is None:
            continue
        for tok in t_["tree"].scan_values(lambda v_: isinstance(v_, G.Token) and v_.type in ("REGEXP", "STRING")):
            txt_ = str(tok)
            for ch in " \t\f\r\n":
                try:
                    if tok.type == "STRING":
                        hit = ast.literal_eval(txt_) == ch
                    else:
                        body_, _, flags_ = txt_[1:].rpartition("/")
                        hit = re.fullmatch(body_, ch) is not None
                except Exception:
                    hit = False
                if hit:
                    ign_chars.add(ch)
    missing_ws = [repr(c) for c in " \t\f\r\n" if c not in ign_chars]
    ctx.check(not missing_ws, "R17.b", "src/gotranx/ode.lark::%ignore::characters", "blank, tab, form feed, CR and LF are ignored", f"the ignored terminals {G.ignore} no longer match {', '.join(missing_ws)}: a model text that contains that layout character between tokens (a page break between blocks, say) is rejected although only its layout differs", "src/gotranx/ode.lark")
    ctx.check("WS" in G.ignore, "R17.b", "src/gotranx/ode.lark::%ignore WS", "%ignore WS", "ode.lark no longer ignores white space (indentation, blank lines, line continuation would become significant)", "src/gotranx/ode.lark")
    # the comment rule is found by what it matches (a terminal that starts with `#`), not by its name
    cname = comment_rule_name(ctx, G)
    crule = G.rule(cname)
    terms = [t for t in G.rule_refs(cname)]
    lits = G.rule_literals(cname)
    shapes = [G.terms[t]["shape"] for t in terms if t in G.terms]
    regexes = re.findall(r"/((?:[^/\\]|\\.)*)/", crule["shape"]) + [m for s in shapes for m in re.findall(r"/((?:[^/\\]|\\.)*)/", s)]
    verdicts = [_comment_regex_verdict(rx) for rx in regexes]
    ok_c = bool(regexes) and all(vd == "ok" for vd in verdicts) and not lits
    if not ok_c and regexes and not lits and all(vd in ("ok", "undecided") for vd in verdicts):
        ctx.undecided("R17.b", "src/gotranx/ode.lark::comment::terminal", f"the comment terminal {regexes} is one token that starts with `#`, but where it stops is not understood", "src/gotranx/ode.lark")
        ok_c = None
    ok_c is None or ctx.check(
        ok_c,
        "R17.b",
        "src/gotranx/ode.lark::comment::terminal",
        "COMMENT: /#[^\\n]*/",
        f"the comment rule is `{G.shape(cname)}` with regexps {regexes}: a `#` token followed by a separate text token lets the ignored white space (including the line break) slip in between, so an empty comment swallows the next line; the text part must stop at the line feed and only there (a line ends only at a line feed: NEWLINE is (CR? LF)+ and a lone CR is ignored white space, so a comment that also stops at CR, or at any other character, hands the rest of its line to the parser as model text)",
        "src/gotranx/ode.lark",
    )
    check_block_items(ctx, "R17.b", G, cname)
    from sa import av as _avt

    from . import util as _ut

    handlers = [h for h in G.handlers(G.block_rule_name())]
    texs = [sm.func("transformer.py", f"TreeToODE.{h}", required=False) for h in handlers]
    if not any(texs):
        ctx.broken(f"transformer.py: no TreeToODE method for the expression-block rule (looked for {handlers}; anchor vanished)")
    for tex in [t for t in texs if t is not None]:
        tv = _ut.value_of(ctx, tex)
        key = tex.key("comments-in-block")
        inner = _avt._unwrap_seq(tv)
        while inner[0] == "call" and inner[1] in ("tuple", "list") and len(inner[2]) == 1:
            inner = _avt._unwrap_seq(inner[2][0])
        if _avt.has_unk(tv) or inner[0] != "comp":
            ctx.undecided("R17.b", key, f"what {tex.qualname} returns is not understood", tex.where())
            continue
        if True:
            bv = ("bv", inner[1])
            isc = ("call", "isinstance", (bv, ("sym", "atoms.Comment")), ())
            passed = any(it[0] == "when" and it[1] == isc and it[2] == bv for it in inner[3]) or (isc in inner[4] and bv in inner[3])
            # every other item (what becomes an assignment) is produced only for items that are not comments
            parsed = [it for it in inner[3] if not (it[0] == "when" and it[1] == isc and it[2] == bv) and it != bv]

            def excludes_comments(c):
                return c == ("not", isc) or (c[0] == "bool" and c[1] == "and" and ("not", isc) in c[2])

            guarded = all((it[0] == "when" and excludes_comments(it[1])) or any(excludes_comments(c) for c in inner[4]) for it in parsed)
            ok = passed and bool(parsed) and guarded
            to = _ut.nf(ctx, "transformer.py", "TreeToODE.ode")
            # the Comment items are separated from the atoms - in ode() itself or in a module-level helper it uses
            scope_nodes = [to.node]
            used = {x.id for x in ast.walk(to.node) if isinstance(x, ast.Name)} | {x.attr for x in ast.walk(to.node) if isinstance(x, ast.Attribute)}
            for hf in sm.funcs_in("transformer.py"):
                if hf.name in used and hf.name.startswith("_") or (hf.name in used and "." not in hf.qualname and hf.name not in ("tree2parameter", "lark_list_to_parameters")):
                    scope_nodes.append(hf.node)
            ok2 = any(isinstance(n, ast.If) and re.fullmatch(r"(not )?isinstance\(\w+, atoms\.Comment\)", norm(n.test)) for sn in scope_nodes for n in ast.walk(sn))
            ctx.check(ok and ok2, "R17.b", key, "comments inside a block are passed on, not treated as atoms", f"the transformer does not pass Comment items of an expressions block on unchanged ({_avt.show(tv)[:120]}): they would be treated as assignments", tex.where())
    aname = G.assignment_rule_name()
    asg = G.shape(aname)
    ctx.check(asg.replace(" ", "") == '?' + aname + ':VARIABLE"="expression[' + cname + '][NEWLINE]', "R17.b", "src/gotranx/ode.lark::assignment", asg, f"assignment rule is `{asg}`", "src/gotranx/ode.lark")

    # ---- R17.c who may read annotations ----------------------------------------------------------------
    check_raw_text(ctx, "R17.b")
    from .c08 import check_all_items_registered

    check_all_items_registered(ctx, "R17.b")
    # equality of assignments ignores the expression but includes the trailing comment and unit: a handler that merges
    # entries that compare equal makes the *comment* decide whether a second definition is dropped silently or rejected
    from .c08 import check_handlers_keep_every_entry

    check_handlers_keep_every_entry(ctx, "R17.b")

    ctx.rule("R17.c", "unit, unit_str, description and comment attributes are never read by the code generators, templates, schemes or expression builder", floor=10)
    for short in NUMERIC_MODULES:
        mod = sm.module(short)
        reads = [n for n in ast.walk(mod) if isinstance(n, ast.Attribute) and n.attr in ANNOT and isinstance(n.ctx, ast.Load)]
        # ... nor the comment text of the model as a whole (ODE.text / ODE.comments)
        reads += [n for n in ast.walk(mod) if isinstance(n, ast.Attribute) and n.attr in ("text", "comments") and isinstance(n.ctx, ast.Load) and norm(n.value).split(".")[-1] == "ode"]
        # ... nor through getattr / attrgetter with the attribute's name as a literal
        reads += [n for n in ast.walk(mod) if isinstance(n, ast.Call) and (dotted(n.func) or "").split(".")[-1] in ("getattr", "attrgetter", "hasattr") and any(isinstance(a, ast.Constant) and isinstance(a.value, str) and a.value.split(".")[-1] in ANNOT for a in n.args)]
        ctx.check(not reads, "R17.c", f"{sm.rel(short)}::annotation-reads", "no annotation is read", f"{short} reads {sorted({norm(r) for r in reads})}: generated numerics / layout can depend on a unit, description or comment", f"{sm.rel(short)}:{reads[0].lineno}" if reads else sm.rel(short))
    # ode.py / atoms.py / ode_component.py: only pass-through copies
    for short in ("ode.py", "atoms.py", "ode_component.py"):
        for f in sm.funcs_in(short):
            bad = []
            for n in ast.walk(f.node):
                if isinstance(n, ast.Attribute) and n.attr in ANNOT and isinstance(n.ctx, ast.Load):
                    ok = False
                    for c in ast.walk(f.node):
                        if isinstance(c, ast.Call):
                            for k in c.keywords:
                                if k.value is n and k.arg in ANNOT:
                                    ok = True
                    if f.qualname in ("Atom.__attrs_post_init__",) and n.attr in ("unit", "unit_str"):
                        ok = True
                    if not ok:
                        bad.append(norm(n))
            if any(isinstance(n, ast.Attribute) and n.attr in ANNOT for n in ast.walk(f.node)):
                ctx.check(not bad, "R17.c", f.key("annotation-reads"), "annotations are only copied into new atoms", f"{f.qualname} uses {bad} for something other than copying it into a new atom", f.where())


TEXT_TRANSFORMS = {"sub", "subn", "replace", "strip", "rstrip", "lstrip", "splitlines", "split", "join", "expandtabs", "translate", "lower", "upper", "format", "encode", "decode", "partition", "rpartition", "removeprefix", "removesuffix"}


def comment_rule_name(ctx: Ctx, G) -> str:
    hash_terms = {t for t, d in G.terms.items() if re.search(r"/\s*#|\"#\"", " " + d["shape"])}
    cnames = [r for r in G.rules if set(G.rule_refs(r)) & hash_terms and not (set(G.rule_refs(r)) - hash_terms - {"NEWLINE"})]
    cname = "comment" if "comment" in G.rules else (cnames[0] if cnames else None)
    if cname is None:
        ctx.broken("ode.lark: no rule that matches a `#` comment found (anchor vanished)")
    return cname


def check_block_items(ctx: Ctx, rule: str, G, cname: str):
    """Inside a component-tagged block the grammar accepts assignments, comment lines and blank lines: a comment or blank
    line between two assignments must not end the block (the remaining assignments would silently move to the unnamed
    component - membership would depend on where the line stands)."""
    exp = G.rule(G.block_rule_name())
    alts = [a for a in exp["tree"].children]
    # a tagged alternative starts with one of the header keywords (or a group of them) and `(`
    head = re.compile(r'^\(?\s*"(?:expressions|component)"(?:\s*\|\s*"(?:expressions|component)")*\s*\)?\s*"\("')
    tagged = [a for a in alts if head.match(G.render(a))]
    covered = {kw for a in tagged for kw in re.findall(r'"(expressions|component)"', head.match(G.render(a)).group(0))}
    ctx.check(covered == {"expressions", "component"}, rule, "src/gotranx/ode.lark::expressions::tagged-alternatives", "expressions(...) and component(...) headers", f"the block rule has tagged alternatives for {sorted(covered)} only", "src/gotranx/ode.lark")
    for a in tagged:
        txt = G.render(a)
        body = G.expand_inlined(txt[txt.rfind('")"') + 3:].strip())
        while body.startswith("(") and body.endswith(")") and body.count("(") == body.count(")") and not body.endswith(")+"):
            body = body[1:-1].strip()
        okb = all(x in body for x in (G.assignment_rule_name(), cname, "NEWLINE")) and body.endswith(")+")
        tag = re.findall(r'"(expressions|component)"', head.match(txt).group(0))[0]
        ctx.check(okb, rule, f'src/gotranx/ode.lark::expressions::"{tag}"::block-items', f"block items: {body}", f"inside a `{tag}(...)` block only `{body}` is accepted: a comment line or a blank line between two assignments ends the block and the remaining assignments silently move to the unnamed component (or the model no longer loads)", "src/gotranx/ode.lark")


def _comment_regex_verdict(rx: str) -> str:
    """`ok`: the regular expression is `#` followed by single-character items none of which can match a line feed and the
    last of which is a starred class that accepts every character except the line feed (the token runs to the end of
    the line and stops only there).  `violation`: it does not start with `#`, an item can match a line feed (the token can
    span lines), or the last item refuses a character other than the line feed (the rest of the line is parsed as
    model text).  `undecided`: any other form (groups, alternatives, look-arounds)."""
    import re._constants as rc
    import re._parser as rp

    try:
        items = list(rp.parse(rx))
    except Exception:
        return "undecided"
    if not items or items[0] != (rc.LITERAL, ord("#")):
        return "violation"

    def charset(op, arg):
        """(negated, set of characters) a single-character item matches; None when it is not understood"""
        if op == rc.ANY:
            return (True, {"\n"})
        if op == rc.LITERAL:
            return (False, {chr(arg)})
        if op == rc.NOT_LITERAL:
            return (True, {chr(arg)})
        if op == rc.CATEGORY:
            ws = {" ", "\t", "\n", "\r", "\f", "\v"}
            return {rc.CATEGORY_SPACE: (False, ws), rc.CATEGORY_NOT_SPACE: (True, ws)}.get(arg)
        if op == rc.IN:
            neg = bool(arg) and arg[0][0] == rc.NEGATE
            chars: set = set()
            for o, a in arg[1:] if neg else arg:
                if o == rc.LITERAL:
                    chars.add(chr(a))
                elif o == rc.RANGE:
                    chars |= {chr(c) for c in range(a[0], a[1] + 1)} if a[1] - a[0] < 512 else set()
                    if a[1] - a[0] >= 512:
                        return None
                elif o == rc.CATEGORY and a == rc.CATEGORY_SPACE:
                    chars |= {" ", "\t", "\n", "\r", "\f", "\v"}
                else:
                    return None
            return (neg, chars)
        return None

    parsed = []
    for op, arg in items[1:]:
        star = False
        if op in (rc.MAX_REPEAT, rc.MIN_REPEAT):
            lo, hi, body = arg
            if len(body) != 1:
                return "undecided"
            star = lo == 0 and hi == rc.MAXREPEAT and op == rc.MAX_REPEAT
            op, arg = body[0]
        cs = charset(op, arg)
        if cs is None:
            return "undecided"
        parsed.append((star, cs))
    for _star, (neg, chars) in parsed:
        if ("\n" in chars) != neg:
            return "violation"  # this item can match a line feed
    if not parsed:
        return "violation"  # `#` alone: the text would be a separate token
    star, (neg, chars) = parsed[-1]
    if not star:
        return "undecided"
    return "ok" if neg and chars == {"\n"} else "violation"


def check_raw_text(ctx: Ctx, rule: str):
    """What is a comment, a blank line or a line ending is decided by the grammar (R17.b).  The text the parser sees
    must therefore be the text of the model itself: a transformation applied to the raw text before parsing cannot know
    where comments are, so comment text could change what the following lines mean."""
    from sa import av as _av

    from . import util

    sm = ctx.sm
    ofs = sm.func("load.py", "ode_from_string")
    A = util.AV(ctx)
    n0 = len(A.call_log)
    A.returned(ofs)
    parses = [v for _f, _n, v in A.call_log[n0:] if v[0] == "mcall" and v[2] == "parse" and v[3]]
    key = ofs.key("parser-input")
    tp = ofs.params[0]
    if not parses:
        ctx.undecided(rule, key, "ode_from_string: the call of the parser is not found in what the function does", ofs.where())
    else:
        arg = parses[0][3][0]
        changed = [m for m in _av.find_all(arg, "mcall") if m[2] in TEXT_TRANSFORMS] + [c for c in _av.find_all(arg, "call") if c[1].split(".")[-1] in ("sub", "subn", "join")]
        if arg == ("sym", tp):
            ctx.ok(rule, key, "the parser receives the given text itself", ofs.where())
        elif changed or arg[0] in ("s", "join"):
            ctx.fail(rule, key, f"ode_from_string hands `{_av.show(arg)[:100]}` to the parser, not the given text: a rewrite of the raw text does not know where comments are, so the text of a comment can change what the lines after it mean", ofs.where())
        else:
            ctx.undecided(rule, key, f"ode_from_string hands `{_av.show(arg)[:100]}` to the parser; whether that is the given text is not decided", ofs.where())
    lo = sm.func("load.py", "load_ode")
    n0 = len(A.call_log)
    lv = A.returned(lo)[0]
    calls = [c for c in _av.find_all(lv, "call") if c[1].split(".")[-1] == "ode_from_string"] or [v for _f, _n, v in A.call_log[n0:] if v[0] == "call" and v[1].split(".")[-1] == "ode_from_string"]
    key = lo.key("file-text")
    if not calls:
        ctx.undecided(rule, key, "load_ode: the call of ode_from_string is not found in what the function does", lo.where())
        return
    arg = calls[0][2][0] if calls[0][2] else dict(calls[0][3]).get(ofs.params[0])
    if arg is None:
        ctx.undecided(rule, key, "load_ode: the text handed to ode_from_string is not found", lo.where())
        return
    ok = arg[0] == "mcall" and arg[2] == "read_text" and not arg[3] and all(k in ("encoding", "errors") for k, _ in arg[4])
    changed = [m for m in _av.find_all(arg, "mcall") if m[2] in TEXT_TRANSFORMS] + [c for c in _av.find_all(arg, "call") if c[1].split(".")[-1] in ("sub", "subn")]
    if ok:
        ctx.ok(rule, key, "the file's text is parsed as it is", lo.where())
    elif changed or arg[0] in ("s", "join"):
        ctx.fail(rule, key, f"load_ode parses `{_av.show(arg)[:110]}`, not the text of the file: a rewrite of the raw text (line splitting, stripping, substitution) does not know where comments are, so the text of a comment can change what the lines after it mean", lo.where())
    else:
        ctx.undecided(rule, key, f"load_ode parses `{_av.show(arg)[:100]}`; whether that is the text of the file is not decided", lo.where())
