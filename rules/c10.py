"""C10 - the model does not depend on the order in which statements are written."""

from __future__ import annotations

import ast

from sa.core import Ctx
from sa.op import TEXT
from sa.sm import norm

from .c09 import op_engine, report_op


def run(ctx: Ctx):
    sm = ctx.sm
    ctx.assume("lark delivers the children of a rule in text order; the relative order of comments is not permuted by the property and is exempt")
    ctx.assume("receiver types come from the package's own annotations (no type checker is available)")
    ctx.rule(
        "R10.a",
        "no text-dependent order (ODE.components keeps first-appearance order; lark children) reaches emitted code, slot numbers, the topological sorter, "
        "an ordered public accessor, or an element-wise comparison in ODE.__eq__",
        floor=5,
    )
    report_op(ctx, "R10.a", TEXT)

    ctx.rule(
        "R10.d",
        "the traversal order of a set depends on the order in which its elements were inserted - that is on the text: no set-iteration order "
        "(nor a sort with a non-injective key, which keeps it among ties) reaches those sinks either",
        floor=20,
    )
    from sa.op import HASH

    report_op(ctx, "R10.d", HASH)

    # ---- R10.b the transformer discards textual order -------------------------------------------
    ctx.rule("R10.b", "the transformer collects the atoms of each component into sets (discarding the order of blocks, entries and lines) before components are built", floor=3)
    from . import util

    f = util.nf(ctx, "transformer.py", "TreeToODE.ode")  # private helpers expanded
    # the per-component containers
    # ... which may live in a small private collector class of the module that TreeToODE.ode instantiates
    used_names = {n.id for n in ast.walk(f.node) if isinstance(n, ast.Name)}
    scope = [f.node] + [c_.node for (r_, q_), c_ in sm.classes.items() if r_ == f.rel and q_ in used_names and q_.startswith("_")]
    set_containers = any(isinstance(l, ast.DictComp) and norm(l.value) in ("set()", "frozenset()") for sc_ in scope for l in ast.walk(sc_))
    frozen = [n for sc_ in scope for n in ast.walk(sc_) if isinstance(n, ast.Call) and norm(n.func) == "frozenset"]
    comp_calls = [n for n in ast.walk(f.node) if isinstance(n, ast.Call) and norm(n.func).endswith("Component")]
    ctx.check(set_containers or bool(frozen), "R10.b", f.key("containers"), "atoms are gathered in sets and frozen before Component(...) is called", "TreeToODE.ode no longer gathers the atoms of a component in (frozen)sets: the order of lines in the text could reach the components", f.where())
    ctx.check(bool(comp_calls), "R10.b", f.key("component-construction"), "components are built from the gathered containers", "TreeToODE.ode does not construct Component objects", f.where())
    oc = sm.cls("ode_component.py", "BaseComponent")
    ann = oc.annotations()
    bad = {k: v for k, v in ann.items() if k in ("states", "parameters", "assignments", "state_derivatives", "intermediates") and not v.startswith("frozenset[")}
    ctx.check(not bad, "R10.b", f"src/gotranx/ode_component.py::BaseComponent::fields", "component fields are frozensets", f"BaseComponent fields that are not frozensets (their order would follow the text): {bad}", oc.where())

    # the grammar side of the same fact: which component an assignment line belongs to does not depend on where a comment
    # or blank line stands among the lines of its block
    from .c11 import grammar
    from .c17 import check_block_items, comment_rule_name

    G10 = grammar(ctx)
    check_block_items(ctx, "R10.b", G10, comment_rule_name(ctx, G10))
    check_single_pass_lookups(ctx, "R10.b")
    check_entries_linewise(ctx, "R10.b", G10)

    ctx.rule("R10.e", "a name is defined at most once: of two definitions that compare equal (equality ignores the expression tree) a set keeps the one inserted first, i.e. the one written first", floor=3)
    from .c08 import check_redefinition_guard

    check_redefinition_guard(ctx, "R10.e")

    # ---- R10.c ODE.__eq__ compares canonical values ------------------------------------------------
    ctx.rule("R10.c", "ODE.__eq__ compares name, comments and the components in an order that does not follow the text", floor=1)
    eq = sm.func("ode.py", "ODE.__eq__")
    eng = op_engine(ctx)
    bad_eq = [v for v in eng.violations if v.qual == "ODE.__eq__"]
    compares = [n for n in ast.walk(eq.node) if isinstance(n, ast.Compare)]
    mentions_components = any("components" in norm(c) for c in compares) or any("components" in norm(n) for n in ast.walk(eq.node) if isinstance(n, ast.Call))
    ctx.check(not bad_eq and mentions_components, "R10.c", eq.key("components"), "components are compared after sorting by name", "ODE.__eq__ compares the text-ordered `components` tuples element-wise (or does not compare components at all): models written with their blocks in another order compare unequal" if bad_eq else "ODE.__eq__ no longer compares the components", eq.where())


def check_single_pass_lookups(ctx: Ctx, rule: str):
    """The transformer visits the lines of the text once, in textual order, and records what it has seen in dicts / sets.
    Within that pass, the only thing that may be asked of such a record is whether *the name being defined* is already
    there (a duplicate is a duplicate in either order).  Looking up any *other* name - `is the state of this derivative
    already declared?` - makes acceptance of the model depend on the order of its blocks and lines."""
    sm = ctx.sm
    cls = sm.cls("transformer.py", "TreeToODE")
    n_loops = 0
    for mname, f in cls.methods.items():
        for loop in [n for n in ast.walk(f.node) if isinstance(n, ast.For)]:
            # records: names bound before the loop to an empty dict / set / defaultdict and written inside the loop
            written: dict[str, set[str]] = {}

            def key_of(node):
                return norm(node)

            aliases = {t.id: norm(st.value) for st in ast.walk(loop) if isinstance(st, ast.Assign) and len(st.targets) == 1 and isinstance((t := st.targets[0]), ast.Name) and isinstance(st.value, (ast.Attribute, ast.Name))}

            def canon(k: str) -> str:
                seen = set()
                while k in aliases and k not in seen:
                    seen.add(k)
                    k = aliases[k]
                return k

            for n in ast.walk(loop):
                if isinstance(n, ast.Call) and isinstance(n.func, ast.Attribute) and isinstance(n.func.value, ast.Name) and n.func.attr in ("setdefault", "add") and n.args:
                    written.setdefault(n.func.value.id, set()).add(canon(key_of(n.args[0])))
                if isinstance(n, ast.Subscript) and isinstance(n.ctx, ast.Store) and isinstance(n.value, ast.Name):
                    written.setdefault(n.value.id, set()).add(canon(key_of(n.slice)))
            local_records = {name for name in written if any(isinstance(st, (ast.Assign, ast.AnnAssign)) and any(isinstance(t, ast.Name) and t.id == name for t in (st.targets if isinstance(st, ast.Assign) else [st.target])) and st.value is not None and norm(st.value).split("(")[0] in ("{}", "dict", "set", "defaultdict", "collections.defaultdict", "OrderedDict") + ("{}",) for st in ast.walk(f.node))}
            if not local_records:
                continue
            n_loops += 1
            for rec in sorted(local_records):
                keys = written[rec]
                reads = []
                for n in ast.walk(loop):
                    k = None
                    if isinstance(n, ast.Call) and isinstance(n.func, ast.Attribute) and isinstance(n.func.value, ast.Name) and n.func.value.id == rec and n.func.attr in ("get", "__contains__", "pop") and n.args:
                        k = n.args[0]
                    elif isinstance(n, ast.Compare) and len(n.ops) == 1 and isinstance(n.ops[0], (ast.In, ast.NotIn)) and isinstance(n.comparators[0], ast.Name) and n.comparators[0].id == rec:
                        k = n.left
                    elif isinstance(n, ast.Subscript) and isinstance(n.ctx, ast.Load) and isinstance(n.value, ast.Name) and n.value.id == rec:
                        k = n.slice
                    if k is not None and canon(key_of(k)) not in keys:
                        reads.append((n, canon(key_of(k))))
                key = f.key(f"single-pass::{rec}")
                if reads:
                    n0, k0 = reads[0]
                    ctx.fail(rule, key, f"TreeToODE.{mname}: while the lines are visited in textual order, `{rec}` (filled under {sorted(keys)}) is asked for another name, `{k0}`: whether that name has been seen yet depends on the order of the blocks and lines of the text (a derivative before its states block, a use before its definition)", f.where(n0))
                else:
                    ctx.ok(rule, key, f"`{rec}` is only asked for the name being defined", f.where(loop))
    if not n_loops:
        ctx.undecided(rule, "src/gotranx/transformer.py::TreeToODE::single-pass", "no loop of the transformer that records what it has seen in a dict / set was found", "")


def check_entries_linewise(ctx: Ctx, rule: str, G):
    """What a block handler of the transformer makes of one line depends on that line only: its value is a comprehension over
    the lines, or a loop whose carried state is nothing but the list of results so far.  A unit, comment or component
    remembered from the line before (a local set on one iteration and read on the next) makes the atoms depend on the
    order of the lines."""
    from sa import av as _av

    from . import util

    names = list(G.handlers(G.block_rule_name())) + ["states", "parameters"]
    for h in names:
        f = ctx.sm.func("transformer.py", f"TreeToODE.{h}", required=False)
        if f is None:
            continue
        v = util.value_of(ctx, f)
        key = f.key("line-by-line")
        if _av.has_unk(v):
            ctx.undecided(rule, key, f"what TreeToODE.{h} returns is not understood", f.where())
            continue
        folds = _av.find_all(v, "fold")
        carried = []
        for fo in folds:
            body = fo[4]
            acc = ("acc", fo[1])

            def offending(b_):
                """sub-terms of one step that read the accumulator other than to hand it on extended"""
                if b_[0] == "if" and len(b_) == 4:
                    # the decision itself must not look at the results so far; each branch is a step of its own
                    return ([b_[1]] if any(a_[:2] == acc for a_ in _av.find_all(b_[1], "acc")) else []) + offending(b_[2]) + offending(b_[3])
                if b_[0] == "op" and b_[1] == "+" and acc in (b_[2], b_[3]):
                    other = b_[3] if b_[2] == acc else b_[2]  # acc + <new entries>
                    return [other] if any(a_[:2] == acc for a_ in _av.find_all(other, "acc")) else []
                out_ = []
                for it in (b_[1] if b_[0] == "list" else (b_,)):
                    if it == ("spread", acc) or it == acc:
                        continue  # the results so far, handed on unchanged
                    if any(a_[:2] == acc for a_ in _av.find_all(it, "acc")):
                        out_.append(it)
                return out_

            carried.extend(offending(body))
        ctx.check(not carried, rule, key, "each entry is made from its own line only", f"TreeToODE.{h}: an entry is built from state carried over from the lines before it (`{_av.show(carried[0])[:110] if carried else ''}`): a unit / comment / component set on one line is inherited by the next, so permuting the lines of a block changes the atoms", f.where())
