"""C10 - the model does not depend on the order in which statements are written."""

from __future__ import annotations

import ast

from sa.core import Ctx
from sa.op import TEXT
from sa.sm import norm

from .c09 import op_engine, report_op


def run(ctx: Ctx):
    sm = ctx.sm
    ctx.assume("lark delivers the children of a rule in text order; the relative order of comments is not permuted by the property and is exempt")
    ctx.assume("receiver types come from the package's own annotations (no type checker is available)")
    ctx.rule(
        "R10.a",
        "no text-dependent order (ODE.components keeps first-appearance order; lark children) reaches emitted code, slot numbers, the topological sorter, "
        "an ordered public accessor, or an element-wise comparison in ODE.__eq__",
        floor=5,
    )
    report_op(ctx, "R10.a", TEXT)

    ctx.rule(
        "R10.d",
        "the traversal order of a set depends on the order in which its elements were inserted - that is on the text: no set-iteration order "
        "(nor a sort with a non-injective key, which keeps it among ties) reaches those sinks either",
        floor=20,
    )
    from sa.op import HASH

    report_op(ctx, "R10.d", HASH)

    # ---- R10.b the transformer discards textual order -------------------------------------------
    ctx.rule("R10.b", "the transformer collects the atoms of each component into sets (discarding the order of blocks, entries and lines) before components are built", floor=3)
    from . import util

    f = util.nf(ctx, "transformer.py", "TreeToODE.ode")  # private helpers expanded
    # the per-component containers
    set_containers = any(isinstance(l, ast.DictComp) and norm(l.value) in ("set()", "frozenset()") for l in ast.walk(f.node))
    frozen = [n for n in ast.walk(f.node) if isinstance(n, ast.Call) and norm(n.func) == "frozenset"]
    comp_calls = [n for n in ast.walk(f.node) if isinstance(n, ast.Call) and norm(n.func).endswith("Component")]
    ctx.check(set_containers or bool(frozen), "R10.b", f.key("containers"), "atoms are gathered in sets and frozen before Component(...) is called", "TreeToODE.ode no longer gathers the atoms of a component in (frozen)sets: the order of lines in the text could reach the components", f.where())
    ctx.check(bool(comp_calls), "R10.b", f.key("component-construction"), "components are built from the gathered containers", "TreeToODE.ode does not construct Component objects", f.where())
    oc = sm.cls("ode_component.py", "BaseComponent")
    ann = oc.annotations()
    bad = {k: v for k, v in ann.items() if k in ("states", "parameters", "assignments", "state_derivatives", "intermediates") and not v.startswith("frozenset[")}
    ctx.check(not bad, "R10.b", f"src/gotranx/ode_component.py::BaseComponent::fields", "component fields are frozensets", f"BaseComponent fields that are not frozensets (their order would follow the text): {bad}", oc.where())

    ctx.rule("R10.e", "a name is defined at most once: of two definitions that compare equal (equality ignores the expression tree) a set keeps the one inserted first, i.e. the one written first", floor=3)
    from .c08 import check_redefinition_guard

    check_redefinition_guard(ctx, "R10.e")

    # ---- R10.c ODE.__eq__ compares canonical values ------------------------------------------------
    ctx.rule("R10.c", "ODE.__eq__ compares name, comments and the components in an order that does not follow the text", floor=1)
    eq = sm.func("ode.py", "ODE.__eq__")
    eng = op_engine(ctx)
    bad_eq = [v for v in eng.violations if v.qual == "ODE.__eq__"]
    compares = [n for n in ast.walk(eq.node) if isinstance(n, ast.Compare)]
    mentions_components = any("components" in norm(c) for c in compares) or any("components" in norm(n) for n in ast.walk(eq.node) if isinstance(n, ast.Call))
    ctx.check(not bad_eq and mentions_components, "R10.c", eq.key("components"), "components are compared after sorting by name", "ODE.__eq__ compares the text-ordered `components` tuples element-wise (or does not compare components at all): models written with their blocks in another order compare unequal" if bad_eq else "ODE.__eq__ no longer compares the components", eq.where())
