"""C04 - names and array slots agree across every generated function (structural; strongest claim)."""

from __future__ import annotations

import ast
import itertools

from sa import slots, tm
from sa.core import Ctx
from sa.sm import call_kw, const_str, dotted, find_calls, norm

from . import common

REFERENCE = {"STATE": "CodeGenerator.state_index", "PARAM": "CodeGenerator.parameter_index", "MONITOR": "CodeGenerator.monitor_index"}
FLOORS = {"STATE": 9, "PARAM": 5, "MONITOR": 2}  # + 2 matrix producers in sympytools (C20 only)


def slot_families(ctx: Ctx, rule: str, only_family: str | None = None, producers=None, check_ru: bool = True, check_guard: bool = True, floor: bool = True):
    """producers: optional predicate(Producer) -> bool selecting the producers that matter for the calling property
    (the family's reference producer is always kept).  By default the symbolic matrices of sympytools (C20) are excluded."""
    sm = ctx.sm
    sa = slots.SlotAnalysis(sm).run()
    if producers is None:
        producers = lambda p: not p.func.rel.endswith("sympytools.py")  # noqa: E731
    sa.producers = [p for p in sa.producers if producers(p) or p.func.qualname in REFERENCE.values()]
    ru_ok, ru_why, ru_node = slots.remove_unused_is_post_sort_filter(sm)
    sf = sm.func("ode.py", "ODE.sorted_assignments")
    if not check_ru:
        ru_ok = True
    ctx.check(
        ru_ok,
        rule,
        sf.key("remove_unused-is-a-post-sort-filter"),
        ru_why,
        f"ODE.sorted_assignments: {ru_why}; rhs and the schemes (remove_unused=self.remove_unused) then number the state slots differently from state_index / init_state_values / the state unpacking",
        sf.where(ru_node) if ru_node is not None else sf.where(),
    )
    by_fam: dict[str, list] = {}
    for p in sa.producers:
        by_fam.setdefault(p.family, []).append(p)
    for fam, ref_q in REFERENCE.items():
        if only_family and fam != only_family:
            continue
        prods = by_fam.get(fam, [])
        refs = [p for p in prods if p.func.qualname == ref_q]
        if not refs:
            anyfam = [p for p in sa.producers if p.func.qualname == ref_q]
            if anyfam:
                p = anyfam[0]
                ctx.fail(rule, p.func.key(f"{fam}::family"), f"{ref_q} produces (name, index) pairs of the {p.family} family ({p.detail}): the {fam.lower()} index function is wired to another family's template or array", p.func.where(p.node))
                continue
            ctx.broken(f"slot family {fam}: the reference producer {ref_q} was not found (anchor vanished)")
        ref = refs[0]
        short = len(prods) < FLOORS[fam]
        for p in prods:
            key = p.func.key(f"{fam}::{p.kind}")
            where = p.func.where(p.node)
            if not check_guard and not p.guard_ok:
                ctx.ok(rule, key, "counter discipline of this producer is not this property's subject (see C04 / C05-C07)", where)
                continue
            if p.desc.opaque and p.desc.unknown:
                ctx.undecided(rule, key, f"{p.func.qualname}: the sequence that numbers the {fam} slots ({p.desc.show()}) could not be followed back to the model's accessors", where)
                continue
            if p.desc.opaque:
                ctx.fail(rule, key, f"{p.func.qualname}: the sequence that numbers the {fam} slots ({p.desc.show()}) cannot be related to the model's accessors", where)
                continue

            def strip(d):
                args = tuple((k, v) for k, v in d.args if not (k == "remove_unused" and fam == "STATE" and ru_ok))
                return (d.base, args, d.filters)

            same = strip(p.desc) == strip(ref.desc)
            ctx.check(
                same and (p.guard_ok or not check_guard),
                rule,
                key,
                f"{fam} slots numbered over {p.desc.show()}",
                f"{p.func.qualname} numbers the {fam} slots over {p.desc.show()} ({p.detail}) but {ref_q} (the public layout) uses {ref.desc.show()}: "
                "the same name gets different slots in different generated functions",
                where,
                trace=[f"producer : {p.desc.show()}", f"reference: {ref.desc.show()}", f"counter discipline ok: {p.guard_ok}"],
            )
    for fam in REFERENCE:
        if only_family and fam != only_family:
            continue
        if floor and len(by_fam.get(fam, [])) < FLOORS[fam] and not [o for o in ctx.failures() if o.rule == rule]:
            ctx.broken(f"slot family {fam}: only {len(by_fam.get(fam, []))} producers found, {FLOORS[fam]} were confirmed by hand; the extraction no longer matches the code")
    for f, n, t in sa.unclassified:
        ctx.notes.append(f"unclassified index producer (not a slot of an IndexedBase family): {f.qualname}: {t}")
    ctx.extra["slot_producers"] = {fam: [f"{p.func.qualname}:{p.kind}" for p in ps] for fam, ps in by_fam.items()}
    return sa


def index_dicts(ctx: Ctx, rule: str):
    """The dict handed to template.<fam>_index maps element name -> index of that same element (read from what the
    method computes: a dict comprehension over enumerate, a counter loop, a shared `_slots(items)` helper ...)."""
    from sa import av

    from . import util

    cgc = ctx.sm.cls("codegen/base.py", "CodeGenerator")
    for mname in ("state_index", "parameter_index", "monitor_index", "missing_index"):
        f = cgc.methods.get(mname)
        ctx.require(f, f"CodeGenerator.{mname} not found")
        v = util.value_of(ctx, f)
        calls = [m_ for m_ in av.find_all(v, "mcall") if m_[2].endswith("_index") and av.show(m_[1]).endswith("template")]
        vcalls = [x for x in av.find_all(v, "vcall")]
        if not calls:
            if av.has_unk(v) or vcalls:
                ctx.undecided(rule, f.key("template-function"), f"CodeGenerator.{mname}: the call of the index template is not found / understood in what the method computes", f.where())
            else:
                ctx.fail(rule, f.key("template-function"), f"CodeGenerator.{mname} calls no template.<family>_index function", f.where())
            continue
        c = calls[0]
        ctx.check(c[2] == mname, rule, f.key("template-function"), f"calls template.{mname}", f"CodeGenerator.{mname} calls template.{c[2]}", f.where())
        if mname == "missing_index":
            continue
        data = dict(c[4]).get("data", c[3][0] if c[3] else None)
        key = f.key("dict-shape")
        if data is None or av.has_unk(data):
            ctx.undecided(rule, key, f"CodeGenerator.{mname}: the table handed to the template is not understood", f.where())
            continue
        d_ = av._unwrap_seq(data)
        if d_[0] == "call" and d_[1] == "dict" and len(d_[2]) == 1:
            d_ = av._unwrap_seq(d_[2][0])
        ok = False
        if d_[0] == "comp" and len(d_[3]) == 1 and d_[3][0][0] == "kv":
            bv = ("bv", d_[1])
            k_, x_ = d_[3][0][1], d_[3][0][2]
            ok = k_ == ("attr", bv, "name") and x_[0] in ("idx", "cidx") and x_[1] == d_[1] and x_[2] == av.C(0)
        ctx.check(ok, rule, key, "{element.name: index of that element}", f"CodeGenerator.{mname} does not build {{element.name: index of that same element}} (it builds {av.show(data)[:100]})", f.where())


def _single_comp(v):
    """the comprehension inside join(sep, [*comp]) / [*comp] / comp, else None"""
    from sa import av

    if v[0] == "join":
        v = v[2]
    v = av._unwrap_seq(v)
    return v if v[0] == "comp" else None


def unpack_pairs(ctx: Ctx, rule: str):
    """symbol := base[i] uses the element and the index of the same iteration (judged on abstract values: a generator
    expression, a loop with append, enumerate or a counter all give the same comprehension term)."""
    from sa import av

    from . import util

    cgc = ctx.sm.cls("codegen/base.py", "CodeGenerator")
    for mname, base in (("_state_assignments", "states"), ("_parameter_assignments", "parameters")):
        f = cgc.methods.get(mname)
        ctx.require(f, f"CodeGenerator.{mname} not found")
        v = util.value_of(ctx, f)
        cp = _single_comp(v) if not av.has_unk(v) else None
        if cp is None:
            ctx.undecided(rule, f.key("pair"), f"what CodeGenerator.{mname} builds is not understood", f.where())
            continue
        d = cp[1]
        bv = ("bv", d)
        item = cp[3][0] if len(cp[3]) == 1 else None
        ok = item is not None and item[0] == "mcall" and item[2] == "_doprint" and len(item[3]) >= 2 and item[3][0] == ("attr", bv, "symbol") and item[3][1] == ("sub", ("sym", f.params[1]), ("idx", d, av.C(0)))
        ctx.check(ok, rule, f.key("pair"), f"element.symbol := {base}[index]", f"CodeGenerator.{mname} emits {av.show(item)[:120] if item else None}: it does not unpack element.symbol from {base}[position of the same element in the unfiltered sequence]", f.where())
    for mname in ("initial_state_values", "initial_parameter_values"):
        f = cgc.methods.get(mname)
        v = util.value_of(ctx, f)
        tcs = [c for c in av.find_all(v, "mcall") if c[2] in ("init_state_values", "init_parameter_values")]
        code = dict(tcs[0][4]).get("code") if tcs else None
        cp = _single_comp(code) if code is not None and not av.has_unk(code) else None
        if cp is None:
            ctx.undecided(rule, f.key("pair"), f"what CodeGenerator.{mname} hands to the template as code is not understood", f.where())
            continue
        d = cp[1]
        bv = ("bv", d)
        item = cp[3][0] if len(cp[3]) == 1 else None
        ok = item is not None and item[0] == "mcall" and item[2] == "_doprint" and len(item[3]) >= 2 and item[3][0][0] == "sub" and item[3][0][2] == ("idx", d, av.C(0)) and item[3][0][1][0] == "call" and item[3][0][1][1].endswith("IndexedBase") and item[3][1] == ("attr", bv, "value") and not cp[4]
        ctx.check(ok, rule, f.key("pair"), "result[index] := value of the same element", f"CodeGenerator.{mname} emits {av.show(item)[:120] if item else None}: it does not store each default at result[position of the same element]", f.where())


def index_templates(ctx: Ctx, rule: str):
    """The index functions and init functions of the three template modules, judged on the text they generate
    (sa.av skeletons: helpers expanded, locals resolved, indent / dedent applied)."""
    import re

    from . import util

    sm = ctx.sm
    T = tm.TemplateModel(sm)
    # python: dict literal + subscript lookup (KeyError for unknown names)
    for fam in ("state", "parameter", "monitor", "missing"):
        f = T.func("templates/python.py", f"{fam}_index")
        ctx.require(f, f"templates/python.py::{fam}_index not found")
        sk = util.skeleton(ctx, rule, "templates/python.py", f"{fam}_index")
        if sk is None:
            continue
        tree = tm.py_parse(sk)
        assigns = [n for n in tree.body if isinstance(n, ast.Assign) and isinstance(n.targets[0], ast.Name)]
        fdefs = [n for n in tree.body if isinstance(n, ast.FunctionDef)]
        table = assigns[0].targets[0].id if assigns else None
        src = sk.placeholders.get(norm(assigns[0].value), "") if assigns else ""
        pdata = f.params[0]
        ok_dict = bool(assigns) and src in (f"repr({pdata})", pdata, f"str({pdata})", f"dict({pdata})")
        ctx.check(ok_dict, rule, f.key("table"), "<family> = repr(data)", f"python {fam}_index template does not bind the family table to repr(data) (it is `{src}`)", f.where())
        ok_fn = False
        if fdefs and table:
            fd = fdefs[0]
            rets = [n for n in ast.walk(fd) if isinstance(n, ast.Return)]
            arg = fd.args.args[0].arg if fd.args.args else None
            ok_fn = len(rets) == 1 and norm(rets[0].value) == f"{table}[{arg}]"
        ctx.check(ok_fn, rule, f.key("lookup"), "<family>_index(name) returns <family>[name] (KeyError for unknown names)", f"python {fam}_index template: the lookup function is not `return <table>[name]` of the table bound above (unknown names would not be refused, or another table is read)", f.where())
        ctx.check(bool(fdefs) and fdefs[0].name == f"{fam}_index", rule, f.key("family-name"), f"defines {fam}_index", f"templates.python.{fam}_index generates a function called {fdefs[0].name if fdefs else None!r} (another family's name)", f.where())
        fj = T.func("templates/jax.py", f"{fam}_index")
        same = fj is f
        if not same and fj is not None:
            skj = util.skeleton(ctx, rule, "templates/jax.py", f"{fam}_index")
            same = skj is not None and skj.raw == sk.raw
        ctx.check(same, rule, f"src/gotranx/templates/jax.py::{fam}_index", "jax uses the python index template", f"templates.jax.{fam}_index does not generate the text of the python template", fj.where() if fj else "")
    # C: strcmp chain + -1
    for fam in ("state", "parameter", "monitor", "missing"):
        f = T.func("templates/c.py", f"{fam}_index")
        ctx.require(f, f"templates/c.py::{fam}_index not found")
        sk = util.skeleton(ctx, rule, "templates/c.py", f"{fam}_index")
        if sk is None:
            continue
        raw = util.squash(sk.raw)
        pdata = f.params[0]
        m = re.search(r"int (\w+)_index\(const char name\[\]\) \{ (.*)\}$", raw)
        ctx.check(m is not None, rule, f.key("signature"), "int <family>_index(const char name[])", f"C {fam}_index: signature is not int <family>_index(const char name[]) {{ ... }}", f.where())
        if m is None:
            continue
        ctx.check(m.group(1) == fam, rule, f.key("family-name"), f"defines {fam}_index", f"templates.c.{fam}_index generates a function called {m.group(1)}_index (the generated C function gets another family's name)", f.where())
        body = m.group(2)
        lp = re.match(r"⟦for \$(\d+) in " + re.escape(pdata) + r"\.items\(\)(?:\|sep='\\n')?: (.*?)⟧ (.*)$", body)
        okl = lp is not None
        if okl:
            d, inner, tail = lp.group(1), lp.group(2), lp.group(3)
            okb = re.fullmatch(r"\{\('if' if first\$" + d + r" else 'else if'\)\} \(strcmp\(name, \"\{\$" + d + r"\.0\}\"\) == 0\) \{ return \{\$" + d + r"\.1\}; \}", inner.strip()) is not None
            ctx.check(okb, rule, f.key("strcmp-chain"), 'if / else if (strcmp(name, "<name>") == 0) { return <index>; }', f"C {fam}_index: the branch for each (name, index) pair is `{inner.strip()[:120]}`, not `if|else if (strcmp(name, \"<key>\") == 0) {{ return <value>; }}`", f.where())
            ctx.check(tail.strip() == "return -1;", rule, f.key("unknown-name"), "unknown names return -1", f"C {fam}_index ends with `{tail.strip()[:60]}` instead of `return -1;` for unknown names", f.where())
        ctx.check(okl, rule, f.key("pairs"), "each (name, index) pair of data is emitted once, in the order of data", f"C {fam}_index does not emit one branch per item of `{pdata}.items()` (body: {body[:100]})", f.where())
    # init templates call their own index function, list the defaults in order
    for short in ("templates/python.py", "templates/jax.py"):
        for fam, fn in (("state", "init_state_values"), ("parameter", "init_parameter_values")):
            f = T.func(short, fn)
            ctx.require(f, f"{short}::{fn} not found")
            sk = util.skeleton(ctx, rule, short, fn)
            if sk is None:
                continue
            tree = tm.py_parse(sk)
            called = {(dotted(c.func) or "") for c in ast.walk(tree) if isinstance(c, ast.Call)}
            other = "parameter_index" if fam == "state" else "state_index"
            ctx.check(f"{fam}_index" in called and other not in called, rule, f.key("index-function"), f"keyword overrides go through {fam}_index", f"{short}::{fn} looks keyword overrides up with {sorted(c for c in called if c.endswith('_index'))}, not {fam}_index", f.where())
            txt = sk.raw
            pvals = [p_ for p_ in f.params if p_.endswith("_values")]
            pv = pvals[0] if pvals else f"{fam}_values"
            okarr = re.search(r"\{name\} = numpy\.array\(\[⟦for \$(\d+) in " + re.escape(pv) + r"\|sep=', ': \{\$\1\}⟧\], dtype=numpy\.float64\)", txt) is not None
            ctx.check(okarr, rule, f.key("defaults-order"), f"numpy.array([<{pv} in order>], dtype=numpy.float64)", f"{short}::{fn}: the defaults array is not numpy.array([', '.join(map(str, {pv}))], dtype=numpy.float64)", f.where())
            if short.endswith("python.py"):
                oks = f"{{name}}[{fam}_index(key)] = value" in txt
            else:
                oks = f"{{name}} = {{name}}.at[{fam}_index(key)].set(value)" in txt
            ctx.check(oks, rule, f.key("override"), "override stored at <family>_index(key)", f"{short}::{fn}: keyword overrides are not stored at {fam}_index(key)", f.where())
            ctx.check(bool(re.search(r"return \{name\}\s*$", txt.rstrip() + "\n")), rule, f.key("returns-array"), "returns the array", f"{short}::{fn}: the function does not end with `return <the array>`", f.where())
    for fam, fn in (("state", "init_state_values"), ("parameter", "init_parameter_values")):
        f = T.func("templates/c.py", fn)
        sk = util.skeleton(ctx, rule, "templates/c.py", fn)
        if sk is None:
            continue
        raw = util.squash(sk.raw)
        ctx.check(re.search(r"void " + fn + r"\(double\* \{name\}\)\{ .*\{code\} \}$", raw) is not None, rule, f.key("body"), "C init writes the printed slot assignments", f"templates.c.{fn} no longer emits the slot assignments into void {fn}(double* name)", f.where())


def func_tuple(ctx: Ctx, f, args: dict | None = None):
    """kwargs of the Func(...) tuple an argument helper returns (abstract values), or None."""
    from . import util

    v = util.value_of(ctx, f, args)
    return util.call_kwargs(v, "Func"), v


def func_fields(ctx: Ctx, f):
    """fields of the Func tuple for the helper's *default* order, with every helper expanded (so that a tuple built
    from another helper's tuple, e.g. through _replace, is followed)."""
    from sa import av

    from . import util

    dfl = {}
    a = f.node.args
    for arg, d in zip(a.args[len(a.args) - len(a.defaults):], a.defaults):
        if isinstance(d, ast.Constant) and isinstance(d.value, (bool, str)):
            dfl[arg.arg] = av.C(d.value)
        elif isinstance(d, ast.Attribute) and isinstance(d.value, ast.Name) and d.value.id in ("RHSArgument", "SchemeArgument"):
            dfl[arg.arg] = av.C(d.attr)
    v = util.value_of(ctx, f, dfl, everything=True)
    fields = util.call_kwargs(v, "Func")
    return fields, v


def argument_orders(ctx: Ctx, rule: str):
    from sa import av

    from . import util

    sm = ctx.sm
    for cname, letters in (("RHSArgument", "stp"), ("SchemeArgument", "stpd")):
        vals = common.enum_values(ctx, "codegen/base.py", cname)
        perms = {"".join(p) for p in itertools.permutations(letters)}
        c = sm.cls("codegen/base.py", cname)
        ctx.check(set(vals.values()) == perms and all(k == v for k, v in vals.items()), rule, f"src/gotranx/codegen/base.py::{cname}::members", f"{len(perms)} permutations of '{letters}'", f"{cname} members {sorted(set(vals.values()) ^ perms)} differ from the {len(perms)} permutations of '{letters}' (or a member's value differs from its name)", c.where())
    expect = {"s": "states", "t": "t", "p": "parameters", "d": "dt"}
    for short, cls in (("codegen/python.py", "PythonCodeGenerator"), ("codegen/c.py", "CCodeGenerator")):
        for m, letters in (("_rhs_arguments", "stp"), ("_scheme_arguments", "stpd")):
            f = sm.func(short, f"{cls}.{m}")
            kw, v = func_tuple(ctx, f)
            if kw is None or av.has_unk(kw.get("arguments", ("unk", ""))):
                ctx.undecided(rule, f.key("argument_list"), f"the value returned is not a Func(...) tuple with an understood argument list ({av.show(v)[:120]})", f.where())
                continue
            arguments = kw["arguments"]
            comps = [x for x in av.find_all(arguments, "comp")]
            okc = False
            entries = {}
            enum = "RHSArgument" if m == "_rhs_arguments" else "SchemeArgument"
            if comps:
                cp = comps[0]
                it_ok = cp[2] == ("call", f"{enum}.get_value", (("sym", "order"),), ()) and not cp[4]
                item = cp[3][0] if len(cp[3]) == 1 else None
                if item is not None and item[0] == "sub" and item[2] == ("bv", cp[1]) and item[1][0] == "dict":
                    entries = {k[1]: x for k, x in item[1][1] if k[0] == "c"}
                    okc = it_ok
            ctx.check(okc, rule, f.key("argument_list"), "[argument_dict[v] for v in <order string>]", f"{f.qualname}: the formal argument list is not [argument_dict[letter] for letter in {enum}.get_value(order)] (it is {av.show(arguments)[:160]})", f.where())
            if entries:
                bad = []
                for k, x in entries.items():
                    words = av.flatten(x).replace(av.HO, " {").replace(av.HC, "} ").split() if av._is_str(x) else []
                    if not words or words[-1] != expect.get(k):
                        bad.append((k, av.show(x)[:60]))
                ctx.check(set(entries) == set(letters) and not bad, rule, f.key("argument_dict"), f"letters {sorted(entries)} name the objects the body reads", f"{f.qualname}: argument_dict keys {sorted(entries)} / values {bad} do not match letters '{letters}' -> states, t, parameters, dt", f.where())
            # IndexedBase names read by the body are those of the formals
            ib = {}
            for nm in ("states", "parameters", "values"):
                x = kw.get(nm)
                if x is not None and x[0] == "call" and x[1].endswith("IndexedBase") and x[2] and x[2][0][0] == "c":
                    ib[nm] = x[2][0][1]
            ctx.check(ib.get("states") == "states" and ib.get("parameters") == "parameters" and ib.get("values") == "values", rule, f.key("indexed-bases"), "IndexedBase labels states/parameters/values", f"{f.qualname}: IndexedBase labels {ib} differ from the formal names states/parameters/values", f.where())
    # every order, one by one: the helper is evaluated for each member of the enum (constant propagation through
    # the helper, whatever way it builds the list) and the formals must name the letters' objects in that order
    A_all = av.AV(sm, inline=lambda callee: True)
    for short, cls in (("codegen/python.py", "PythonCodeGenerator"), ("codegen/c.py", "CCodeGenerator")):
        for m, enum in (("_rhs_arguments", "RHSArgument"), ("_scheme_arguments", "SchemeArgument")):
            f = sm.func(short, f"{cls}.{m}")
            orders = sorted(common.enum_values(ctx, "codegen/base.py", enum).values())
            wrong, unknown = [], []
            for o in orders:
                dfl = {a_.arg: av.C(d_.value) for a_, d_ in zip(f.node.args.args[len(f.node.args.args) - len(f.node.args.defaults):], f.node.args.defaults) if isinstance(d_, ast.Constant) and isinstance(d_.value, bool)}
                v, _e = A_all.returned(f, {**dfl, f.params[1]: av.C(o)})
                kw = util.call_kwargs(v, "Func")
                args_v = kw.get("arguments") if kw else None
                if args_v is None or args_v[0] != "list" or any(i[0] in ("spread", "when") or not av._is_str(i) for i in args_v[1]) or av.has_unk(args_v):
                    unknown.append(o)
                    continue
                names = [av.flatten(i).replace(av.HO, " ").replace(av.HC, " ").split()[-1] for i in args_v[1]]
                want = [expect[l] for l in o] + (["values"] if cls == "CCodeGenerator" else [])
                if names != want:
                    wrong.append((o, names))
            key = f.key("every-order")
            if wrong:
                ctx.fail(rule, key, f"{f.qualname}: for order '{wrong[0][0]}' the formal arguments are {wrong[0][1]}, not {[expect[l] for l in wrong[0][0]]} ({len(wrong)} of {len(orders)} orders are wrong): the generated function takes its arguments in another order than requested", f.where())
            elif unknown:
                ctx.undecided(rule, key, f"{f.qualname}: the formal argument list is not understood for orders {unknown[:3]}...", f.where())
            else:
                ctx.ok(rule, key, f"all {len(orders)} orders give the formals of their letters, in order", f.where())
    # `order` reaches nothing but the argument helpers
    cgc = sm.cls("codegen/base.py", "CodeGenerator")
    for mname in ("rhs", "monitor_values", "missing_values", "scheme"):
        f = cgc.methods[mname]
        uses = [n for n in ast.walk(f.node) if isinstance(n, ast.Name) and n.id == "order" and isinstance(n.ctx, ast.Load)]
        calls = [c for c in ast.walk(f.node) if isinstance(c, ast.Call) and (dotted(c.func) or "") in ("self._rhs_arguments", "self._scheme_arguments")]
        okk = len(uses) == 1 and len(calls) == 1 and any(u is a for a in list(calls[0].args) + [k.value for k in calls[0].keywords] for u in uses)
        ctx.check(okk, rule, f.key("order-use"), "order only selects the formal argument list", f"CodeGenerator.{mname}: `order` is used {len(uses)} time(s), not exactly once as the argument of the argument-list helper", f.where())


def counts(ctx: Ctx, rule: str):
    import re

    from sa import av

    from . import util

    sm = ctx.sm
    g = sm.func("cli/gotran2c.py", "get_code")
    gv = util.value_of(ctx, g)
    found = {}
    for x in av.find_all(gv, "s"):
        txt = av.flatten(x)
        m = re.fullmatch(r"int (NUM_\w+) = " + av.HO + r"(.*)" + av.HC + r";", txt.strip())
        if m and len(x[1]) == 3 and x[1][1][0] == "h":
            found[m.group(1)] = x[1][1][1]
    texts = " ".join(util.strings_in(gv))
    for macro, fam in (("NUM_STATES", "STATE"), ("NUM_PARAMS", "PARAM"), ("NUM_MONITORED", "MONITOR")):
        val = found.get(macro)
        if val is None and av.has_unk(gv) and macro not in texts:
            ctx.undecided(rule, g.key(macro), f"how gotran2c.get_code assembles the module is not understood ({av.find_all(gv, 'unk')[0][1]})", g.where())
            continue
        okk = val is not None and util.av_size_family(val) == fam
        ctx.check(okk, rule, g.key(macro), f"{macro} = {av.show(val) if val is not None else None}", f"gotran2c.get_code: {macro} is {av.show(val) if val is not None else 'missing'}, which is not the size of the {fam} family", g.where())
    # array extents
    cgc = sm.cls("codegen/base.py", "CodeGenerator")
    want = {"initial_state_values": "STATE", "initial_parameter_values": "PARAM", "rhs": "STATE", "monitor_values": "MONITOR", "missing_values": "MISSING", "_missing_variables_assignments": "MISSING"}
    from . import util

    for mname, fam in want.items():
        f = util.nff(ctx, cgc.methods[mname])
        ibs = [c for c in find_calls(f.node, "IndexedBase")]
        # the array this method fills: its own IndexedBase (not the ones of inlined argument helpers)
        own = [c for c in ibs if c.args and (const_str(c.args[0]) in ("values", "missing_variables") or isinstance(c.args[0], ast.Name))]
        ibs = own or ibs
        if not ibs:
            ctx.undecided(rule, f.key("count"), f"CodeGenerator.{mname}: the IndexedBase of the array it fills is not found in the method's normal form; its extent is not judged", f.where())
            continue
        sh = call_kw(ibs[0], "shape")
        shr = util.canon_of(f).resolve(sh) if sh is not None else None
        if isinstance(shr, ast.Tuple) and len(shr.elts) == 1:
            shr = ast.Tuple([util.strip_int(shr.elts[0])], ast.Load())
        got = slots.size_family(shr) if shr is not None else None
        ctx.check(got == fam, rule, f.key("extent"), f"extent {slots.canon_size(shr) if shr is not None else None}", f"CodeGenerator.{mname}: array extent {slots.canon_size(shr) if shr is not None else None} is not the size of the {fam} family", f.where(ibs[0]))
    for m in common.scheme_models(ctx).values():
        got = slots.size_family(m.values_shape) if m.values_shape is not None else None
        ctx.check(got == "STATE", rule, m.func.key("extent"), "scheme result has one entry per state", f"{m.func.name}: result extent {norm(m.values_shape) if m.values_shape is not None else None} is not the number of states", m.func.where())
    for short, cls in (("codegen/python.py", "PythonCodeGenerator"), ("codegen/c.py", "CCodeGenerator")):
        for mm in ("_rhs_arguments", "_scheme_arguments"):
            f = sm.func(short, f"{cls}.{mm}")
            kw, v = func_tuple(ctx, f)
            if kw is None:
                ctx.undecided(rule, f.key("extent"), f"the value returned is not a Func(...) tuple ({av.show(v)[:100]})", f.where())
                continue
            for nm, fam in (("states", "STATE"), ("parameters", "PARAM"), ("values", "STATE")):
                x = kw.get(nm)
                sh = dict(x[3]).get("shape") if x is not None and x[0] == "call" and x[1].endswith("IndexedBase") else None
                got = util.av_size_family(sh) if sh is not None else None
                ctx.check(got == fam, rule, f.key(f"extent::{nm}"), f"{nm}: {got}", f"{f.qualname}: extent of `{nm}` is {av.show(sh) if sh is not None else None}, not the {fam} size", f.where())
            if "python" in short:
                nrv = kw.get("num_return_values")
                ctx.check(nrv is not None and util.av_size_family(nrv) == "STATE", rule, f.key("num_return_values"), "num_return_values = number of states", f"{f.qualname}: num_return_values is {av.show(nrv) if nrv is not None else None}", f.where())


def run(ctx: Ctx):
    ctx.assume("the sympy printers print Indexed(X, i) as X[i] (vetted printer rows); lark delivers children in text order")
    ctx.rule("R04.a", "slot families: every producer of a (name, index) pair of a family numbers its slots over a sequence order-equivalent to the family's index function", floor=17)
    slot_families(ctx, "R04.a")
    # the sequence a producer numbers its slots over is recomputed from the model for every generated function: a
    # generator that remembers one (a memoised sort, a cached table) hands the sequence computed for the first caller's
    # options to every later one - the index function and the array then disagree depending on the order of the calls
    from .c12 import check_generator_purity

    check_generator_purity(ctx, "R04.a")
    ctx.rule("R04.a2", "index dictionaries and unpacking statements pair each element with the index of that same element", floor=8)
    index_dicts(ctx, "R04.a2")
    unpack_pairs(ctx, "R04.a2")
    check_accessors_are_sets(ctx, "R04.a2")
    check_state_order_accessors(ctx, "R04.a2")
    # the number of values each generated function declares to return is the extent of the array it fills
    from .c03 import return_arity

    return_arity(ctx, "R04.d")
    ctx.rule("R04.b", "index templates: python dict lookup (KeyError), C strcmp chain (-1); every *_index passes its own family name; init templates use their own index function and keep names/values aligned", floor=30)
    index_templates(ctx, "R04.b")
    from .c03 import jax_template

    jax_template(ctx, "R04.b")  # the jax functions return slot i of the body at position i
    ctx.rule("R04.c", "argument order: the enums are exactly the permutations; the order option reaches only the formal argument list; letters name the objects the body reads", floor=14)
    argument_orders(ctx, "R04.c")
    ctx.rule("R04.d", "declared counts and array extents belong to the size class of their family", floor=18)
    counts(ctx, "R04.d")


def check_accessors_are_sets(ctx: Ctx, rule: str):
    """The ordered accessors ODE.states / parameters / intermediates / state_derivatives sort a *set* union of the
    components' fields.  An atom declared under several component names belongs to each of those components; a
    list union would give it one slot per component (the name -> slot map is then no bijection and the array lengths
    no longer match the index tables).  Typed by the order-provenance engine (sa/op.py)."""
    from .c09 import op_engine

    eng = op_engine(ctx)
    for acc in ("states", "parameters", "intermediates", "state_derivatives"):
        f = ctx.sm.func("ode.py", f"ODE.{acc}", required=False)
        if f is None:
            ctx.broken(f"ODE.{acc} not found (anchor vanished)")
        sites = [s_ for s_ in eng.sites if s_.qual == f"ODE.{acc}"]
        sorted_sites = [s_ for s_ in sites if s_.verdict.startswith("discharged:sorted") or "sorted" in s_.verdict]
        key = f.key("union-is-a-set")
        if not sorted_sites:
            ctx.undecided(rule, key, f"ODE.{acc}: the sequence that is sorted by name is not found by the order analysis", f.where())
            continue
        operand = sorted_sites[0].operand
        if operand.startswith(("set[", "frozenset[")):
            ctx.ok(rule, key, f"sorted({operand})", f.where())
        elif operand.startswith(("seq[", "list[", "tuple[")):
            ctx.fail(rule, key, f"ODE.{acc} sorts `{sorted_sites[0].text}`, a {operand}, not a set: an atom that belongs to several components is listed once per component and gets several slots", f.where())
        else:
            ctx.undecided(rule, key, f"ODE.{acc}: the type of the sorted operand ({operand}) is not known", f.where())


def check_state_order_accessors(ctx: Ctx, rule: str):
    """ODE.sorted_state_derivatives / ODE.sorted_states give the dependency-sorted order on *every* path: each value they
    can return is derived from self.sorted_assignments(...) (the order rhs and the schemes number their output by).  A
    shortcut that returns the name-sorted accessor for some models gives those models two different state layouts."""
    from sa import av

    from . import util
    from .c03 import _branches

    for qn, sources in (("ODE.sorted_state_derivatives", ("sorted_assignments",)), ("ODE.sorted_states", ("sorted_state_derivatives", "sorted_assignments"))):
        f = ctx.sm.func("ode.py", qn, required=False)
        if f is None:
            continue
        key = f.key("every-path-sorted")
        unk = False
        for everything in (False, True):
            if everything:
                # second chance: helpers expanded, the sources themselves kept as calls
                A2 = av.AV(ctx.sm, inline=lambda callee, _s=sources: callee.qualname.split(".")[-1] not in _s, cha=True)
                v = A2.returned(f)[0]
            else:
                v = util.value_of(ctx, f)
            if av.has_unk(v):
                unk = True
                break
            odd = []
            for _c, leaf in _branches(v):
                if leaf[0] == "raise":
                    continue
                if not any(m_[2] in sources for m_ in av.find_all(leaf, "mcall")):
                    odd.append(leaf)
            if not odd:
                break
        if unk:
            ctx.undecided(rule, key, f"what {qn} returns is not understood", f.where())
            continue
        # a deviation is definite only when the path returns one of the name-sorted accessors (or a fresh sort)
        named = [
            leaf
            for leaf in odd
            if any(a_[-1] in ("state_derivatives", "states") for a_ in av.find_all(leaf, "attr"))
            or any(isinstance(y_[1], str) and y_[1].split(".")[-1] in ("state_derivatives", "states") for y_ in av.find_all(leaf, "sym"))
            or any(c_[1] == "sorted" for c_ in av.find_all(leaf, "call"))
        ]
        if odd and not named:
            ctx.undecided(rule, key, f"a path of {qn} returns `{av.show(odd[0])[:80]}`, whose order is not understood", f.where())
            continue
        ctx.check(not odd, rule, key, "every path returns (a filter / map of) the dependency-sorted assignments", f"{qn} returns `{av.show(odd[0])[:90] if odd else ''}` on some path, which is not derived from the dependency-sorted assignments: for those models the state slots of state_index / init_state_values differ from the slots rhs and the schemes write", f.where())
