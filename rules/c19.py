"""C19 - model identifiers never collide with names the generated code uses itself."""

from __future__ import annotations

import ast
import keyword
import re

from sa import av as _av
from sa import pm, tm
from sa.core import Ctx
from sa.sm import call_kw, const_str, dotted, find_calls, fstring_skeleton, norm, walk_no_nested

from . import common, printers, util
from .c11 import grammar


def reserved_names(ctx: Ctx) -> dict[str, str]:
    """Names the generated python/jax/C code binds or reads for itself, with where they come from."""
    sm = ctx.sm
    out: dict[str, str] = {}
    T = tm.TemplateModel(sm)
    for short in ("templates/python.py", "templates/jax.py"):
        for fn in ("method", "init_state_values", "init_parameter_values", "_index"):
            f = T.func(short, fn)
            if f is None:
                continue
            try:
                sks = [T.skeleton(short, fn, {"nan_to_num": _av.C(False)} if fn == "method" and short.endswith("python.py") else None)]
            except tm.Undecided:
                sks = tm.returned_skeletons(f)
            for sk in sks:
                try:
                    tree = tm.py_parse(sk)
                except Exception:
                    continue
                for n in ast.walk(tree):
                    if isinstance(n, ast.Name) and not n.id.startswith("PH_"):
                        out.setdefault(n.id, f"{short}::{fn} skeleton")
                    elif isinstance(n, ast.arg) and not n.arg.startswith("PH_"):
                        out.setdefault(n.arg, f"{short}::{fn} skeleton (formal)")
                    elif isinstance(n, ast.FunctionDef) and not n.name.startswith("PH_"):
                        out.setdefault(n.name, f"{short}::{fn} skeleton (function)")
    for short, cls in (("codegen/python.py", "PythonCodeGenerator"), ("codegen/c.py", "CCodeGenerator")):
        for m in ("_rhs_arguments", "_scheme_arguments"):
            f = sm.func(short, f"{cls}.{m}")
            for d in [n for n in ast.walk(f.node) if isinstance(n, ast.Dict)]:
                for v in d.values:
                    for s in [const_str(x) for x in ast.walk(v) if isinstance(x, ast.Constant)]:
                        if s:
                            out.setdefault(s.split()[-1], f"{short}::{m} formal argument")
            for c in find_calls(f.node, "IndexedBase"):
                if c.args and const_str(c.args[0]):
                    out.setdefault(const_str(c.args[0]), f"{short}::{m} IndexedBase")
            # the same from what the function computes (names held in module constants, built by helpers)
            try:
                fv = util.value_of(ctx, f)
            except Exception:
                fv = None
            if fv is not None:
                for c in _av.find_all(fv, "call"):
                    if c[1].split(".")[-1] == "IndexedBase" and c[2] and c[2][0][0] == "c" and isinstance(c[2][0][1], str):
                        out.setdefault(c[2][0][1], f"{short}::{m} IndexedBase")
                for text in util.strings_in(fv):
                    last = text.split()[-1] if text.split() else ""
                    if last.isidentifier() or last.lstrip("*").isidentifier():
                        out.setdefault(last, f"{short}::{m} formal argument")
    si = sm.func("codegen/base.py", "CodeGenerator._shape_info")
    for n in ast.walk(si.node):
        if isinstance(n, ast.JoinedStr):
            text, ph, raw = tm.fstring_parts(n)
            try:
                for x in ast.walk(ast.parse(text)):
                    if isinstance(x, ast.Name) and not x.id.startswith("PH_"):
                        out.setdefault(x.id, "codegen/base.py::_shape_info")
            except SyntaxError:
                pass
    # ... and from the texts the function can return, wherever they are kept (a module-level table)
    try:
        siv = util.value_of(ctx, si)
        for text in util.strings_in(siv):
            body = re.sub(r"\{[^{}]*\}", "PH_x", text)
            try:
                for x in ast.walk(ast.parse(body)):
                    if isinstance(x, ast.Name) and not x.id.startswith("PH_"):
                        out.setdefault(x.id, "codegen/base.py::_shape_info")
            except SyntaxError:
                pass
    except Exception:
        pass
    cg = sm.func("codegen/base.py", "CodeGenerator.scheme")
    for c in find_calls(cg.node, "Symbol"):
        if c.args and const_str(c.args[0]):
            out.setdefault(const_str(c.args[0]), "codegen/base.py::scheme time-step symbol")
    for c in find_calls(sm.func("codegen/base.py", "CodeGenerator._missing_variables_assignments").node, "IndexedBase"):
        if c.args and const_str(c.args[0]):
            out.setdefault(const_str(c.args[0]), "codegen/base.py missing-variables array")
    # the same from what these functions compute (names held in module constants)
    for qn, why in (("CodeGenerator._missing_variables_assignments", "codegen/base.py missing-variables array"), ("CodeGenerator.scheme", "codegen/base.py::scheme time-step symbol")):
        try:
            fv = util.value_of(ctx, sm.func("codegen/base.py", qn))
        except Exception:
            continue
        for c in _av.find_all(fv, "call"):
            if c[1].split(".")[-1] in ("IndexedBase", "Symbol") and c[2] and c[2][0][0] == "c" and isinstance(c[2][0][1], str):
                out.setdefault(c[2][0][1], why)
    for fam in ("state", "parameter", "monitor", "missing"):
        out.setdefault(fam, "templates/python.py::_index table name")
        out.setdefault(f"{fam}_index", "index function")
    out.setdefault("time", "ode.py::make_ode time alias")
    out.setdefault("pi", "ode.lark constant")
    out.setdefault("<derivative>_linearized", "schemes.py helper symbols")
    out.setdefault("_values_<i>", "codegen/jax.py result names")
    for k in ("jax", "math"):
        out.setdefault(k, "module alias in generated code")
    return out


def printed_names(f) -> set[str]:
    """Locals of a print method that hold already printed text."""
    good: set[str] = set()
    changed = True

    def is_printed(v) -> bool:
        if isinstance(v, ast.Constant) and isinstance(v.value, str):
            return True
        if isinstance(v, ast.JoinedStr):
            return True
        if isinstance(v, ast.Call):
            d = dotted(v.func) or norm(v.func)
            if d.endswith("._print") or d.endswith("_module_format") or d in ("_print_Piecewise", "str", "repr") or d.endswith(".format") or d.endswith(".join") or d.endswith("_print_nested") or d == "bool_to_int" or d.endswith("_print_Piecewise") or d.endswith("_print_Assignment"):
                return True
        if isinstance(v, ast.Name):
            return v.id in good
        if isinstance(v, (ast.List, ast.Tuple)):
            return all(is_printed(e) for e in v.elts)
        if isinstance(v, (ast.ListComp, ast.GeneratorExp)):
            return is_printed(v.elt)
        if isinstance(v, ast.Subscript):
            return is_printed(v.value)
        if isinstance(v, ast.BinOp):
            return is_printed(v.left) and is_printed(v.right)
        return False

    while changed:
        changed = False
        for n in ast.walk(f.node):
            tg, val = [], None
            if isinstance(n, ast.Assign):
                tg, val = n.targets, n.value
            elif isinstance(n, (ast.For, ast.comprehension)):
                tg, val = [n.target], n.iter
                if isinstance(val, ast.Call) and isinstance(val.func, ast.Name) and val.func.id == "zip":
                    val = ast.Tuple(elts=list(val.args), ctx=ast.Load())
            if val is None or not is_printed(val):
                continue
            for t in tg:
                for x in ast.walk(t):
                    if isinstance(x, ast.Name) and x.id not in good:
                        good.add(x.id)
                        changed = True
    return good


def run(ctx: Ctx):
    sm = ctx.sm
    G = grammar(ctx)
    M = printers.model(ctx)
    ctx.assume("behaviour per identifier is NOT decided; the set of names the generators use for themselves and the presence of a guard are")

    ctx.rule("R19.a", "there is a raise-or-rename guard on the load -> generate path whose set covers every name the generated code uses for itself", floor=1)
    R = reserved_names(ctx)
    core = {"dt", "t", "time", "states", "parameters", "values", "shape", "missing_variables", "numpy"}
    missing_core = sorted(core - set(R))
    if missing_core:
        ctx.broken(f"reserved-name extraction no longer finds {missing_core} in the templates / argument tables")
    # a guard = a collection constant containing the core names, used in a membership test that raises or renames
    guard = None
    for rel, mod in sm.modules.items():
        if rel.endswith("myokit.py"):
            continue
        for n in ast.walk(mod):
            if isinstance(n, (ast.Set, ast.List, ast.Tuple)) and len(n.elts) >= 5:
                vals = {const_str(e) for e in n.elts}
                if {"dt", "states", "parameters", "values"} <= vals:
                    guard = (rel, n, vals)
    if guard is None:
        silently = sorted(k for k in R if k in ("dt", "t", "time", "pi"))
        crash = sorted(k for k in R if re.fullmatch(r"[A-Za-z_]\w*", k) and k not in silently)
        ctx.fail(
            "R19.a",
            "src/gotranx::reserved-name-guard",
            "no reserved-name guard exists on the load -> generate path: a state / parameter / intermediate may be called "
            + ", ".join(silently)
            + " (silently captured: the model quantity is replaced by the generator's own time step / time / constant) or "
            + ", ".join(crash[:14])
            + " ... (the generated module fails or reads the wrong object). Only the Myokit importer renames clashing names.",
            "src/gotranx/ode.py",
            trace=[f"{k}: {v}" for k, v in sorted(R.items())],
        )
    else:
        rel, node, vals = guard
        lacking = sorted(k for k in R if re.fullmatch(r"[A-Za-z_]\w*", k) and k not in vals and k not in ("jax", "math"))
        ctx.check(not lacking, "R19.a", "src/gotranx::reserved-name-guard::coverage", "guard covers the reserved names", f"the reserved-name guard in {rel} lacks {lacking}", f"{rel}:{node.lineno}")
    ctx.extra["reserved_names"] = R

    ctx.rule("R19.b", "post-processing of emitted code replaces whole words only (an identifier containing `true` / `false` survives)", floor=1)
    from .c02 import check_bool_to_int

    check_bool_to_int(ctx, "R19.b", "identifiers that contain, start or end with `true` / `false` are corrupted in C conditionals")

    ctx.rule("R19.c", "the Myokit importer renames clashing names consistently at both sites", floor=2)
    my = sm.module("myokit.py")
    from .c15 import rename_site_rule

    rename_site_rule(ctx, "R19.c", "src/gotranx/myokit.py::reserved-rename")
    rn = [n for n in my.body if isinstance(n, ast.Assign) and norm(n.targets[0]) == "reserved_names"]
    ctx.check(bool(rn) and norm(rn[0].value).replace('"', "'") == "{name for name in dir(sp) if not name.startswith('_')}", "R19.c", "src/gotranx/myokit.py::reserved_names", "every public sympy name is reserved", f"myokit.reserved_names is {norm(rn[0].value) if rn else None}: names such as `pi` would no longer be renamed and are captured by the grammar's constant on reload", "src/gotranx/myokit.py")

    ctx.rule("R19.d", "only the exact identifier `pi` is the constant; every other identifier the VARIABLE terminal accepts stays a variable", floor=3)
    ctx.check(G.terms["PI"]["shape"] == '"pi"', "R19.d", "src/gotranx/ode.lark::PI", 'PI: "pi"', f"terminal PI is {G.terms['PI']['shape']}: identifiers other than `pi` (Pi, PI) are lexed as the constant", "src/gotranx/ode.lark")
    from . import util as _u19
    from .c01 import REF_EXPR2SYMBOLS

    e2, cur_v19, ref_v19, kt = common.builder_values(ctx, REF_EXPR2SYMBOLS)
    cur_c = _u19.dispatch_cases(cur_v19, kt)
    ref_c = _u19.dispatch_cases(ref_v19, kt)
    vd = _u19.verdict(cur_c.get("constant", cur_c[None]), [ref_c["constant"]])
    if vd == "unknown":
        ctx.undecided("R19.d", e2.key("pi"), "what build_expression builds for constants is not understood", e2.where())
    else:
        ctx.check(vd == "ok", "R19.d", e2.key("pi"), "constant iff the token equals 'pi'", f"build_expression builds {_av.show(cur_c.get('constant', cur_c[None]))[:100]} for a `constant` node: the constant is not recognised by `tree.children[0] == 'pi'` alone", e2.where())
    ctx.check(G.terms["VARIABLE"]["shape"] == '("a".."z" | "A".."Z" | "_") ((("a".."z" | "A".."Z" | "_") | "0".."9"))*', "R19.d", "src/gotranx/ode.lark::VARIABLE", "identifiers: letters, digits, underscore", f"terminal VARIABLE is {G.terms['VARIABLE']['shape']}", "src/gotranx/ode.lark")

    ctx.rule("R19.f", "the generated functions' own time argument `t` is never re-bound from the model: `t` and `time` are the time symbol of every model and `t` is never reported as a missing variable", floor=3)
    from .c01 import time_aliases

    time_aliases(ctx, "R19.f")

    ctx.rule("R19.h", "a model quantity is ordered and kept or dropped by its *name*, whatever the name is: the sorter gets every dependency of every assignment (none filtered out because it looks like one of the generator's own names), and whether a definition is used is `name in ODE.dependents()`, not identity of sympy symbols (two symbols called `t` with different assumptions print the same and compare unequal)", floor=8)
    from .c01 import REF_SORT_ASSIGNMENTS
    from .c12 import liveness_rules

    util.same_as_reference(ctx, "R19.h", "ode.py", "sort_assignments", REF_SORT_ASSIGNMENTS, "node-predecessors", "sorter.add(name, *sorted dependencies of that assignment) for every assignment", "sort_assignments does not feed the sorter with every dependency of every assignment: a definition named like one of the generator's own names (t, time) is printed after its use, which then reads the generator's own variable")
    liveness_rules(ctx, {"a": "R19.h", "b": "R19.h"}, declare=False)

    ctx.rule("R19.g", "the generators bind no names of their own making besides the reserved ones: no run-time generated temporaries (sympy.cse / numbered_symbols / Dummy), and the name -> slot lookups and the writer's constants match whole identifiers only", floor=4)
    check_generated_names(ctx, "R19.g")

    ctx.rule("R19.e", "print methods only interpolate text that went through the printer (so that sympy's reserved-word renaming applies to every symbol)", floor=8)
    printers.check_class_attr_overrides(ctx, "R19.e")
    check_bindings_go_through_printer(ctx, "R19.e")
    for pr in ("numpy", "jax", "c", "ode"):
        for g in M.chains[pr]:
            for mname, f in g.methods.items():
                if not mname.startswith("_print_") or mname == "_print_nested":
                    continue  # _print_nested folds already printed operands (its structure is checked by C01/C03)
                good = printed_names(f) | set(f.params[1:2] if mname in ("_print_nested",) else [])
                bad = []
                guards = {norm(c.left) for n in ast.walk(f.node) if isinstance(n, ast.If) for c in ast.walk(n.test) if isinstance(c, ast.Compare) and isinstance(c.comparators[0], ast.Constant) and isinstance(c.comparators[0].value, str)}
                for n in ast.walk(f.node):
                    if isinstance(n, ast.FormattedValue):
                        v = n.value
                        if isinstance(v, ast.Name) and (v.id in good or v.id in ("func", "relop", "index")):
                            continue
                        if isinstance(v, ast.Call):
                            d = dotted(v.func) or norm(v.func)
                            if d.endswith("._print") or d.endswith("_module_format") or d.endswith(".join") or d in ("str", "repr", "float"):
                                continue
                        if norm(v) in guards:
                            continue
                        if isinstance(v, ast.Attribute) and v.attr in ("i", "j"):
                            continue  # matrix element indices (integers)
                        bad.append(norm(v))
                    elif isinstance(n, ast.Call) and isinstance(n.func, ast.Attribute) and n.func.attr == "format" and isinstance(n.func.value, ast.Constant) and isinstance(n.func.value.value, str):
                        # "...".format(a, *rest, k=v): each argument is judged like an f-string field
                        for v in [a.value if isinstance(a, ast.Starred) else a for a in n.args] + [k.value for k in n.keywords]:
                            if isinstance(v, ast.Name) and (v.id in good or v.id in ("func", "relop", "index")):
                                continue
                            if isinstance(v, ast.Call) and (dotted(v.func) or norm(v.func)).split(".")[-1] in ("_print", "_module_format", "join", "str", "repr", "float"):
                                continue
                            if isinstance(v, ast.Constant):
                                continue
                            bad.append(norm(v))
                key = f"{pr}-printer::{g.name}.{mname}::interpolation"
                if pr == "jax" and g.name != "JaxPrinter":
                    continue
                val = util.value_of(ctx, f)
                if not _av.has_unk(val):
                    # judged on the value the method returns (helpers expanded, locals resolved)
                    bad = sorted(set(raw_holes(val)))
                ctx.check(not bad, "R19.e", key, "only printed text is interpolated", f"{g.name}.{mname} interpolates {bad} directly into the emitted code instead of printing it: sympy's renaming of reserved words (lambda -> lambda_) is bypassed at this site while other sites still rename", f.where())


SAFE_CALLS = {"_print", "_module_format", "float", "str", "repr", "int", "doprint", "len", "format"}


def raw_holes(v, safe_binders=frozenset()) -> list[str]:
    """Terms interpolated into emitted text that did not go through the printer."""
    out: list[str] = []

    def safe(x, sb) -> bool:
        t = x[0]
        if t == "c":
            return True
        if t in ("call", "mcall"):
            tail = (x[1] if t == "call" else x[2]).split(".")[-1]
            if t == "call" and tail in ("str", "repr") and x[2]:
                # str(float(x)) is a number; str(<a sympy object>) is sympy's own text, which skips the printer
                return all(safe(a_, sb) for a_ in x[2])
            if tail in SAFE_CALLS or tail.startswith("_print_"):
                return True
            if t == "call" and tail in ("zip", "reversed", "list", "tuple", "enumerate", "sorted") and x[2]:
                return all(safe(a_, sb) for a_ in x[2])
            return False
        if t == "sym":
            return x[1] in ("func", "relop") or x[1].endswith((".i", ".j"))
        if t == "bv":
            return x[1] in sb
        if t == "acc":
            return True
        if t == "sub":
            if x[1][0] == "dict":
                return all(safe(val, sb) for _, val in x[1][1])
            return safe(x[1], sb)
        if t == "slice":
            return safe(x[1], sb)
        if t == "join":
            return safe(x[2], sb)
        if t == "list":
            return all(safe(i[1] if i[0] == "spread" else (i[2] if i[0] == "when" else i), sb) for i in x[1])
        if t == "comp":
            sb2 = sb | ({x[1]} if safe(x[2], sb) else set())
            return all(safe(i, sb2) for i in x[3])
        if t == "fold":
            sb2 = sb | ({x[1]} if safe(x[2], sb) else set())
            return safe(x[3], sb) and safe(x[4], sb2)
        if t == "if":
            return safe(x[2], sb) and safe(x[3], sb)
        if t == "s":
            return all(p_[0] == "lit" or safe(p_[1], sb) for p_ in x[1])
        if t == "op":
            return safe(x[2], sb) and safe(x[3], sb)
        return False

    def walk(x, sb):
        if not isinstance(x, tuple) or not x:
            return
        t = x[0]
        if t == "s":
            for p_ in x[1]:
                if p_[0] == "h":
                    if not safe(p_[1], sb):
                        out.append(_av.show(p_[1])[:80])
                    walk(p_[1], sb)
            return
        if t in ("comp", "fold"):
            sb2 = sb | ({x[1]} if safe(x[2], sb) else set())
            for y in x[2:]:
                walk(y, sb2)
            return
        for y in x:
            walk(y, sb)

    walk(v, frozenset(safe_binders))
    return out


GENERATED_NAME_MAKERS = {"cse": "sympy.cse names its temporaries x0, x1, ... and only avoids names that occur in the one expression it is given", "numbered_symbols": "an endless supply of x0, x1, ... that knows nothing about the model's identifiers", "Dummy": "printed as _Dummy_<n>", "uniquely_named_symbol": "compared with one expression only", "symbols": None}


def check_generated_names(ctx: Ctx, rule: str):
    """(a) no function of the code generators / schemes creates symbols whose names are made up at run time (they can
    coincide with an identifier of the model, which is then silently overwritten in the generated function);
    (b) the C index functions compare whole names; (c) the writer prints Euler's number and pi in a form a model
    identifier cannot capture."""
    sm = ctx.sm
    n = 0
    for short in ("codegen/base.py", "codegen/python.py", "codegen/c.py", "codegen/jax.py", "schemes.py", "templates/python.py", "templates/c.py", "templates/jax.py"):
        for f in sm.funcs_in(short):
            n += 1
            hits = []
            for c in ast.walk(f.node):
                if isinstance(c, ast.Call):
                    tail = (dotted(c.func) or "").split(".")[-1]
                    if tail in GENERATED_NAME_MAKERS and GENERATED_NAME_MAKERS[tail] is not None:
                        hits.append((c, tail))
            if hits:
                c, tail = hits[0]
                ctx.fail(rule, f.key(f"generated-names::{tail}"), f"{f.qualname} calls `{norm(c.func)}`: {GENERATED_NAME_MAKERS[tail]}; a temporary it introduces into the generated function can have the name of a state, parameter or intermediate of the model, which is then overwritten without any error", f.where(c))
    ctx.ok(rule, "src/gotranx/codegen::generated-names", f"{n} generator / scheme / template functions create no run-time named symbols", "")
    from .c04 import index_templates

    index_templates(ctx, rule)
    # ... and are keyed by the model's own names: a key that went through the printer is the *renamed* identifier for a
    # name the target language reserves (`lambda_`, `default_`), so the quantity can no longer be addressed by its name
    from .c04 import index_dicts

    index_dicts(ctx, rule)
    from .c11 import check_writer_rows

    check_writer_rows(ctx, rule, only={"Exp1", "Pi"})


def check_bindings_go_through_printer(ctx: Ctx, rule: str):
    """A statement `<name> = ...` in generated code is produced by the printer (Assignment(lhs, rhs) via _doprint), which
    renames identifiers the target language reserves (`lambda` -> `lambda_`) consistently at the binding and at every
    use.  A generator method that writes the left-hand side itself - an f-string whose text before ` = ` ends in an
    interpolated value that is not a printed one - binds the raw name while the uses are printed renamed."""
    n = 0
    for short, cname in (("codegen/base.py", "CodeGenerator"), ("codegen/python.py", "PythonCodeGenerator"), ("codegen/c.py", "CCodeGenerator"), ("codegen/jax.py", "JaxCodeGenerator")):
        k = ctx.sm.cls(short, cname, required=False)
        if k is None:
            continue
        for mname, f in k.methods.items():
            n += 1
            bad = None
            for js in [x for x in ast.walk(f.node) if isinstance(x, ast.JoinedStr)]:
                parts = js.values
                for i, p_ in enumerate(parts):
                    if isinstance(p_, ast.Constant) and isinstance(p_.value, str) and re.match(r"^\s*(:[^=]*)?=(?!=)", p_.value) and i > 0 and isinstance(parts[i - 1], ast.FormattedValue):
                        v = parts[i - 1].value
                        if isinstance(v, ast.Name):
                            # a local that holds printed text: every binding of it in the method is a printer call
                            binds = [n_.value for n_ in ast.walk(f.node) if isinstance(n_, ast.Assign) and any(isinstance(t_, ast.Name) and t_.id == v.id for t_ in n_.targets)]
                            if binds and all(isinstance(b_, ast.Call) and (dotted(b_.func) or "").split(".")[-1] in ("doprint", "_print", "_doprint") for b_ in binds):
                                continue
                            if v.id in ("prefix", "variable_prefix") or v.id.isupper():
                                continue
                        if isinstance(v, ast.Attribute) and v.attr in ("variable_prefix",):
                            continue
                        printed = isinstance(v, ast.Call) and (dotted(v.func) or "").split(".")[-1] in ("doprint", "_print", "_doprint")
                        if not printed and not isinstance(v, ast.Constant):
                            bad = (js, v)
            if bad is None:
                ctx.ok(rule, f.key("bindings-printed"), "no hand-written left-hand side", f.where(), nontrivial=False)
            else:
                ctx.fail(rule, f.key("bindings-printed"), f"{cname}.{mname} writes the statement `{norm(bad[0])[:80]}` itself: its left-hand side `{norm(bad[1])[:40]}` does not go through the printer, so a model name the target language reserves is bound under its raw name while every use is printed renamed (the generated module does not compile, or binds another variable)", f.where(bad[0]))
    if not n:
        ctx.broken("no generator class found (anchor vanished)")
