"""C03 - JAX output: same values, full-size outputs (return arity, jax-callable API, functional style)."""

from __future__ import annotations

import ast
import re

from sa import pm, slots, tm
from sa.core import Ctx
from sa.sm import call_kw, const_str, dotted, find_calls, fstring_skeleton, norm

from . import common, printers, util

JAX_CALLABLE = {
    "numpy.where", "numpy.logical_and", "numpy.logical_or", "numpy.logical_not", "numpy.sign", "numpy.sqrt", "numpy.zeros_like",
    "numpy.abs", "numpy.floor", "numpy.exp", "numpy.log", "numpy.sin", "numpy.cos", "numpy.tan", "numpy.asin", "numpy.acos", "numpy.atan",
    "numpy.arcsin", "numpy.arccos", "numpy.arctan", "numpy.all", "numpy.any", "numpy.pi", "numpy.e", "numpy.inf", "numpy.nan", "numpy.array", "numpy.float64", "numpy.ceil",
}


REF_JAX_IMPORTS = '''
def imports(self):
    return "\\n".join(["import jax", "import jax.numpy as numpy", 'jax.config.update("jax_enable_x64", True)'])
'''


def return_arity(ctx: Ctx, rule: str):
    from . import util

    sm = ctx.sm
    cgc = sm.cls("codegen/base.py", "CodeGenerator")
    pyargs = {m: sm.func("codegen/python.py", f"PythonCodeGenerator.{m}") for m in ("_rhs_arguments", "_scheme_arguments")}

    def func_field(helper: str, field: str):
        """the field of the helper's Func tuple as an ast expression (from its abstract value)"""
        from sa import av as _avf

        from .c04 import func_fields

        fields, _v = func_fields(ctx, pyargs[helper])
        x = fields.get(field) if fields else None
        if x is None or _avf.has_unk(x):
            return None
        try:
            return ast.parse(_avf.show(x), mode="eval").body
        except SyntaxError:
            return None

    models = common.scheme_models(ctx)
    for mname in ("rhs", "monitor_values", "missing_values", "scheme"):
        f = util.nff(ctx, cgc.methods[mname])
        tc = util.template_method_call(f)
        if tc is None:
            ctx.undecided("R03.a", f.key("num_return_values"), f"CodeGenerator.{mname}: the template.method(...) call is not found in the method's normal form; the arity it hands over is not judged", f.where())
            continue
        nrv = call_kw(tc, "num_return_values")
        # family of the array the method fills
        if mname == "scheme":
            fams = {slots.size_family(m.values_shape) for m in models.values()}
            written = fams.pop() if len(fams) == 1 else None
        else:
            ibs = [c for c in find_calls(f.node, "IndexedBase") if c.args and const_str(c.args[0]) == "values"]
            sh = call_kw(ibs[0], "shape") if ibs else None
            shr = util.canon_of(f).resolve(sh) if sh is not None else None
            if isinstance(shr, ast.Tuple) and len(shr.elts) == 1:
                shr = ast.Tuple([util.strip_int(shr.elts[0])], ast.Load())
            written = slots.size_family(shr) if shr is not None else None
        fam, desc = None, None
        if nrv is not None:
            node = util.strip_int(util.canon_of(f).resolve(nrv))
            desc = norm(node)
            if isinstance(node, ast.Attribute) and node.attr == "num_return_values" and isinstance(node.value, ast.Call) and (dotted(node.value.func) or "").split(".")[-1] in ("_rhs_arguments", "_scheme_arguments"):
                helper = (dotted(node.value.func) or "").split(".")[-1]
                src = func_field(helper, "num_return_values")
                fam = slots.size_family(src) if src is not None else None
                desc = f"Func.num_return_values = {norm(src) if src is not None else None}"
            elif isinstance(node, ast.Subscript) and norm(node.slice) == "0" and isinstance(node.value, ast.Attribute) and node.value.attr == "shape":
                # <IndexedBase(...)>.shape[0]
                base = node.value.value
                if isinstance(base, ast.Call) and (dotted(base.func) or "").endswith("IndexedBase"):
                    sh2 = call_kw(base, "shape")
                    if isinstance(sh2, ast.Tuple) and len(sh2.elts) == 1:
                        sh2 = ast.Tuple([util.strip_int(sh2.elts[0])], ast.Load())
                    fam = slots.size_family(sh2) if sh2 is not None else None
                    desc = f"extent of the filled array = {slots.canon_size(sh2) if sh2 is not None else None}"
            else:
                fam = slots.size_family(node)
        ctx.check(
            fam is not None and fam == written,
            rule,
            f.key("num_return_values"),
            f"num_return_values is the {fam} size = extent of the array the method fills",
            f"CodeGenerator.{mname} passes num_return_values={desc} ({fam or 'no known size class'}) but fills an array of the {written} size class: the JAX function returns an array of the wrong length",
            f.where(tc),
        )


def jax_template(ctx: Ctx, rule: str):
    from sa import av

    sm = ctx.sm
    T = tm.TemplateModel(sm)
    f = T.func("templates/jax.py", "method")
    ctx.require(f, "templates/jax.py::method not found")
    sk = util.skeleton(ctx, rule, "templates/jax.py", "method")
    prefix = None
    if sk is not None:
        raw = sk.raw
        # return list: _values_i for i in range(num_return_values), in that order, wrapped in numpy.array([...])
        m = re.search(r"return (.*)⟦for \$(\d+) in ([^:]*): (\w+?)\{\$(\d+)\}, ⟧(.*)$", raw.rstrip().split("\n")[-1])
        ok = m is not None and m.group(2) == m.group(5) and m.group(3) == "range(num_return_values)"
        prefix = m.group(4) if m else None
        ctx.check(ok, rule, f.key("return-list"), f"returns [{prefix}0 .. {prefix}(num_return_values-1)]", f"jax method template: the returned array is not built from `_values_{{i}}` for i in range(num_return_values) (last line: {raw.rstrip().splitlines()[-1].strip()[:120]}); entries can be missing, duplicated or permuted", f.where())
        okr = m is not None and m.group(1) == "numpy.array([" and m.group(6) == "])"
        ctx.check(okr, rule, f.key("return-array"), "numpy.array([...])", "jax method template: return value is not numpy.array([<the list>])", f.where())
        ctx.check(0 <= raw.find("{values}") < raw.find("return "), rule, f.key("return-after-body"), "return follows the body", "jax method template: the return statement does not follow the body", f.where())
        ctx.check("@jax.jit" in raw, rule, f.key("jit"), "functions are jitted", "jax method template lost @jax.jit", f.where())
    # JaxPrinter rewrites exactly the stores into `values` to <prefix><index>
    jp = sm.func("codegen/jax.py", "JaxPrinter._print_Assignment")
    v = util.value_of(ctx, jp)
    # specialise: the target is / is not an Indexed store into `values`
    lhs = ("sym", "expr.lhs")
    branches = _branches(v)
    rew = [(c, x) for c, x in branches if av._is_str(x) and " = " in av.flatten(x)]
    if av.has_unk(v) or not branches:
        ctx.undecided(rule, jp.key("rewrite"), f"JaxPrinter._print_Assignment is not understood ({av.show(v)[:120]})", jp.where())
    else:
        want = "_values_" + av.HO + "self._print(expr.lhs.indices[0])" + av.HC + " = " + av.HO + "self._print(expr.rhs)" + av.HC
        okp = len(rew) == 1 and av.flatten(rew[0][1]) == want
        conds = " and ".join(av.show(c) for c in (rew[0][0] if rew else ()))
        okc = bool(rew) and "(expr.lhs.base.name == 'values')" in conds and ("isinstance(expr.lhs, sympy.tensor.indexed.Indexed)" in conds or "isinstance(expr.lhs, sympy.Indexed)" in conds) and len(rew[0][0]) == 2
        ctx.check(okp and okc and prefix in (None, "_values_") , rule, jp.key("rewrite"), "values[i] = e  ->  _values_i = e", f"JaxPrinter._print_Assignment does not rewrite exactly the stores into `values` to `{prefix or '_values_'}<i> = <printed rhs>` (it emits {[av.show(x)[:80] for _, x in rew]} when {conds or None})", jp.where())
        ctx.check(okp, rule, jp.key("index"), "suffix = the store's own printed index", "JaxPrinter._print_Assignment: the suffix is not the printed index of the store", jp.where())
        other = [x for c, x in branches if (c, x) not in rew]
        ctx.check(bool(other) and all(av.show(x) == "super()._print_Assignment(expr)" for x in other), rule, jp.key("fallthrough"), "other assignments are printed unchanged", "JaxPrinter._print_Assignment no longer falls through to the normal assignment printer for everything else", jp.where())
    # functional style
    for fn in ("method", "init_state_values", "init_parameter_values"):
        skx = util.skeleton(ctx, rule, "templates/jax.py", fn)
        if skx is None:
            continue
        tree = tm.py_parse(skx)
        stores = [norm(n) for n in ast.walk(tree) if isinstance(n, (ast.Assign, ast.AugAssign)) and any(isinstance(x, ast.Subscript) for t in (n.targets if isinstance(n, ast.Assign) else [n.target]) for x in ast.walk(t))]
        ctx.check(not stores, rule, skx.func.key("no-subscript-store"), "no in-place store", f"jax template {fn} contains an in-place subscript store {stores} (jax arrays are immutable)", skx.func.where())
    g = sm.func("codegen/jax.py", "JaxCodeGenerator.imports")
    txt = util.text_of(ctx, g)
    if txt is None:
        ctx.undecided(rule, g.key("imports"), "what JaxCodeGenerator.imports returns is not understood", g.where())
    else:
        ctx.check("import jax.numpy as numpy" in txt and "jax_enable_x64" in txt, rule, g.key("imports"), "numpy is jax.numpy with 64 bit enabled", "JaxCodeGenerator.imports no longer binds numpy to jax.numpy with x64 enabled", g.where())
    gen = sm.cls("codegen/jax.py", "JaxCodeGenerator")
    # which printer an instance gets: the first __init__ along the class chain that sets self._printer, with a class
    # attribute (`printer_class = JaxPrinter`) resolved from the subclass down
    from sa import av as _av

    chain = [gen] + [c for b in gen.bases for c in [sm.cls("codegen/python.py", b.split(".")[-1], required=False)] if c is not None]
    printer_expr = None
    for c_ in chain:
        initf = c_.methods.get("__init__")
        if initf is None:
            continue
        sets = [n.value for n in ast.walk(initf.node) if isinstance(n, ast.Assign) and norm(n.targets[0]) == "self._printer"]
        if sets:
            printer_expr = sets[-1]
            break
    pk = None  # name of the class that is instantiated
    if isinstance(printer_expr, ast.Call):
        fn_ = printer_expr.func
        if isinstance(fn_, ast.Name):
            pk = fn_.id
        elif isinstance(fn_, ast.Attribute) and norm(fn_.value) in ("self", "type(self)", "self.__class__"):
            for c_ in chain:
                v_ = c_.class_assigns().get(fn_.attr)
                if v_ is not None:
                    pk = norm(v_).split(".")[-1]
                    break
    tp = gen.methods.get("template")
    tv = util.value_of(ctx, tp) if tp is not None else None
    okt = tv == ("sym", "templates.jax")
    wkey = "src/gotranx/codegen/jax.py::JaxCodeGenerator::wiring"
    if pk is None or (tv is not None and not okt and _av.has_unk(tv)):
        ctx.undecided(rule, wkey, "which printer / template module a JaxCodeGenerator uses is not understood", gen.where())
    else:
        ctx.check(pk == "JaxPrinter" and okt, rule, wkey, "JaxCodeGenerator uses JaxPrinter and templates.jax", f"JaxCodeGenerator is not wired to JaxPrinter / templates.jax (printer: {pk}, template: {_av.show(tv) if tv is not None else None})", gen.where())


def jax_callable(ctx: Ctx, rule: str):
    M = printers.model(ctx)
    kf = M.class_table("jax", "_kf") or {}
    kc = M.class_table("jax", "_kc") or {}
    for mod, name in pm.P_CLASSES:
        r = M.resolve("jax", mod, name)
        if not r.is_gotranx:
            continue
        frs = printers.emitted_fragments(M, "jax", r.func)
        bad = []
        for fr in frs:
            for nm in printers.numpy_names(fr):
                if nm not in JAX_CALLABLE:
                    bad.append(f"{nm} (not callable this way under jax.numpy)")
            if ".reduce(" in fr:
                bad.append(f"`.reduce(` in {fr!r} (jax ufunc.reduce does not take a tuple of operands)")
        ctx.check(not bad, rule, f"jax-printer::{name}", f"{r}: jax-callable", f"jax printer: {r} emits " + "; ".join(bad[:3]), r.func.where())
    for k, v in list(kf.items()) + list(kc.items()):
        if k in ("exp", "log", "sin", "cos", "tan", "asin", "acos", "atan", "Abs", "floor", "Pi", "Exp1", "DiracDelta"):
            ctx.check(v in JAX_CALLABLE, rule, f"jax-printer::table::{k}", f"{k} -> {v}", f"jax printer: table maps {k} to {v}, which is not a jax.numpy name", "")
    # n-ary connectives keep every operand
    nf = M.method("jax", "_print_nested")
    for cname, fn in (("And", "numpy.logical_and"), ("Or", "numpy.logical_or")):
        r = M.resolve("jax", "sympy", cname)
        ok = r.is_gotranx and fn in " ".join(pm.fragments(r.func)) and not any(o in " ".join(pm.fragments(r.func)) for o in ({"numpy.logical_and", "numpy.logical_or"} - {fn}))
        ctx.check(ok, rule, f"jax-printer::{cname}::function", f"{cname} -> {fn}", f"jax printer: {cname} is not printed with {fn}", r.func.where() if r.func else "")
    if nf is not None:
        check_nested(ctx, rule, nf)
    printers.check_zip_truncation(ctx, rule, "jax")


def check_nested(ctx: Ctx, rule: str, nf):
    """_print_nested(func, expr) = func(func(a, b), c)...: a left fold of the binary function over *every* printed operand."""
    from sa import av

    v = util.value_of(ctx, nf)
    key = nf.key("all-operands")
    if av.has_unk(v):
        ctx.undecided(rule, key, f"how _print_nested combines the operands is not understood ({av.find_all(v, 'unk')[0][1]})", nf.where())
        return
    fp, ep = nf.params[-2], nf.params[-1]
    ok, why = False, f"it returns {av.show(v)[:160]}"
    if v[0] == "fold":
        d, it, init, body = v[1], v[2], v[3], v[4]
        # operands: every element of expr.args, printed; first one seeds the fold, the rest are folded in
        ops = r"<self\._print\(\$(\d+)\) for \$\1 in " + re.escape(ep) + r"\.args>"
        ok_i = re.fullmatch(ops + r"\[1:\]", av.show(it)) is not None and av.show(init) == f"self._print({ep}.args[0])"
        ok_b = body == av.mk_s((("h", ("sym", fp)), ("lit", "("), ("h", ("acc", d)), ("lit", ", "), ("h", ("bv", d)), ("lit", ")")))
        ok = ok_i and ok_b
        if not ok_b:
            why = f"the combiner is {av.show(body)}"
        elif not ok_i:
            why = f"it folds {av.show(it)} starting from {av.show(init)}"
    ctx.check(ok, rule, key, "left fold f(f(a, b), c) over every operand", f"_print_nested does not fold the binary function over *all* printed operands of the connective ({why}): operands can be dropped or misplaced", nf.where())


def run(ctx: Ctx):
    _run(ctx)
    ctx.rule("R03.c", "missing_values stores every requested quantity at its requested slot (the jax return array is built from the slot numbers)", floor=4)
    from .c18 import check_missing_values_passed_on

    check_missing_values_passed_on(ctx, "R03.c", shorts=("cli/gotran2py.py",))
    from .c13 import missing_values_discipline

    missing_values_discipline(ctx, "R03.c")
    ctx.rule("R03.f", "the functions of the jax module share the slot layout, the liveness computation and the Rush-Larsen guard decision with the NumPy backend: slot families (state / parameter / monitor) agree between the index functions and the functions that fill the arrays, what remove_unused may drop is `name in ODE.dependents()`, and the zero-division guard is elided only when the linearisation is provably non-zero (jax evaluates 0/0 to nan)", floor=20)
    from .c04 import slot_families
    from .c06 import check_elision
    from .c12 import liveness_rules

    slot_families(ctx, "R03.f", floor=False)
    liveness_rules(ctx, {"a": "R03.f", "b": "R03.f"}, declare=False)
    check_elision(ctx, "R03.f")
    check_template_keywords(ctx, "R03.a")
    # the header of the generated module: jax with 64-bit floats enabled and nothing else that changes how it runs
    util.same_as_reference(
        ctx,
        "R03.b",
        "codegen/jax.py",
        "JaxCodeGenerator.imports",
        REF_JAX_IMPORTS,
        "header",
        "import jax, jax.numpy as numpy, jax_enable_x64",
        "JaxCodeGenerator.imports does not emit exactly `import jax`, `import jax.numpy as numpy` and the 64-bit switch: anything else in the header (a debug flag, another precision) changes what every generated function returns or whether it runs",
    )
    from .c18 import check_generated_model

    check_generated_model(ctx, "R03.a")

    ctx.rule("R03.e", "the front end the JAX backend shares with the others builds what the model text defines: operator table, fold direction, precedence ladder, function vocabulary, conditional builders (the rules of R01.a-e)", floor=40)
    from .c01 import front_end

    front_end(ctx, {k: "R03.e" for k in "abcde"}, declare=False)

    ctx.rule("R03.d", "every scheme offered for the jax backend receives the keyword arguments its builder takes (delta, stiff_states)", floor=4)
    from .c18 import check_get_code_forwards

    for opt_ in ("delta", "stiff_states"):
        check_get_code_forwards(ctx, "R03.d", opt_)
    from . import common as _c

    _c.check_scheme_kwargs(ctx, "R03.d", "delta")
    _c.check_scheme_kwargs(ctx, "R03.d", "stiff_states")


def _run(ctx: Ctx):
    ctx.assume("that the generated module imports / jits and its numerics are NOT decided (needs jax executed)")
    ctx.rule("R03.a", "return arity: num_return_values handed to the method template is the extent of the array the method fills; the jax template returns exactly _values_0.._values_{n-1}; JaxPrinter rewrites exactly the stores into `values`", floor=12)
    return_arity(ctx, "R03.a")
    jax_template(ctx, "R03.a")
    ctx.rule("R03.b", "every numpy.<name> a gotranx print method can emit under the jax printer is callable that way under jax.numpy; n-ary And/Or keep every operand; no unvetted override", floor=8)
    jax_callable(ctx, "R03.b")
    printers.check_no_unvetted_override(ctx, "R03.b", "jax")
    printers.check_float_repr(ctx, "R03.b", "jax")


def _branches(v, conds=()):
    """[(conditions, value)] of a conditional value (conjunctions split)"""
    if v[0] == "if":
        c = v[1]
        cs = c[2] if c[0] == "bool" and c[1] == "and" else (c,)
        from sa import av

        return _branches(v[2], conds + tuple(cs)) + _branches(v[3], conds + (av.mk_not(c),))
    return [(conds, v)]


def check_template_keywords(ctx: Ctx, rule: str):
    """Every keyword the generator methods hand to `self.template.method(...)` is a named parameter of the jax
    template's `method` and its text is part of what the template returns: a keyword that only lands in `**kwargs`
    is silently dropped (the block it carries - unpacking of missing variables, shape information - vanishes from
    every jax function while the numpy module stays correct)."""
    from sa import av as _av

    from . import util

    sm = ctx.sm
    tf = sm.func("templates/jax.py", "method")
    a = tf.node.args
    named = {x.arg for x in a.posonlyargs + a.args + a.kwonlyargs}
    passed: dict[str, str] = {}
    cgc = sm.cls("codegen/base.py", "CodeGenerator")
    for mname in ("rhs", "monitor_values", "missing_values", "scheme"):
        f = cgc.methods.get(mname)
        if f is None:
            continue
        v = util.value_of(ctx, f)
        for m_ in _av.find_all(v, "mcall"):
            if m_[2] == "method" and _av.show(m_[1]).endswith("template"):
                for k, _x in m_[4]:
                    passed.setdefault(k, mname)
    if not passed:
        ctx.undecided(rule, tf.key("keywords"), "the template.method(...) calls of the generator methods are not found in what they compute", tf.where())
        return
    tv = util.value_of(ctx, tf)
    # keywords the jax template does not need (one line of reason each): its result is a fresh array built from the
    # _values_<i> names, so the name, allocation and shape of a result buffer do not exist there
    not_needed = {"return_name": "no result buffer: the return value is numpy.array([_values_0, ...])", "values_type": "no allocation of a result buffer", "shape_info": "the shape is that of the stacked _values_<i>"}
    for k, mname in sorted(passed.items()):
        key = tf.key(f"keyword::{k}")
        if k in not_needed and k not in named:
            ctx.ok(rule, key, f"`{k}` is not needed by the jax template: {not_needed[k]}", tf.where())
            continue
        if k not in named:
            ctx.fail(rule, key, f"CodeGenerator.{mname} passes `{k}=` to the method template, but templates/jax.py::method has no parameter of that name: the text is swallowed by **kwargs and missing from every generated jax function", tf.where())
        elif _av.has_unk(tv):
            ctx.undecided(rule, key, "what the jax method template returns is not understood", tf.where())
        else:
            used = any(x[1] == k or x[1].startswith(k + ".") for x in _av.find_all(tv, "sym"))
            ctx.check(used, rule, key, f"`{k}` is part of the generated text", f"templates/jax.py::method accepts `{k}` but never uses it in the text it returns", tf.where())
