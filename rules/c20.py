"""C20 - symbolic right-hand side and Jacobian (structural clauses: state order, complete and unbounded expansion, wiring)."""

from __future__ import annotations

import ast

from sa.core import Ctx
from sa.sm import call_kw, dotted, find_calls, norm

from .c04 import slot_families


def run(ctx: Ctx):
    sm = ctx.sm
    ctx.assume("equality of the matrices with the model's derivatives at every input is NOT decided (sympy's xreplace / jacobian are trusted)")
    ctx.rule("R20.a", "states_matrix and rhs_matrix take their rows in the state order of the generated code (STATE slot family)", floor=3)
    slot_families(ctx, "R20.a", only_family="STATE", floor=False, check_ru=False, producers=lambda p: p.func.rel.endswith("sympytools.py"))

    ctx.rule("R20.b", "the substitution of intermediates runs to a fixpoint: its bound is absent or derived from the size of the model, it always substitutes the complete map, and an error is raised only if intermediates are left", floor=6)
    f = sm.func("sympytools.py", "rhs_matrix")
    whiles = [n for n in ast.walk(f.node) if isinstance(n, ast.While)]
    ctx.require(whiles, "rhs_matrix: substitution loop not found")
    w = whiles[0]
    # 1. bound
    bound_params = [p for p in f.params if any(isinstance(n, ast.Name) and n.id == p for n in ast.walk(w.test)) and p != f.params[0]]
    a = f.node.args
    defaults = dict(zip([x.arg for x in a.args][len(a.args) - len(a.defaults):], a.defaults))
    for p in bound_params:
        d = defaults.get(p)
        is_none = isinstance(d, ast.Constant) and d.value is None
        ctx.check(is_none, "R20.b", f.key(f"bound-default::{p}"), f"{p} defaults to None (size-derived)", f"rhs_matrix: the loop bound `{p}` defaults to the constant {norm(d) if d is not None else None}: a dependency chain deeper than that cannot be expanded", f.where())
        # None is replaced by something derived from the size of the substitution map
        repl = [n for n in ast.walk(f.node) if isinstance(n, ast.Assign) and norm(n.targets[0]) == p]
        okr = bool(repl) and "len(" in norm(repl[0].value) and not isinstance(repl[0].value, ast.Constant)
        if is_none:
            ctx.check(okr, "R20.b", f.key(f"bound-derived::{p}"), f"{p} = {norm(repl[0].value) if repl else None}", f"rhs_matrix: when `{p}` is None it is not replaced by a bound derived from the number of intermediates", f.where())
    if not bound_params:
        ctx.ok("R20.b", f.key("unbounded"), "loop has no iteration bound", f.where())
    # 2. complete substitution map
    maps = [n for n in ast.walk(f.node) if isinstance(n, ast.Assign) and isinstance(n.value, ast.DictComp)]
    ctx.require(maps, "rhs_matrix: substitution map not found")
    mp = maps[0]
    mname = norm(mp.targets[0])
    g = mp.value.generators[0]
    v = g.target.id if isinstance(g.target, ast.Name) else "?"
    okm = norm(mp.value.key) == f"{v}.symbol" and norm(mp.value.value) == f"{v}.expr" and not g.ifs and norm(g.iter).replace("ode.", "").startswith("intermediates")
    ctx.check(okm, "R20.b", f.key("map"), "map = {x.symbol: x.expr for every intermediate}", f"rhs_matrix: the substitution map is `{norm(mp.value)}`, not symbol -> expr for every intermediate", f.where(mp))
    xr = [c for c in ast.walk(w) if isinstance(c, ast.Call) and isinstance(c.func, ast.Attribute) and c.func.attr in ("xreplace", "subs")]
    okx = bool(xr) and all(len(c.args) == 1 and norm(c.args[0]) == mname for c in xr)
    ctx.check(okx, "R20.b", f.key("substitute-full-map"), "each pass substitutes the complete map", f"rhs_matrix: a pass substitutes {[norm(c.args[0]) if c.args else None for c in xr]} instead of the complete map `{mname}`", f.where(w))
    muts = []
    for n in ast.walk(w):
        if isinstance(n, ast.Delete):
            muts.append(norm(n))
        if isinstance(n, ast.Call) and isinstance(n.func, ast.Attribute) and n.func.attr in ("pop", "popitem", "clear", "update") and norm(n.func.value) == mname:
            muts.append(norm(n))
        if isinstance(n, ast.Assign) and any(norm(t) == mname or (isinstance(t, ast.Subscript) and norm(t.value) == mname) for t in n.targets):
            muts.append(norm(n)[:60])
    ctx.check(not muts, "R20.b", f.key("map-not-mutated"), "the map is not modified while substituting", f"rhs_matrix modifies the substitution map inside the loop ({muts}): an intermediate expanded early can be re-introduced later and stay in the result", f.where(w))
    # 3. the loop condition and the error test are "intermediates are left"
    def mentions_left(node) -> bool:
        t = norm(node)
        return "has_intermediates" in t or (".has(" in t and mname in t)
    ctx.check(mentions_left(w.test), "R20.b", f.key("loop-condition"), "loop runs while intermediates are left", "rhs_matrix: the loop condition does not test whether intermediates are left in the result", f.where(w))
    raises = [n for n in ast.walk(f.node) if isinstance(n, ast.Raise)]
    for r in raises:
        from .common import cond_chain
        chain = cond_chain(f.node, r) or []
        okc = any(pol and ("has_intermediates" in c or (".has(" in c and mname in c)) for c, pol in chain)
        ctx.check(okc, "R20.b", f.key("error-only-if-left"), "error only if intermediates are left", f"rhs_matrix raises under {chain}: the error does not depend on intermediates actually being left (a model that was fully expanded on the last allowed pass is refused)", f.where(r))
    # 4. call sites inside the package do not re-introduce a constant bound
    for g2 in sm.all_funcs():
        for c in find_calls(g2.node, "rhs_matrix"):
            if g2 is f:
                continue
            extra = list(c.args[1:]) + [k.value for k in c.keywords if k.arg != "ode"]
            bad = []
            for e in extra:
                if isinstance(e, ast.Constant) and e.value is not None:
                    bad.append(norm(e))
                elif isinstance(e, ast.Name) and e.id in g2.params:
                    a2 = g2.node.args
                    d2 = dict(zip([x.arg for x in a2.args][len(a2.args) - len(a2.defaults):], a2.defaults)).get(e.id)
                    if isinstance(d2, ast.Constant) and d2.value is not None:
                        bad.append(f"{e.id} (default {norm(d2)})")
            ctx.check(not bad, "R20.b", g2.key("rhs_matrix-call"), "caller leaves the bound to rhs_matrix", f"{g2.qualname} calls rhs_matrix with the constant bound {bad}: chains deeper than that fail in this entry point", g2.where(c))

    ctx.rule("R20.c", "jacobi_matrix differentiates rhs_matrix(ode) with respect to states_matrix(ode)", floor=1)
    j = sm.func("sympytools.py", "jacobi_matrix")
    rets = [n for n in ast.walk(j.node) if isinstance(n, ast.Return)]
    okj = False
    if rets and isinstance(rets[-1].value, ast.Call):
        c = rets[-1].value
        if isinstance(c.func, ast.Attribute) and c.func.attr == "jacobian" and isinstance(c.func.value, ast.Call) and c.args and isinstance(c.args[0], ast.Call):
            okj = (dotted(c.func.value.func) or "").endswith("rhs_matrix") and (dotted(c.args[0].func) or "").endswith("states_matrix") and norm(c.func.value.args[0]) == norm(c.args[0].args[0]) == j.params[0]
    ctx.check(okj, "R20.c", j.key("wiring"), "rhs_matrix(ode).jacobian(states_matrix(ode))", "jacobi_matrix is not rhs_matrix(ode).jacobian(states_matrix(ode))", j.where())
