"""C20 - symbolic right-hand side and Jacobian (structural clauses: state order, complete and unbounded expansion, wiring)."""

from __future__ import annotations

import ast

from sa.core import Ctx
from sa.sm import call_kw, dotted, find_calls, norm

from .c04 import slot_families


def run(ctx: Ctx):
    sm = ctx.sm
    ctx.assume("equality of the matrices with the model's derivatives at every input is NOT decided (sympy's xreplace / jacobian are trusted)")
    ctx.rule("R20.a", "states_matrix and rhs_matrix take their rows in the state order of the generated code (STATE slot family)", floor=3)
    slot_families(ctx, "R20.a", only_family="STATE", floor=False, check_ru=False, producers=lambda p: p.func.rel.endswith("sympytools.py"))

    ctx.rule("R20.b", "the substitution of intermediates runs to a fixpoint: its bound is absent or derived from the size of the model, it always substitutes the complete map, and an error is raised only if intermediates are left", floor=6)
    from sa import av as _av

    from . import util
    from .common import cond_chain

    f = sm.func("sympytools.py", "rhs_matrix")
    # the substitution loop: the while / for loop that applies xreplace / subs
    loops = [n for n in ast.walk(f.node) if isinstance(n, (ast.While, ast.For)) and any(isinstance(c, ast.Call) and isinstance(c.func, ast.Attribute) and c.func.attr in ("xreplace", "subs") for c in ast.walk(n))]
    if not loops:
        for k_ in ("map", "substitute-full-map", "loop-condition", "error-only-if-left"):
            ctx.undecided("R20.b", f.key(k_), "rhs_matrix: the loop that substitutes the intermediates is not found (the expansion is written in another way); fixpoint and bound are not judged", f.where())
        _after_loop_rules(ctx, sm, f)
        return
    w = loops[0]
    xr = [c for c in ast.walk(w) if isinstance(c, ast.Call) and isinstance(c.func, ast.Attribute) and c.func.attr in ("xreplace", "subs")]
    mnames = {norm(c.args[0]) for c in xr if len(c.args) == 1 and isinstance(c.args[0], ast.Name)}
    mname = sorted(mnames)[0] if len(mnames) == 1 else None
    A20 = util.AV(ctx)
    _v, env20 = A20.returned(f)
    mapv = env20.get(mname) if mname else None

    def left_pred(node) -> bool:
        """node evaluates to 'some key of the substitution map occurs in the matrix'"""
        if mapv is None:
            return False
        # a flag that caches the predicate (`unresolved = has_intermediates(rhs)`, refreshed in the loop): judged by
        # what is assigned to it
        if isinstance(node, ast.Name) and node.id not in f.params:
            vals = [n.value for n in ast.walk(f.node) if isinstance(n, ast.Assign) and any(isinstance(t, ast.Name) and t.id == node.id for t in n.targets)]
            if vals and not any(isinstance(v_, ast.Name) and v_.id == node.id for v_ in vals):
                return all(left_pred(v_) for v_ in vals)
        env = {p_: ("sym", p_) for p_ in f.params}
        for k_, x_ in env20.items():
            if isinstance(x_, tuple) and x_ and x_[0] == "fn":
                env[k_] = x_
        env[mname] = ("sym", "<MAP>")
        try:
            val = A20.expr(node, env=env, func=f)
        except Exception:
            return False
        val = _av.canon_binders(val)
        if val[0] == "not":
            val = val[1]
        if val[0] == "call" and val[1] == "any" and len(val[2]) == 1 and val[2][0][0] == "comp":
            cp = val[2][0]
            src_ok = _av._unwrap_seq(cp[2]) in (("sym", "<MAP>"), ("mcall", ("sym", "<MAP>"), "keys", (), ()))
            it_ok = len(cp[3]) == 1 and cp[3][0][0] == "mcall" and cp[3][0][2] == "has" and cp[3][0][3] == (("bv", cp[1]),) and not cp[4]
            return src_ok and it_ok
        return False

    # 1. bound
    if isinstance(w, ast.While):
        bound_params = [p for p in f.params if any(isinstance(n, ast.Name) and n.id == p for n in ast.walk(w.test)) and p != f.params[0]]
    else:
        bound_params = [p for p in f.params if any(isinstance(n, ast.Name) and n.id == p for n in ast.walk(w.iter)) and p != f.params[0]]
    a = f.node.args
    defaults = dict(zip([x.arg for x in a.args][len(a.args) - len(a.defaults):], a.defaults))
    for p in bound_params:
        d = defaults.get(p)
        is_none = isinstance(d, ast.Constant) and d.value is None
        ctx.check(is_none, "R20.b", f.key(f"bound-default::{p}"), f"{p} defaults to None (size-derived)", f"rhs_matrix: the loop bound `{p}` defaults to the constant {norm(d) if d is not None else None}: a dependency chain deeper than that cannot be expanded", f.where())
        # None is replaced by something derived from the size of the substitution map
        repl = [n for n in ast.walk(f.node) if isinstance(n, ast.Assign) and norm(n.targets[0]) == p]
        okr = bool(repl) and "len(" in norm(repl[0].value) and not isinstance(repl[0].value, ast.Constant)
        if is_none:
            ctx.check(okr, "R20.b", f.key(f"bound-derived::{p}"), f"{p} = {norm(repl[0].value) if repl else None}", f"rhs_matrix: when `{p}` is None it is not replaced by a bound derived from the number of intermediates", f.where())
            if okr and mname is not None:
                # one pass can resolve as little as one link of a chain through the table, so the bound must count
                # *every* entry of the substitution table (intermediates and state derivatives), not a part of it
                btxt = norm(repl[0].value)
                lens = [norm(c.args[0]) for c in ast.walk(repl[0].value) if isinstance(c, ast.Call) and isinstance(c.func, ast.Name) and c.func.id == "len" and c.args]
                whole = mname in lens or (any(x.endswith(".intermediates") for x in lens) and any(x.endswith(".state_derivatives") for x in lens))
                part = [x for x in lens if x.endswith((".intermediates", ".state_derivatives", ".states"))]
                if whole:
                    ctx.ok("R20.b", f.key(f"bound-counts-the-table::{p}"), f"{p} = {btxt}", f.where())
                elif part:
                    ctx.fail("R20.b", f.key(f"bound-counts-the-table::{p}"), f"rhs_matrix: the default bound `{btxt}` counts only {part}, not every entry of the substitution table `{mname}` (intermediates *and* state derivatives): a chain through more entries than that is refused although it is acyclic", f.where())
                else:
                    ctx.undecided("R20.b", f.key(f"bound-counts-the-table::{p}"), f"rhs_matrix: whether the default bound `{btxt}` covers the whole substitution table is not decided", f.where())
    if not bound_params:
        if isinstance(w, ast.For):
            ctx.fail("R20.b", f.key("unbounded"), f"rhs_matrix iterates `{norm(w.iter)}`: the number of passes is not derived from the caller's bound or the size of the model", f.where(w))
        else:
            ctx.ok("R20.b", f.key("unbounded"), "loop has no iteration bound", f.where())
    # 2. complete substitution map
    if mapv is None or _av.has_unk(mapv):
        ctx.undecided("R20.b", f.key("map"), "the substitution map passed to xreplace is not understood", f.where())
    else:
        mv_ = _av._unwrap_seq(mapv)
        okm = False
        if mv_[0] == "list" and mv_[1] and all(i[0] == "spread" and i[1][0] == "comp" for i in mv_[1]):
            # filled by one loop per kind: every part is symbol -> expr, the parts together cover both kinds
            srcs = []
            okparts = True
            for i in mv_[1]:
                cp_ = i[1]
                bv_ = ("bv", cp_[1])
                okparts = okparts and cp_[3] == (("kv", ("attr", bv_, "symbol"), ("attr", bv_, "expr")),) and not cp_[4]
                srcs.append(_av.show(cp_[2]).replace("self.ode.", "ode."))
            okm = okparts and sorted(srcs) == ["ode.intermediates", "ode.state_derivatives"]
        if mv_[0] == "comp" and len(mv_[3]) == 1 and not mv_[4]:
            bv = ("bv", mv_[1])
            src = _av.show(mv_[2]).replace("self.ode.", "ode.")
            parts = sorted(_av.show(p_).replace("self.ode.", "ode.") for p_ in _av.concat_parts(mv_[2]))
            okm = mv_[3][0] == ("kv", ("attr", bv, "symbol"), ("attr", bv, "expr")) and parts == ["ode.intermediates", "ode.state_derivatives"]
        ctx.check(okm, "R20.b", f.key("map"), "map = {x.symbol: x.expr for every intermediate and state derivative}", f"rhs_matrix: the substitution map is `{_av.show(mapv)[:160]}`, not symbol -> expr for every intermediate and state derivative", f.where())
    okx = bool(xr) and mname is not None and all(len(c.args) == 1 and norm(c.args[0]) == mname for c in xr)
    ctx.check(okx, "R20.b", f.key("substitute-full-map"), "each pass substitutes the complete map", f"rhs_matrix: a pass substitutes {[norm(c.args[0]) if c.args else None for c in xr]} instead of one complete map", f.where(w))
    muts = []
    for n in ast.walk(w):
        if isinstance(n, ast.Delete):
            muts.append(norm(n))
        if isinstance(n, ast.Call) and isinstance(n.func, ast.Attribute) and n.func.attr in ("pop", "popitem", "clear", "update") and norm(n.func.value) == mname:
            muts.append(norm(n))
        if isinstance(n, ast.Assign) and any(norm(t) == mname or (isinstance(t, ast.Subscript) and norm(t.value) == mname) for t in n.targets):
            muts.append(norm(n)[:60])
    ctx.check(not muts, "R20.b", f.key("map-not-mutated"), "the map is not modified while substituting", f"rhs_matrix modifies the substitution map inside the loop ({muts}): an intermediate expanded early can be re-introduced later and stay in the result", f.where(w))
    # 3. the loop condition and the error test are "intermediates are left"
    if isinstance(w, ast.While):
        tests = [w.test.values[i] for i in range(len(w.test.values))] if isinstance(w.test, ast.BoolOp) and isinstance(w.test.op, ast.And) else [w.test]
        okl = any(left_pred(t) for t in tests)
    else:
        brks = [n for n in ast.walk(w) if isinstance(n, ast.If) and any(isinstance(s_, ast.Break) for s_ in n.body)]
        okl = any(isinstance(n.test, ast.UnaryOp) and isinstance(n.test.op, ast.Not) and left_pred(n.test.operand) for n in brks)
    ctx.check(okl, "R20.b", f.key("loop-condition"), "loop runs while intermediates are left", "rhs_matrix: the loop does not run exactly while keys of the substitution map are left in the result", f.where(w))
    raises = [n for n in ast.walk(f.node) if isinstance(n, ast.Raise)]
    for r in raises:
        guards = [n for n in ast.walk(f.node) if isinstance(n, ast.If) and any(x is r for b_ in n.body for x in ast.walk(b_))]
        okc = any(left_pred(g_.test) and not (isinstance(g_.test, ast.UnaryOp)) for g_ in guards)
        chain = cond_chain(f.node, r) or []
        ctx.check(okc, "R20.b", f.key("error-only-if-left"), "error only if intermediates are left", f"rhs_matrix raises under {[c for c, _ in chain]}: the error does not depend on intermediates actually being left (a model that was fully expanded on the last allowed pass is refused)", f.where(r))
    _after_loop_rules(ctx, sm, f)


def _after_loop_rules(ctx: Ctx, sm, f):
    from sa import av as _av

    from . import util

    # 4. call sites inside the package do not re-introduce a constant bound
    for g2 in sm.all_funcs():
        for c in find_calls(g2.node, "rhs_matrix"):
            if g2 is f:
                continue
            extra = list(c.args[1:]) + [k.value for k in c.keywords if k.arg != "ode"]
            bad = []
            for e in extra:
                if isinstance(e, ast.Constant) and e.value is not None:
                    bad.append(norm(e))
                elif isinstance(e, ast.Name) and e.id in g2.params:
                    a2 = g2.node.args
                    d2 = dict(zip([x.arg for x in a2.args][len(a2.args) - len(a2.defaults):], a2.defaults)).get(e.id)
                    if isinstance(d2, ast.Constant) and d2.value is not None:
                        bad.append(f"{e.id} (default {norm(d2)})")
            ctx.check(not bad, "R20.b", g2.key("rhs_matrix-call"), "caller leaves the bound to rhs_matrix", f"{g2.qualname} calls rhs_matrix with the constant bound {bad}: chains deeper than that fail in this entry point", g2.where(c))

    ctx.rule("R20.d", "the matrices are functions of the model handed in: no function of sympytools keeps results in (or reads them back from) module-level state", floor=5)
    from .c09 import global_mutations

    global_mutations(ctx, "R20.d", only_rel="sympytools.py")

    ctx.rule("R20.e", "the expressions rhs_matrix substitutes into are those of the model: its table is keyed by the atoms' own symbols, which are the symbols gather_atoms registers for every kind of atom (a look-alike symbol of the same name is never substituted, and the partial derivatives through it vanish); the front end that builds the expressions is the one of R01.a-e", floor=20)
    from .c01 import front_end
    from .c13 import check_registered_symbols

    check_registered_symbols(ctx, "R20.e")
    front_end(ctx, {k_: "R20.e" for k_ in "abcde"}, declare=False)

    ctx.rule("R20.c", "jacobi_matrix differentiates rhs_matrix(ode) with respect to states_matrix(ode)", floor=1)
    j = sm.func("sympytools.py", "jacobi_matrix")
    jv = util.value_of(ctx, j)
    op_ = ("sym", j.params[0])
    want = ("mcall", ("call", "rhs_matrix", (op_,), ()), "jacobian", (("call", "states_matrix", (op_,), ()),), ())
    vd = util.verdict(jv, [want])
    if vd == "unknown":
        ctx.undecided("R20.c", j.key("wiring"), "what jacobi_matrix returns is not understood", j.where())
    else:
        ctx.check(vd == "ok", "R20.c", j.key("wiring"), "rhs_matrix(ode).jacobian(states_matrix(ode))", f"jacobi_matrix returns {_av.show(jv)[:120]}, not rhs_matrix(ode).jacobian(states_matrix(ode))", j.where())
