"""C16 - singularity removal changes a model only at its removable singular points (structure of the rewrite).

All functions are judged on the abstract value they compute (sa.av), compared with the value of the vetted
reference text of the same function (rules/util.same_as_reference): loops, comprehensions, helper extraction,
try/except-KeyError vs dict.get, hoisted imports are all the same value.  remove_singularities itself is judged by its
own rules (it carries a known finding on the unchanged tree)."""

from __future__ import annotations

from sa import av
from sa.core import Ctx

from . import util
from .c03 import _branches

REF_SINGULARITIES = '''
def singularities(self, lookup):
    from sympy import singularities, limit

    singularity_list = set()
    if self.value is None:
        return frozenset(singularity_list)
    if self.expr == 0:
        return frozenset(singularity_list)
    for dep in self.value.dependencies:
        try:
            var = lookup[dep]
        except KeyError:
            continue
        if not var.is_stateful(lookup):
            continue
        values = singularities(self.expr, var.symbol)
        if not values:
            continue
        if not isinstance(values, sp.sets.sets.FiniteSet):
            continue
        for value in values:
            singularity_list.add(Singularity(symbol=var.symbol, value=value, replacement=limit(self.expr, var.symbol, value)))
    return frozenset(singularity_list)
'''

REF_IS_STATEFUL = '''
def is_stateful(self, lookup):
    if self.value is None:
        return False
    for dep in self.value.dependencies:
        try:
            state = lookup[dep]
        except KeyError:
            continue
        if state.is_stateful(lookup):
            return True
    return False
'''

REF_ATOM_IS_STATEFUL = '''
def is_stateful(self, lookup):
    return isinstance(self, State) or isinstance(self, TimeDependentState)
'''

REF_IS_INFINITE = '''
@property
def is_infinite(self):
    return self.replacement.has(sp.oo) or self.replacement.has(-sp.oo)
'''

REF_ASSIGNMENT_REMOVE = '''
def remove_singularities(self, lookup):
    if singularities := self.singularities(lookup):
        new_expr = remove_singularities(self.expr, singularities)
        return type(self)(name=self.name, value=self.value, components=self.components, unit_str=self.unit_str, unit=self.unit, expr=new_expr, symbol=self.symbol, description=self.description, comment=self.comment)
    return self
'''

REF_COMPONENT_REMOVE = '''
def remove_singularities(self, lookup):
    new_assignments = set()
    for assignment in self.assignments:
        new_assignments.add(assignment.remove_singularities(lookup))
    return Component(name=self.name, states=self.states, parameters=self.parameters, assignments=frozenset(new_assignments))
'''

REF_ODE_REMOVE = '''
def remove_singularities(self):
    new_components = []
    for component in self._components.values():
        new_components.append(component.remove_singularities(self._lookup))
    return ODE(components=new_components, t=self.t, name=self.name, comments=self.comments)
'''


def run(ctx: Ctx):
    sm = ctx.sm
    ctx.assume("that sympy's singularities() / limit() are right and that values agree numerically is NOT decided")

    ctx.rule("R16.a", "linear use: for any number of singularities the original expression occurs exactly once, on the branch where no singular condition holds", floor=1)
    f = sm.func("atoms.py", "remove_singularities")
    e, sing = f.params[0], f.params[1]
    v = util.value_of(ctx, f)
    conds_calls = [c for c in av.find_all(v, "call") if c[1].split(".")[-1] == "Conditional"]
    sums = [c for c in av.find_all(v, "call") if c[1] in ("sum", "sympy.Add", "sympy.Add.fromiter") and any("Conditional" in av.show(a) for a in c[2])]
    folds = [x for x in av.find_all(v, "fold") if any(c in av.find_all(x, "call") for c in conds_calls)]

    def kw_or_pos(c, name, pos):
        d = dict(c[3])
        return d.get(name, c[2][pos] if len(c[2]) > pos else None)

    if sums:
        per = [c for c in conds_calls if kw_or_pos(c, "false_value", 2) == ("sym", e)]
        if per:
            ctx.fail(
                "R16.a",
                f.key("sum(exprs)"),
                f"remove_singularities builds one Conditional per singularity, each with the *whole* expression as its regular branch (false_value={e}), and adds them up: with k removable singularities the result is k*expr away from the singular points (and replacement + (k-1)*expr at them)",
                f.where(),
                trace=["x/(exp(x)-1) + (x-1)/(exp(x-1)-1) has two removable singularities: the rewritten expression is twice the original off the singular points"],
            )
        else:
            ctx.undecided("R16.a", f.key("fold"), "per-singularity conditionals are added up, but their regular branch is not the whole expression; the combination is not judged", f.where())
    elif folds:
        fo = folds[0]
        body = fo[4]
        ok = fo[3] == ("sym", e) and body[0] == "call" and body[1].split(".")[-1] == "Conditional" and kw_or_pos(body, "false_value", 2) == ("acc", fo[1]) and av._unwrap_seq(fo[2]) in (("sym", sing),) or (fo[3] == ("sym", e) and body[0] == "call" and kw_or_pos(body, "false_value", 2) == ("acc", fo[1]))
        ctx.check(ok, "R16.a", f.key("fold"), "nested conditionals around a single copy of the expression", f"remove_singularities: the loop does not nest one conditional per singularity around a single copy of the expression ({av.show(fo)[:160]})", f.where())
    elif av.has_unk(v) or not conds_calls:
        if not conds_calls and not av.has_unk(v):
            ctx.fail("R16.a", f.key("shape"), "remove_singularities neither nests conditionals nor combines per-singularity conditionals in a recognised way", f.where())
        else:
            ctx.undecided("R16.a", f.key("fold"), "how remove_singularities combines the per-singularity conditionals is not understood", f.where())
    else:
        ctx.undecided("R16.a", f.key("fold"), f"how remove_singularities combines the per-singularity conditionals is not recognised ({av.show(v)[:120]})", f.where())

    ctx.rule("R16.b", "every finite singularity contributes Conditional(Eq(symbol, value), limit, .); infinite ones are skipped; no singularity -> the expression is returned unchanged; the search covers every stateful dependency in the whole model", floor=10)
    if not conds_calls:
        ctx.undecided("R16.b", f.key("conditional"), "no Conditional(...) is built by remove_singularities (or it is not understood)", f.where())
    else:
        c0 = conds_calls[0]
        binders = [x for x in av.find_all(v, "comp") + av.find_all(v, "fold") if c0 in av.find_all(x, "call")]
        bvs = [("bv", b[1]) for b in binders]
        cnd, tv = kw_or_pos(c0, "cond", 0), kw_or_pos(c0, "true_value", 1)
        okc = any(cnd == ("call", "sympy.Eq", (("attr", bv, "symbol"), ("attr", bv, "value")), ()) and tv == ("attr", bv, "replacement") for bv in bvs)
        ctx.check(okc, "R16.b", f.key("conditional"), "Conditional(Eq(symbol, value), replacement, ...)", f"remove_singularities: a singularity becomes {av.show(c0)[:140]}, not Conditional(Eq(singularity.symbol, singularity.value), singularity.replacement, ...)", f.where())
        comps = [b for b in binders if b[0] == "comp"]
        if comps:
            cp = comps[0]
            bv = ("bv", cp[1])
            skip = av._unwrap_seq(cp[2]) == ("sym", sing) and cp[4] == (("not", ("attr", bv, "is_infinite")),)
            ctx.check(skip, "R16.b", f.key("skip-infinite"), "exactly the infinite singularities are skipped", f"remove_singularities iterates {av.show(cp[2])[:60]} with the filter {[av.show(c)[:60] for c in cp[4]]}: not every singularity, skipping exactly those with `is_infinite`", f.where())
            leaves = _branches(v)
            same = [c for c, x in leaves if x == ("sym", e)]
            nothing_removable = lambda c: any(k == ("not", cp) or (k[0] == "not" and av._unwrap_seq(k[1]) == cp) for k in c)  # noqa: E731
            ret_same = bool(same) and all(nothing_removable(c) for c in same)
            other = [c for c in same if not nothing_removable(c)]
            ctx.check(ret_same, "R16.b", f.key("unchanged"), "no removable singularity: the expression itself is returned", "remove_singularities does not return the expression unchanged exactly when nothing is removable" + (f" (it is also returned unchanged when {' and '.join(av.show(k)[:80] for k in other[0])})" if other else ""), f.where())
        else:
            ctx.undecided("R16.b", f.key("skip-infinite"), "the per-singularity conditionals are not built by a comprehension over the singularities; the filter is not judged", f.where())
    util.same_as_reference(ctx, "R16.b", "atoms.py", "Singularity.is_infinite", REF_IS_INFINITE, "", "infinite iff the limit contains oo / -oo", "Singularity.is_infinite changed: a finite but symbolic limit (e.g. 1/k) could be classified as infinite and left in the model, or an infinite one used as a replacement")
    util.same_as_reference(
        ctx, "R16.b", "atoms.py", "Assignment.singularities", REF_SINGULARITIES, "search",
        "every stateful dependency is searched with singularities(expr, its symbol); each point of a finite set is recorded with limit(expr, symbol, point)",
        "Assignment.singularities no longer examines every stateful dependency / records (symbol, value, limit(expr, symbol, value)) for every point of a finite singular set",
    )
    util.same_as_reference(
        ctx, "R16.b", "atoms.py", "Assignment.is_stateful", REF_IS_STATEFUL, "some-dependency-is-stateful",
        "an assignment is stateful iff some dependency found in the lookup table is; names that are not in the table (t, time, missing variables) are skipped",
        "Assignment.is_stateful is no longer 'some dependency that the lookup table knows is stateful, unknown names skipped': an expression that also mentions t / time (or a missing variable) can be classified as not depending on a state, and its singularities are never searched (the answer then also depends on the order of a frozenset)",
    )
    util.same_as_reference(ctx, "R16.b", "atoms.py", "Atom.is_stateful", REF_ATOM_IS_STATEFUL, "states-are-stateful", "states (plain or time dependent) are stateful, parameters are not", "Atom.is_stateful no longer answers True exactly for State / TimeDependentState", project=util.expand_isinstance)
    import ast as _ast

    from sa.sm import norm as _norm

    sg = sm.func("atoms.py", "Assignment.singularities")
    for l in [n for n in _ast.walk(sg.node) if isinstance(n, _ast.For) and "dependencies" in _norm(n.iter)]:
        brk = [n for n in _ast.walk(l) if isinstance(n, _ast.Break)]
        ctx.check(not brk, "R16.b", sg.key("no-early-exit"), "the search never stops at the first dependency without a singularity", "Assignment.singularities leaves the loop over the dependencies early (break): dependencies after that one are not searched (and which one comes first depends on set order)", sg.where(brk[0]) if brk else sg.where())
    util.same_as_reference(ctx, "R16.b", "ode.py", "ODE.remove_singularities", REF_ODE_REMOVE, "model-wide-lookup", "every component is rewritten, states are looked up in the whole model", "ODE.remove_singularities does not rewrite every component with the model-wide lookup table: a dependency on a state of another component would never be examined")
    util.same_as_reference(ctx, "R16.b", "ode_component.py", "Component.remove_singularities", REF_COMPONENT_REMOVE, "every-assignment", "every assignment is rewritten", "Component.remove_singularities does not rewrite every assignment (or drops states / parameters)")
    util.same_as_reference(ctx, "R16.b", "atoms.py", "Assignment.remove_singularities", REF_ASSIGNMENT_REMOVE, "apply", "remove_singularities(self.expr, its singularities); everything else copied", "Assignment.remove_singularities does not rewrite self.expr with its own singularities while keeping the other fields")

    ctx.rule("R16.c", "what is found and removed is a function of the model handed in: no function of atoms.py / ode_component.py keeps results in (or reads them back from) module-level state (statefulness of a name depends on the model's symbol table, not on the assignment alone)", floor=2)
    from .c09 import global_mutations

    global_mutations(ctx, "R16.c", only_rel="atoms.py")
    global_mutations(ctx, "R16.c", only_rel="ode_component.py")
