"""C16 - singularity removal changes a model only at its removable singular points (structure of the rewrite)."""

from __future__ import annotations

import ast

from sa.core import Ctx
from sa.sm import call_kw, const_str, dotted, find_calls, norm


def run(ctx: Ctx):
    sm = ctx.sm
    ctx.assume("that sympy's singularities() / limit() are right and that values agree numerically is NOT decided")

    ctx.rule("R16.a", "linear use: for any number of singularities the original expression occurs exactly once, on the branch where no singular condition holds", floor=1)
    f = sm.func("atoms.py", "remove_singularities")
    e, sing = f.params[0], f.params[1]
    comps = [n for n in ast.walk(f.node) if isinstance(n, (ast.ListComp, ast.GeneratorExp)) and isinstance(n.elt, ast.Call) and (dotted(n.elt.func) or "").endswith("Conditional")]
    loops = [n for n in ast.walk(f.node) if isinstance(n, ast.For)]
    combined_by_sum = [c for c in ast.walk(f.node) if isinstance(c, ast.Call) and isinstance(c.func, ast.Name) and c.func.id == "sum"] + [c for c in ast.walk(f.node) if isinstance(c, ast.Call) and (dotted(c.func) or "").endswith("Add")]
    if comps and combined_by_sum:
        false_v = call_kw(comps[0].elt, "false_value") or (comps[0].elt.args[2] if len(comps[0].elt.args) > 2 else None)
        ctx.fail(
            "R16.a",
            f.key(f"sum(exprs)"),
            f"remove_singularities builds one Conditional per singularity, each with the *whole* expression as its regular branch (false_value={norm(false_v) if false_v is not None else None}), and adds them up: with k removable singularities the result is k*expr away from the singular points (and replacement + (k-1)*expr at them)",
            f.where(combined_by_sum[0]),
            trace=["x/(exp(x)-1) + (x-1)/(exp(x-1)-1) has two removable singularities: the rewritten expression is twice the original off the singular points"],
        )
    elif loops:
        # nested fold: new = expr; for s in singularities: new = Conditional(Eq(..), replacement, new)
        l = loops[0]
        upd = [s for s in l.body if isinstance(s, ast.Assign) and isinstance(s.value, ast.Call) and (dotted(s.value.func) or "").endswith("Conditional")]
        ok = False
        if upd:
            acc = norm(upd[0].targets[0])
            fv = call_kw(upd[0].value, "false_value") or (upd[0].value.args[2] if len(upd[0].value.args) > 2 else None)
            init = [n for n in f.node.body if isinstance(n, ast.Assign) and norm(n.targets[0]) == acc and norm(n.value) == e]
            ok = fv is not None and norm(fv) == acc and bool(init)
        ctx.check(ok, "R16.a", f.key("fold"), "nested conditionals around a single copy of the expression", "remove_singularities: the loop does not nest one conditional per singularity around a single copy of the expression", f.where(l))
    else:
        ctx.fail("R16.a", f.key("shape"), "remove_singularities neither nests conditionals nor combines per-singularity conditionals in a recognised way", f.where())

    ctx.rule("R16.b", "every finite singularity contributes Conditional(Eq(symbol, value), limit, .); infinite ones are skipped; no singularity -> the expression is returned unchanged; the search covers every stateful dependency in the whole model", floor=10)
    cond_call = comps[0].elt if comps else None
    if cond_call is None:
        cands = [c for c in ast.walk(f.node) if isinstance(c, ast.Call) and (dotted(c.func) or "").endswith("Conditional")]
        cond_call = cands[0] if cands else None
    okc = cond_call is not None and norm(call_kw(cond_call, "cond") or cond_call.args[0]).replace("sympy.", "sp.") == "sp.Eq(singularity.symbol, singularity.value)" and norm(call_kw(cond_call, "true_value") or cond_call.args[1]) == "singularity.replacement"
    ctx.check(okc, "R16.b", f.key("conditional"), "Conditional(Eq(symbol, value), replacement, ...)", "remove_singularities: a singularity does not become Conditional(Eq(singularity.symbol, singularity.value), singularity.replacement, ...)", f.where())
    skip = False
    if comps:
        g = comps[0].generators[0]
        skip = norm(g.iter) == sing and [norm(c) for c in g.ifs] == ["not singularity.is_infinite"]
    ctx.check(skip, "R16.b", f.key("skip-infinite"), "exactly the infinite singularities are skipped", "remove_singularities does not iterate every singularity and skip exactly those with `is_infinite`", f.where())
    ret_same = any(isinstance(n, ast.If) and norm(n.test) in ("len(exprs) == 0", "not exprs") and any(isinstance(s, ast.Return) and norm(s.value) == e for s in n.body) for n in ast.walk(f.node))
    ctx.check(ret_same, "R16.b", f.key("unchanged"), "no removable singularity: the expression itself is returned", "remove_singularities does not return the expression unchanged when nothing is removable", f.where())
    inf = sm.func("atoms.py", "Singularity.is_infinite")
    rets = [norm(n.value) for n in ast.walk(inf.node) if isinstance(n, ast.Return)]
    ctx.check(rets == ["self.replacement.has(sp.oo) or self.replacement.has(-sp.oo)"], "R16.b", inf.key(), "infinite iff the limit contains oo / -oo", f"Singularity.is_infinite is `{rets}`: a finite but symbolic limit (e.g. 1/k) could be classified as infinite and left in the model", inf.where())
    sg = sm.func("atoms.py", "Assignment.singularities")
    loops = [n for n in sg.node.body if isinstance(n, ast.For)]
    ctx.require(loops, "Assignment.singularities: loop over the dependencies not found")
    l = loops[0]
    ctx.check(norm(l.iter) == "self.value.dependencies", "R16.b", sg.key("every-dependency"), "every dependency is examined", f"Assignment.singularities iterates {norm(l.iter)}", sg.where(l))
    brk = [n for n in ast.walk(l) if isinstance(n, ast.Break)] + [n for n in ast.walk(l) if isinstance(n, ast.Return)]
    ctx.check(not brk, "R16.b", sg.key("no-early-exit"), "the search never stops at the first dependency without a singularity", "Assignment.singularities leaves the loop early (break/return): dependencies after the first one without singularities are not searched (and which one is first depends on set order)", sg.where(brk[0]) if brk else sg.where())
    skips = [norm(n.test) for n in l.body if isinstance(n, ast.If) and any(isinstance(s, ast.Continue) for s in n.body)]
    ctx.check(skips == ["not var.is_stateful(lookup)", "not values", "not isinstance(values, sp.sets.sets.FiniteSet)"], "R16.b", sg.key("skips"), "skipped: non-stateful dependency, no singular value, non-finite set", f"Assignment.singularities skips on {skips}", sg.where(l))
    sc = [c for c in ast.walk(l) if isinstance(c, ast.Call) and norm(c.func) == "Singularity"]
    oks = bool(sc) and {k.arg: norm(k.value) for k in sc[0].keywords} == {"symbol": "var.symbol", "value": "value", "replacement": "limit(self.expr, var.symbol, value)"}
    ctx.check(oks, "R16.b", sg.key("record"), "Singularity(symbol, value, limit(expr, symbol, value))", "Assignment.singularities does not record (var.symbol, value, limit(self.expr, var.symbol, value))", sg.where())
    vals = [n for n in ast.walk(l) if isinstance(n, ast.Assign) and norm(n.targets[0]) == "values"]
    ctx.check(bool(vals) and norm(vals[0].value) == "singularities(self.expr, var.symbol)", "R16.b", sg.key("search"), "singularities(expr, state symbol)", "Assignment.singularities does not search singularities(self.expr, var.symbol)", sg.where())
    orm = sm.func("ode.py", "ODE.remove_singularities")
    calls = [c for c in ast.walk(orm.node) if isinstance(c, ast.Call) and isinstance(c.func, ast.Attribute) and c.func.attr == "remove_singularities"]
    ctx.check(bool(calls) and norm(calls[0].args[0]) == "self._lookup", "R16.b", orm.key("model-wide-lookup"), "states are looked up in the whole model", f"ODE.remove_singularities passes {norm(calls[0].args[0]) if calls else None} as lookup: a dependency on a state of another component would never be examined", orm.where())
    loops = [n for n in ast.walk(orm.node) if isinstance(n, ast.For)]
    ctx.check(bool(loops) and norm(loops[0].iter) in ("self._components.values()", "self.components"), "R16.b", orm.key("every-component"), "every component is rewritten", "ODE.remove_singularities does not rewrite every component", orm.where())
    crm = sm.func("ode_component.py", "Component.remove_singularities")
    loops = [n for n in ast.walk(crm.node) if isinstance(n, ast.For)]
    ctx.check(bool(loops) and norm(loops[0].iter) == "self.assignments" and "new_assignments.add(assignment.remove_singularities(lookup))" in norm(loops[0]), "R16.b", crm.key("every-assignment"), "every assignment is rewritten", "Component.remove_singularities does not rewrite every assignment", crm.where())
    arm = sm.func("atoms.py", "Assignment.remove_singularities")
    nc = [c for c in ast.walk(arm.node) if isinstance(c, ast.Call) and (dotted(c.func) or "") == "remove_singularities"]
    ctx.check(bool(nc) and [norm(a) for a in nc[0].args] == ["self.expr", "singularities"], "R16.b", arm.key("apply"), "remove_singularities(self.expr, its singularities)", "Assignment.remove_singularities does not rewrite self.expr with its own singularities", arm.where())
