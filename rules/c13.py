"""C13 - a component split yields complementary sub-models (missing variables, sibling agreement, counter discipline)."""

from __future__ import annotations

import ast

from sa import te, tm
from sa.core import Ctx
from sa.sm import call_kw, const_str, dotted, find_calls, norm

from . import common, util


def missing_values_discipline(ctx: Ctx, rule: str):
    sm = ctx.sm
    cgc = sm.cls("codegen/base.py", "CodeGenerator")
    f = cgc.methods["missing_values"]
    if any(isinstance(n, ast.FunctionDef) for n in ast.walk(f.node) if n is not f.node):
        f = util.nff(ctx, f)  # a local helper that stores one value is read as if written where it is called
    loops = [n for n in f.node.body if isinstance(n, ast.For)]
    if len(loops) != 2:
        # the counter discipline is judged on the two-loop idiom (store, count, early exit); another construction
        # (a generator, a helper) is not a deviation in itself
        ctx.undecided(rule, f.key("two-loops"), f"missing_values no longer has the two top-level loops the counter discipline is read from (found {len(loops)})", f.where())
        return
    ctx.ok(rule, f.key("two-loops"), "one loop over states+parameters, one over the sorted assignments", f.where())
    if len(loops) == 2:
        l1, l2 = loops
        # the counter: the one local advanced by `+= 1` inside the loops; the bound: whatever is compared with it
        ctrs = sorted({norm(n.target) for l_ in loops for n in ast.walk(l_) if isinstance(n, ast.AugAssign) and isinstance(n.op, ast.Add) and isinstance(n.value, ast.Constant) and n.value.value == 1})
        ctr = ctrs[0] if len(ctrs) == 1 else "n"
        # the same bookkeeping with a set of the names still to be stored: `pending = set(values)`, one
        # `pending.discard(name)` per store, stop when it is empty
        pend = sorted({norm(n.targets[0]) for n in f.node.body if isinstance(n, ast.Assign) and len(n.targets) == 1 and isinstance(n.targets[0], ast.Name) and norm(n.value) in (f"set({f.params[1] if len(f.params) > 1 else 'values'})", f"set({f.params[1] if len(f.params) > 1 else 'values'}.keys())")}) if not ctrs else []
        pset = pend[0] if len(pend) == 1 else None
        canon = util.canon_of(f)
        vparam = f.params[1] if len(f.params) > 1 else "values"
        # the output array: whatever local holds the IndexedBase
        ibs = {t.id for st in ast.walk(f.node) if isinstance(st, ast.Assign) and isinstance(st.value, ast.Call) and norm(st.value.func).split(".")[-1] == "IndexedBase" for t in st.targets if isinstance(t, ast.Name)} or {"values_idx"}
        def seq_text(node):
            # a + b, itertools.chain(a, b), (*a, *b), [*a, *b]: the concatenation of a and b
            if isinstance(node, ast.Call) and (dotted(node.func) or "").split(".")[-1] == "chain" and node.args and not node.keywords:
                return " + ".join(norm(a) for a in node.args)
            if isinstance(node, (ast.Tuple, ast.List)) and node.elts and all(isinstance(e, ast.Starred) for e in node.elts):
                return " + ".join(norm(e.value) for e in node.elts)
            return norm(node)

        ctx.check(seq_text(l1.iter) == "self.ode.states + self.ode.parameters", rule, f.key("atoms-loop"), "states and parameters can be exported", f"missing_values: first loop iterates {seq_text(l1.iter)} (a requested parameter or state of another kind would never be stored: its slot stays 0)", f.where(l1))
        ctx.check(norm(l2.iter) == "self.ode.sorted_assignments(remove_unused=False)", rule, f.key("assignments-loop"), "all assignments, never filtered", f"missing_values: second loop iterates {norm(l2.iter)} (an exported intermediate that nothing else uses would be dropped)", f.where(l2))
        for idx, l in enumerate((l1, l2)):
            if not isinstance(l.target, ast.Name):
                ctx.fail(rule, f.key(f"loop{idx + 1}::shape"), f"missing_values: loop {idx + 1} no longer iterates the model's atoms one by one ({norm(l.target)} in {norm(l.iter)})", f.where(l))
                continue
            v = l.target.id
            for p in te.enumerate_paths(l.body):
                req = [pol for a, pol in p.lits if a == f"{v}.name in values"]
                stores = [i for i, st in enumerate(p.effects) if isinstance(st, ast.Expr) and any(isinstance(sb, ast.Subscript) and isinstance(sb.value, ast.Name) and sb.value.id in ibs and norm(sb.slice) == f"{vparam}[{v}.name]" for sb in ast.walk(st)) and f"{v}.symbol" in norm(st)]
                incs = [i for i, st in enumerate(p.effects) if isinstance(st, ast.AugAssign) and norm(st.target) == ctr]
                if pset is not None:
                    incs = [i for i, st in enumerate(p.effects) if isinstance(st, ast.Expr) and isinstance(st.value, ast.Call) and norm(st.value.func) in (f"{pset}.discard", f"{pset}.remove") and len(st.value.args) == 1 and norm(st.value.args[0]) == f"{v}.name"]
                defs = [i for i, st in enumerate(p.effects) if isinstance(st, ast.Expr) and f"self._doprint({v}.symbol, {v}.expr" in norm(st)]
                key = f.key(f"loop{idx + 1}::{p.pred()}")
                if req and req[0]:
                    ok = len(stores) == 1 and len(incs) == 1 and incs[0] > stores[0] and (idx == 0 or (defs and defs[0] < stores[0]))
                    ctx.check(ok, rule, key, "requested: defined, stored at values[values[name]], counted once", f"missing_values path [{p.pred()}]: stores={len(stores)}, increments={len(incs)}, definition first={bool(defs)}", f.where(l))
                    if p.exit == "break":
                        ctx.check(bool(stores), rule, key + "::break", "early exit only after the store", "missing_values breaks before the requested value is stored", f.where(l))
                elif req:
                    ctx.check(not stores and not incs, rule, key, "not requested: nothing stored, counter untouched", f"missing_values path [{p.pred()}]: stores or counts a name that was not requested", f.where(l))
                elif stores:
                    # a store that does not depend on `<atom>.name in values` itself: some other set decides what is exported
                    ctx.fail(rule, key, f"missing_values path [{p.pred()}]: a value is stored although the path does not test `{v}.name in {vparam}`: what is exported is decided by another collection, so a requested name outside it (a state derivative, say) keeps the 0 of the freshly allocated array", f.where(l))
        brk = [n for n in ast.walk(l2) if isinstance(n, ast.If) and any(isinstance(s, ast.Break) for s in n.body)]
        okb = False
        bound_txt = None
        if brk and isinstance(brk[0].test, ast.Compare) and len(brk[0].test.ops) == 1:
            t_ = brk[0].test
            lt, rt = norm(t_.left), canon.text(t_.comparators[0])
            bound_txt = rt
            okb = ((lt == ctr and isinstance(t_.ops[0], (ast.GtE, ast.Eq)) and rt == f"len({vparam})") or (canon.text(t_.left) == f"len({vparam})" and norm(t_.comparators[0]) == ctr and isinstance(t_.ops[0], (ast.LtE, ast.Eq)))) and brk[0] is l2.body[-1]
        if pset is not None and brk:
            okb = norm(brk[0].test) in (f"not {pset}", f"len({pset}) == 0") and brk[0] is l2.body[-1]
        ctx.check(okb, rule, f.key("early-exit"), "stop once all requested values are stored (count >= len(values)), tested after the store", f"missing_values: the early exit is not `if <count> >= len({vparam}): break` at the end of the loop body (test: {norm(brk[0].test) if brk else None})", f.where(l2))
        inits = [n for n in f.node.body if isinstance(n, (ast.Assign, ast.AnnAssign)) and norm(n.targets[0] if isinstance(n, ast.Assign) else n.target) == ctr and n.value is not None]
        if pset is not None:
            ctx.ok(rule, f.key("counter-init"), f"the names still to be stored are kept in `{pset} = set(values)`", f.where())
        else:
            ctx.check(bool(inits) and norm(inits[0].value) == "0" and len(ctrs) == 1, rule, f.key("counter-init"), "one counter, starting at 0", f"missing_values: the stored-values counter is {ctrs} initialised with {norm(inits[0].value) if inits else None}", f.where())



def check_registered_symbols(ctx: Ctx, rule: str):
    """gather_atoms registers, for each of the four kinds of atom, symbols[atom.name] = atom.symbol - the atom's *own*
    symbol object: expressions are built from this table, and the substitution tables of the schemes and of rhs_matrix are
    keyed by atom.symbol, so a look-alike (a fresh Symbol of the same name without the assumptions) is never found."""
    from sa import av as _av

    from . import odemodel

    sm = ctx.sm
    ga = sm.func("ode.py", "gather_atoms")
    gf = odemodel.gather_fields(ctx)
    if gf is None or not gf["symbols"].get("_understood"):
        ctx.undecided(rule, ga.key("symbols-of-all-kinds"), "how gather_atoms registers symbols is not understood", ga.where())
    else:
        good = 0
        for attr in odemodel.KINDS:
            recs = gf["symbols"].get(attr, [])
            if len(recs) == 1:
                d, item = recs[0]
                bv = ("bv", d)
                if item == ("kv", ("attr", bv, "name"), ("attr", bv, "symbol")):
                    good += 1
        ctx.check(good == 4, rule, ga.key("symbols-of-all-kinds"), "parameters, states, intermediates and state derivatives are defined symbols", f"gather_atoms registers symbols[name] = atom.symbol for {good} of the 4 atom kinds", ga.where())



def check_missing_table(ctx: Ctx, rule: str):
    """The generator's table of missing variables is the model's own (`ode.missing_variables`) on every path of
    CodeGenerator.__init__: a table that is filtered or renumbered there (e.g. under remove_unused) gives rhs and the schemes
    another slot layout than ODE.missing_variables and the other half's missing_values use."""
    from sa import av as _av

    from . import util

    init = ctx.sm.func("codegen/base.py", "CodeGenerator.__init__")
    A = util.AV(ctx)
    _v, env = A.returned(init)
    mv = env.get("self._missing_variables")
    key = init.key("missing-table")
    if mv is None:
        stores = [n for n in ast.walk(init.node) if isinstance(n, ast.Attribute) and isinstance(n.ctx, ast.Store) and n.attr == "_missing_variables"]
        if not stores:
            ctx.undecided(rule, key, "CodeGenerator.__init__ does not set self._missing_variables; where the generator's table comes from is not understood", init.where())
            return
    if mv is None or _av.has_unk(mv):
        ctx.undecided(rule, key, "what CodeGenerator.__init__ stores as the table of missing variables is not understood", init.where())
        return
    p0 = [p for p in init.params if p != "self"][0]
    want = [("sym", f"{p0}.missing_variables"), ("attr", ("sym", p0), "missing_variables"), ("sym", "self.ode.missing_variables")]
    from .c03 import _branches

    odd = [leaf for _c, leaf in _branches(mv) if leaf not in want]
    ctx.check(not odd, rule, key, "self._missing_variables = ode.missing_variables", f"CodeGenerator.__init__ stores `{_av.show(odd[0])[:120] if odd else ''}` as the table of missing variables on some path, not the model's own `ode.missing_variables`: the slots rhs and the schemes read differ from the ones the model and the producing half number", init.where())


def run(ctx: Ctx):
    sm = ctx.sm
    ctx.assume("numerical agreement of the sub-models with the full model is NOT decided")
    cgc = sm.cls("codegen/base.py", "CodeGenerator")

    ctx.rule("R13.a", "missing variables = names used by some assignment minus (defined symbols, time aliases), numbered in sorted order", floor=4)
    from sa import av as _av13

    mv = sm.func("ode.py", "ODE.missing_variables")
    mvv = util.value_of(ctx, mv)
    bv1, bv2 = ("bv", 1), ("bv", 2)
    used = ("mcall", ("sym", "self"), "dependents", (), ())
    defined = _av13.mk_and(_av13.mk_cmp("!=", bv1, _av13.C("t")), _av13.mk_cmp("not in", bv1, ("sym", "self.symbols")))
    # (the sequence a comprehension ranges over is outside its binder: both levels are numbered 1)
    REF_MV = ("comp", 1, ("call", "sorted", (("comp", 1, used, (bv1,), (defined,)),), ()), (("kv", bv1, ("idx", 1, _av13.C(0))),), ())
    vd = util.verdict(mvv, [REF_MV])
    if vd == "unknown":
        ctx.undecided("R13.a", mv.key("numbering"), f"what ODE.missing_variables returns is not understood ({_av13.show(mvv)[:120]})", mv.where())
    else:
        ctx.check(vd == "ok", "R13.a", mv.key("numbering"), "names used (keys of dependents()) minus defined symbols and t, numbered in sorted order", f"ODE.missing_variables returns {_av13.show(mvv)[:220]}; expected: every key of self.dependents() that is neither a symbol of the model nor `t`, numbered 0.. in sorted order", mv.where())
    from sa import av as _av

    from . import odemodel

    oi = sm.func("ode.py", "ODE.__init__")
    _v, env_ = odemodel.construction(ctx, "ODE.__init__")
    symv = env_.get("self._symbols")
    if symv is None or _av.has_unk(symv):
        ctx.undecided("R13.a", oi.key("symbols"), "what ODE.__init__ stores as the model's symbols is not understood", oi.where())
    else:
        base, extra = odemodel.setitem_chain(symv)
        src = odemodel.field_of(base, 2)
        okb = src is not None and "time" in extra and extra["time"] in (env_.get("self.t"), ("call", "sympy.Symbol", (_av.C("t"),), ()))
        ctx.check(okb, "R13.a", oi.key("symbols"), "ODE.symbols = every atom of the components + time", f"ODE.__init__ stores symbols as {_av.show(symv)[:100]}, not the symbols gathered from the components plus `time`", oi.where())
    check_registered_symbols(ctx, "R13.a")
    check_missing_table(ctx, "R13.a")

    ctx.rule("R13.b", "sibling agreement: rhs, monitor_values, missing_values and scheme all unpack the missing variables, append the formal under the same condition and hand the block to the template; both python templates splice it before the body", floor=16)
    # the formal `missing_variables` is appended to the argument list the helpers return: a helper that remembers its
    # result hands the *same list* to the next scheme, which appends again (duplicate formal, or the formal leaking into
    # the functions of a model that has no missing variables)
    from .c12 import check_generator_purity

    check_generator_purity(ctx, "R13.b", classes=(("codegen/base.py", "CodeGenerator"), ("codegen/python.py", "PythonCodeGenerator"), ("codegen/c.py", "CCodeGenerator"), ("codegen/jax.py", "JaxCodeGenerator")))

    from sa import av as _avb13

    for mname in ("rhs", "monitor_values", "missing_values", "scheme"):
        f = cgc.methods[mname]
        A13 = util.AV(ctx)
        n0 = len(A13.call_log)
        A13.returned(f)
        # calls made while this method is evaluated - in its own frame or in a helper of the class it delegates to
        tcs = [val for fn_, node_, val in A13.call_log[n0:] if fn_ is not None and val[0] == "mcall" and val[2] == "method" and val[1] == ("sym", "self.template")]
        if not tcs:
            tcs = [val for fn_, node_, val in A13.call_log if fn_ is not None and fn_.qualname == f.qualname and val[0] == "mcall" and val[2] == "method" and val[1] == ("sym", "self.template")]
        if not tcs:
            ctx.fail("R13.b", f.key("template"), f"CodeGenerator.{mname} no longer hands its parts to template.method", f.where())
            continue
        kw = dict(tcs[-1][4])
        mv = kw.get("missing_variables")
        a1 = mv == ("mcall", ("sym", "self"), "_missing_variables_assignments", (), ())
        if not a1 and mv is not None:
            # the helper may have been expanded: its text is a conditional on self._missing_variables
            a1 = "Assign missing variables" in _avb13.show(mv) and "self._missing_variables" in _avb13.show(mv)
        ctx.check(a1, "R13.b", f.key("unpack-block"), "the template's missing_variables block is self._missing_variables_assignments()", f"CodeGenerator.{mname} does not hand the missing-variables unpacking block to the template (missing_variables={_avb13.show(mv)[:80] if mv is not None else None})", f.where())
        args_kw = kw.get("args")
        okf, unknown = False, False
        if args_kw is not None:
            helpers = [c for c in _avb13.find_all(args_kw, "mcall") if c[2] in ("_rhs_arguments", "_scheme_arguments")]
            if helpers:
                ARGS = ("attr", helpers[0], "arguments")
                want = _avb13.mk_join(_avb13.C(", "), _avb13.mk_if(("sym", "self._missing_variables"), _avb13.mk_list((("spread", ARGS), _avb13.C("missing_variables"))), ARGS))
                vd = util.verdict(args_kw, [want])
                okf, unknown = vd == "ok", vd == "unknown"
            else:
                unknown = _avb13.has_unk(args_kw)
        if unknown:
            ctx.undecided("R13.b", f.key("formal"), f"how CodeGenerator.{mname} builds the formal argument list is not understood", f.where())
        else:
            ctx.check(okf, "R13.b", f.key("formal"), "formal `missing_variables` appended iff the model has missing variables, and it reaches the template's args", f"CodeGenerator.{mname} hands args={_avb13.show(args_kw)[:160] if args_kw is not None else None} to the template, not the helper's arguments plus `missing_variables` exactly when self._missing_variables is non-empty", f.where())
        ctx.check(args_kw is not None and mv is not None, "R13.b", f.key("template"), "block and formals reach the template", f"CodeGenerator.{mname} does not pass missing_variables= / args= to the method template", f.where())
    ma = cgc.methods["_missing_variables_assignments"]
    mav = util.value_of(ctx, ma)
    comps13 = [c for c in _avb13.find_all(mav, "comp") if c[2] == ("mcall", ("sym", "self._missing_variables"), "items", (), ())]
    if _avb13.has_unk(mav) and not comps13:
        ctx.undecided("R13.b", ma.key("pairs"), "what _missing_variables_assignments builds is not understood", ma.where())
    else:
        okm = False
        if comps13:
            cp = comps13[0]
            bv = ("bv", cp[1])
            it_ = cp[3][0] if len(cp[3]) == 1 else None
            okm = it_ is not None and not cp[4] and it_[0] == "mcall" and it_[2] == "_doprint" and len(it_[3]) >= 2 and it_[3][0] == ("call", "sympy.Symbol", (bv + (0,),), ()) and it_[3][1][0] == "sub" and it_[3][1][2] == bv + (1,) and it_[3][1][1][0] == "call" and it_[3][1][1][1].endswith("IndexedBase") and it_[3][1][1][2] and it_[3][1][1][2][0] == _avb13.C("missing_variables")
        ctx.check(okm, "R13.b", ma.key("pairs"), "name := missing_variables[index] for every missing variable", "_missing_variables_assignments does not unpack every (name, index) pair of the model's missing variables as Symbol(name) := missing_variables[index]", ma.where())
    init = cgc.methods["__init__"]
    ctx.check(any(isinstance(n, ast.Assign) and norm(n.targets[0]) == "self._missing_variables" and norm(n.value) == "ode.missing_variables" for n in ast.walk(init.node)), "R13.b", init.key("source"), "generator uses ODE.missing_variables", "CodeGenerator.__init__ does not take the missing variables from ode.missing_variables", init.where())
    mi = cgc.methods["missing_index"]
    tc = [c for c in ast.walk(mi.node) if isinstance(c, ast.Call) and norm(c.func) == "self.template.missing_index"]
    ctx.check(bool(tc) and norm(call_kw(tc[0], "data")) == "self._missing_variables", "R13.b", mi.key("table"), "missing_index publishes the same table", "CodeGenerator.missing_index does not publish self._missing_variables", mi.where())
    from sa import av as _av

    for short in ("templates/python.py", "templates/jax.py"):
        sk = util.skeleton(ctx, "R13.b", short, "method", {"nan_to_num": _av.C(False)} if short.endswith("python.py") else None)
        if sk is None:
            continue
        p1, p2, p3 = sk.raw.find("{parameters}"), sk.raw.find("{missing_variables}"), sk.raw.find("{values}")
        ctx.check(0 <= p1 < p2 < p3, "R13.b", sk.func.key("splice"), "missing-variable block sits between the parameters and the body", f"{short} method template: the `missing_variables` argument is not spliced between the parameter unpacking and the body", sk.func.where())

    ctx.rule("R13.c", "missing_values: every requested name among states, parameters and all assignments is stored at its requested slot; the counter advances exactly on stores; the early exit follows the store", floor=6)
    from .c18 import check_missing_values_passed_on

    check_missing_values_passed_on(ctx, "R13.c")
    missing_values_discipline(ctx, "R13.c")

    ctx.rule("R13.d", "model - C drops exactly component C; C.to_ode() keeps exactly C", floor=2)
    from sa import av as _avd13

    sub = sm.func("ode.py", "ODE.__sub__")
    sbv = util.value_of(ctx, sub)
    oc = [c for c in _avd13.find_all(sbv, "call") if c[1].split(".")[-1] == "ODE"]
    if not oc:
        ctx.undecided("R13.d", sub.key(), f"what ODE.__sub__ returns is not understood ({_avd13.show(sbv)[:100]})", sub.where())
    else:
        kw = dict(oc[0][3])
        comps = _avd13._unwrap_seq(kw.get("components", oc[0][2][0] if oc[0][2] else ("unk", "")))
        while comps[0] == "call" and comps[1] in ("tuple", "list") and len(comps[2]) == 1:
            comps = _avd13._unwrap_seq(comps[2][0])
        op_ = sub.params[1]
        REF_SUB = ("comp", 1, ("sym", "self.components"), (("bv", 1),), (("cmp", "!=", ("bv", 1), ("sym", op_)),))
        vd = util.verdict(comps, [REF_SUB])
        if vd == "unknown":
            ctx.undecided("R13.d", sub.key(), f"the components of `model - component` are not understood ({_avd13.show(comps)[:100]})", sub.where())
        else:
            ctx.check(vd == "ok" and kw.get("t") == ("sym", "self.t"), "R13.d", sub.key(), "ODE(components = every component except `other`)", f"ODE.__sub__ builds the model from {_avd13.show(comps)[:120]} (t={_avd13.show(kw.get('t')) if kw.get('t') else None}), not from every component except the given one", sub.where())
    to = sm.func("ode_component.py", "BaseComponent.to_ode")
    tov = util.value_of(ctx, to)
    oc = [c for c in _avd13.find_all(tov, "call") if c[1].split(".")[-1] == "ODE"]
    if not oc:
        ctx.undecided("R13.d", to.key(), "what to_ode returns is not understood", to.where())
    else:
        comps = dict(oc[0][3]).get("components", oc[0][2][0] if oc[0][2] else None)
        ctx.check(comps == ("list", (("sym", "self"),)), "R13.d", to.key(), "ODE(components=(self,))", f"BaseComponent.to_ode builds the model from {_avd13.show(comps) if comps else None}, not from exactly this component", to.where())

    ctx.rule("R13.f", "a sub-model goes through the same builders and entry points as a full model: the hybrid scheme decides stiffness by the state's own name in the given list (R07.a), and get_code builds one generator of the requested backend for every function, missing_values included (R18.a)", floor=20)
    from .c07 import hybrid_table
    from .c18 import check_get_code

    hybrid_table(ctx, "R13.f", declare=False)
    check_get_code(ctx, "R13.f", "cli/gotran2py.py")

    ctx.rule("R13.g", "what the two halves of a split exchange is addressed by name through index functions that agree with the functions that fill the arrays: the monitor / state / parameter slot families (monitor_index numbers every assignment monitor_values emits, whatever remove_unused says), and missing_values returns as many values as were requested", floor=10)
    from .c03 import return_arity
    from .c04 import slot_families

    slot_families(ctx, "R13.g", floor=False)
    return_arity(ctx, "R13.g")
    ctx.rule("R13.e", "the jax method template returns the slots _values_0.._values_{n-1} in slot order (missing_values stores its slots in emission order, not slot order)", floor=5)
    from .c03 import jax_template

    jax_template(ctx, "R13.e")
