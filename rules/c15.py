"""C15 - Myokit / CellML import and export: clone consistency and bookkeeping of the converter (dynamics NOT decided)."""

from __future__ import annotations

import ast

from sa.core import Ctx
from sa.sm import call_kw, const_str, dotted, find_calls, fstring_skeleton, norm, walk_no_nested


def rename_site_rule(ctx: Ctx, rule: str, key: str):
    """Both rename sites (the converter and the substitution tables) derive a variable's name from uname() with the
    same reserved-name transformation - inline or through a shared helper."""
    sm = ctx.sm
    f = sm.func("myokit.py", "myokit_to_gotran")
    g = sm.func("myokit.py", "extract_nested_variables")
    from sa import av as _av

    from . import util

    A15 = util.AV(ctx)
    rel15 = f.rel
    # helpers that compute the reserved-name transformation of their argument's uname()
    helpers = {}
    for h_ in sm.funcs_in("myokit.py"):
        if "." in h_.qualname or len(h_.params) != 1:
            continue
        hv = A15.returned(h_)[0]
        ref = A15.expr(f"(f'{{{h_.params[0]}.uname()}}_' if {h_.params[0]}.uname() in reserved_names else {h_.params[0]}.uname())", env={h_.params[0]: ("sym", h_.params[0])}, rel=rel15)
        if hv == _av.canon_binders(ref):
            helpers[h_.name] = h_

    def tree(fn):
        return [fn] + [x for x in sm.funcs_in("myokit.py") if x.qualname.startswith(fn.qualname + ".")]

    def rename_sites(fn):
        good, bad = [], []
        for fx in tree(fn):
            for n in walk_no_nested(fx.node):
                if isinstance(n, ast.If) and isinstance(n.test, ast.Compare) and len(n.test.ops) == 1 and isinstance(n.test.ops[0], ast.In) and norm(n.test.comparators[0]) == "reserved_names" and isinstance(n.test.left, ast.Name):
                    v_ = n.test.left.id
                    src = [a_ for a_ in ast.walk(fx.node) if isinstance(a_, ast.Assign) and norm(a_.targets[0]) == v_ and norm(a_.value).endswith(".uname()")]
                    body = [fstring_skeleton(s_.value) for s_ in n.body if isinstance(s_, ast.Assign) and norm(s_.targets[0]) == v_]
                    (good if src and body == ["{" + v_ + "}_"] and not n.orelse else bad).append((fx.qualname, norm(n.test), body))
                if isinstance(n, ast.Call) and isinstance(n.func, ast.Name) and n.func.id in helpers:
                    good.append((fx.qualname, norm(n), ["helper"]))
        uses_uname = any(isinstance(c, ast.Call) and isinstance(c.func, ast.Attribute) and c.func.attr == "uname" for fx in tree(fn) for c in walk_no_nested(fx.node))
        return good, bad, uses_uname

    verdicts = []
    ctx.__dict__["_rename_sites"] = rename_sites
    for fn in (f, g):
        good, bad, uses = rename_sites(fn)
        if bad:
            verdicts.append(("bad", f"{fn.qualname}: {bad}"))
        elif good:
            verdicts.append(("ok", ""))
        elif uses:
            verdicts.append(("bad", f"{fn.qualname} derives names from uname() without the reserved-name transformation"))
        else:
            verdicts.append(("unknown", f"{fn.qualname}: no name derivation found"))
    if any(v_[0] == "bad" for v_ in verdicts):
        ctx.fail(rule, key, f"the rename sites differ or are missing: {[w_ for k_, w_ in verdicts if k_ == 'bad']}; a variable would be declared under one name and referenced under another", f.where())
    elif any(v_[0] == "unknown" for v_ in verdicts):
        ctx.undecided(rule, key, "; ".join(w_ for k_, w_ in verdicts if k_ == "unknown"), f.where())
    else:
        ctx.ok(rule, key, "name = var.uname(); reserved -> name_ (at both sites)", f.where())
    return tree


REF_EXTRACT_UNIT = """
def extract_unit(unit):
    if unit is None:
        return None
    return str(unit).strip("[").strip("]").replace("^", "**")
"""


def run(ctx: Ctx):
    sm = ctx.sm
    ctx.assume("preservation of the dynamics against Myokit's own evaluation - the main content of the property - is NOT decided: that needs Myokit executed. Only necessary bookkeeping conditions of the converter are decided.")
    f = sm.func("myokit.py", "myokit_to_gotran")
    g = sm.func("myokit.py", "extract_nested_variables")

    ctx.rule("R15.a", "both rename sites apply the same reserved-name transformation to uname(); reserved names are all public sympy names", floor=3)
    from sa import av as _av

    from . import util

    tree = rename_site_rule(ctx, "R15.a", "src/gotranx/myokit.py::rename-sites")
    mod = sm.module("myokit.py")
    rn = [n for n in mod.body if isinstance(n, ast.Assign) and norm(n.targets[0]) == "reserved_names"]
    ctx.check(bool(rn) and norm(rn[0].value).replace('"', "'") == "{name for name in dir(sp) if not name.startswith('_')}", "R15.a", "src/gotranx/myokit.py::reserved_names", "every public sympy name", f"reserved_names is {norm(rn[0].value) if rn else None}: a Myokit variable called e.g. `pi` keeps its name and is read back as the constant", "src/gotranx/myokit.py")
    # the local name and the qualified name of a variable both map to the same (renamed) unique name
    stores = []
    for fx in tree(g):
        cn = util.canon_of(fx)
        for n in walk_no_nested(fx.node):
            if isinstance(n, ast.Assign) and isinstance(n.targets[0], ast.Subscript):
                stores.append((fx, norm(n.targets[0].slice), cn.text(n.value), norm(n.targets[0].value)))
    local = [s_ for s_ in stores if s_[1].replace("sympy.", "sp.") == "sp.Symbol(var.name())"]
    qual = [s_ for s_ in stores if s_[1].replace("sympy.", "sp.") == "sp.Symbol(var.qname())"]
    if not local or not qual:
        ctx.undecided("R15.a", g.key("substitutions"), f"the substitution tables of extract_nested_variables are not filled by the known stores (found keys {[s_[1] for s_ in stores]})", g.where())
    else:
        same = local[0][2] == qual[0][2] and local[0][2].replace("sympy.", "sp.").startswith("sp.Symbol(")
        ctx.check(same, "R15.a", g.key("substitutions"), "local name and qualified name both map to the unique name", f"extract_nested_variables maps the local name to {local[0][2]} and the qualified name to {qual[0][2]}", g.where())

    ctx.rule("R15.b", "the state-derivative and the intermediate branch apply the same substitution chain, in the same order; states take their initial value by state index; constants by value", floor=6)
    check_myokit_import(ctx, "R15.b")
    util.same_as_reference(
        ctx,
        "R15.b",
        "myokit.py",
        "extract_unit",
        REF_EXTRACT_UNIT,
        "text",
        "the unit text without the brackets, ^ written as ** (the multiplier Myokit appends is part of the unit and is kept)",
        "extract_unit no longer returns Myokit's unit text with only the brackets removed and ^ written as **: part of the unit (e.g. the multiplier `(1e+06)`) is lost or changed on import",
    )

    ctx.rule("R15.c", "export: every atom kind is registered in the name map before any expression is converted; values and units are set from the atoms", floor=4)
    check_myokit_export(ctx, "R15.c")

    ctx.rule("R15.d", "the documented save-and-reload step keeps every operand of the n-ary connectives Myokit's sympy writer produces", floor=3)
    from . import printers
    from .c11 import all_args_joined

    M = printers.model(ctx)
    for cname in ("And", "Or"):
        fw = M.method("ode", f"_print_{cname}")
        ctx.require(fw, f"writer _print_{cname} not found")
        all_args_joined(fw, None, ctx, "R15.d", cname)
    from .c11 import check_apply_all, check_relational

    check_apply_all(ctx, "R15.d")
    check_relational(ctx, "R15.d")
    # the documented step saves the imported model: numbers and every other class must be written by a vetted method
    # (a writer override that rounds literals changes the dynamics of every imported model)
    from sa import pm as _pm15

    from .c11 import check_writer_rows

    check_writer_rows(ctx, "R15.d")
    # ... conditionals keep the priority of their branches (Myokit's piecewise / if nests arbitrarily deep)
    from .c11 import check_writer_piecewise

    check_writer_piecewise(ctx, "R15.d", M)
    # ... and the rhs that is compared with Myokit's is printed by the NumPy backend: its function table names the
    # functions of the model
    printers.check_function_table(ctx, "R15.d", "numpy")
    printers.check_equality_text(ctx, "R15.d")  # Myokit compares exactly; its literals arrive as sympy Floats
    printers.check_no_unvetted_override(ctx, "R15.d", "ode", skip=_pm15.NOT_FOR_WRITER)
    # ... and the rhs is generated by the NumPy backend: no print method of it may be replaced by an unvetted one
    printers.check_no_unvetted_override(ctx, "R15.d", "numpy", skip=("sign", "DiracDelta"))


def check_myokit_export(ctx: Ctx, rule: str):
    """gotran_to_myokit, read from what it does (the set_rhs / promote calls it makes, as values): every expression is
    converted after renaming with a map that already holds the qualified names of the states, parameters and
    intermediates of *all* components; parameter values and initial state values come from the atoms."""
    import re

    from sa import av as _av

    from . import util

    h = ctx.sm.func("myokit.py", "gotran_to_myokit")
    A = util.AV(ctx)
    n0 = len(A.call_log)
    try:
        A.returned(h)
    except Exception as e:
        ctx.undecided(rule, h.key("two-passes"), f"gotran_to_myokit could not be evaluated ({e})", h.where())
        return
    log = [val for _f, _n, val in A.call_log[n0:]]
    sets = [v for v in log if v[0] == "mcall" and v[2] == "set_rhs" and len(v[3]) == 1]
    conv = []
    raw_expr = []
    for s_ in sets:
        a = s_[3][0]
        if a[0] == "mcall" and a[2] == "ex" and len(a[3]) == 1:
            inner = a[3][0]
            if inner[0] == "mcall" and inner[2] == "xreplace" and len(inner[3]) == 1:
                conv.append((s_[1], inner[1], inner[3][0]))
            else:
                raw_expr.append(s_)
    if not conv:
        if raw_expr:
            ctx.fail(rule, h.key("converted"), f"gotran_to_myokit converts expressions without renaming their symbols to qualified names ({_av.show(raw_expr[0])[:120]})", h.where())
        else:
            ctx.undecided(rule, h.key("two-passes"), "how gotran_to_myokit converts expressions (reader.ex(expr.xreplace(map))) is not recognised", h.where())
        return

    def registrations(M):
        out = set()
        for c in _av.find_all(M, "comp"):
            it = c[2]
            if it[0] == "attr" and it[2] in ("state_derivatives", "states", "parameters", "intermediates"):
                for item in c[3]:
                    if item[0] in ("kv", "kadd"):
                        out.add((it[2], re.sub(rf"\${c[1]}\b", "_", _av.show(item[1]))))
        return out

    maps = {m for _r, _e, m in conv}
    key2 = h.key("two-passes")
    if any(_av.has_unk(m) for m in maps):
        ctx.undecided(rule, key2, "the name map used when expressions are converted is not understood", h.where())
    else:
        over_all = all(any(c[2] == ("sym", f"{h.params[0]}.components") or _av.show(c[2]).endswith(".components") for c in _av.find_all(m, "comp")) for m in maps)
        partial = any(_av.has(m, "acc") for m in maps)
        ctx.check(len(maps) == 1 and over_all and not partial, rule, key2, "declare all variables, then convert expressions", "gotran_to_myokit no longer declares the variables of all components before converting expressions (the name map is incomplete when an expression is converted)", h.where())
        regs = set().union(*[registrations(m) for m in maps])
        want_any = [{("state_derivatives", "sympy.Symbol(_.state.name)"), ("states", "sympy.Symbol(_.name)")}, {("parameters", "sympy.Symbol(_.name)")}, {("intermediates", "sympy.Symbol(_.name)")}]
        missing = [sorted(w)[0][0] for w in want_any if not (w & regs)]
        ctx.check(not missing, rule, h.key("registered"), "states, parameters and intermediates are registered", f"gotran_to_myokit: the name map does not register {missing} under their own names (registered: {sorted(regs)})", h.where())
    # which expressions are converted: <component>[x.state.name] <- x.expr and <component>[x.name] <- x.expr
    kinds = set()
    for recv, src, _m in conv:
        if src[0] == "attr" and src[2] == "expr" and src[1][0] == "bv" and recv[0] == "sub":
            k = recv[2]
            if k == ("attr", ("attr", src[1], "state"), "name"):
                kinds.add("derivative")
            elif k == ("attr", src[1], "name"):
                kinds.add("intermediate")
            else:
                kinds.add("other:" + _av.show(k))
        else:
            kinds.add("other:" + _av.show(src)[:40])
    others = sorted(k for k in kinds if k.startswith("other:"))
    ctx.check({"derivative", "intermediate"} <= kinds and not others, rule, h.key("converted"), "derivative and intermediate expressions are renamed with the full map", f"gotran_to_myokit: converted expressions are {sorted(kinds)} (each state's variable gets its derivative's expression, each intermediate its own)", h.where())
    # units: every declared variable gets its atom's own unit text (** written as ^), and no unit when it has none
    units = [v for v in log if v[0] == "mcall" and v[2] == "set_unit" and len(v[3]) == 1 and _av.find_all(v[3][0], "bv")]
    ukey = h.key("units")
    if not units:
        ctx.undecided(rule, ukey, "the set_unit calls of gotran_to_myokit are not found in what it does", h.where())
    else:
        bad_u = []
        other_atom: list = []
        for u_ in units:
            a = u_[3][0]
            srcs = [x for x in _av.find_all(a, "attr") if x[2] == "unit_str"]
            if not srcs:
                bad_u.append(a)
                continue
            U = srcs[0]
            want_u = _av.mk_if(("cmp", "is", U, _av.NONE), _av.NONE, ("mcall", U, "replace", (_av.C("**"), _av.C("^")), ()))
            if a != want_u:
                bad_u.append(a)
                continue
            # ... and it is the unit of the atom the variable was declared for: add_variable(<atom>.name).set_unit(<atom>.unit_str)
            recv = u_[1]
            if recv[0] == "mcall" and recv[2] == "add_variable" and recv[3] and recv[3][0][0] == "attr" and recv[3][0][2] == "name" and recv[3][0][1] != U[1]:
                other_atom.append((recv[3][0], U))
        ctx.check(not bad_u, rule, ukey, "unit = the atom's unit text with ** written as ^, None when the atom has none", f"gotran_to_myokit sets a variable's unit to `{_av.show(bad_u[0])[:100] if bad_u else ''}`, not to the atom's own unit text (None when it has none): units are not preserved by the conversion back to Myokit", h.where())
        if other_atom:
            ctx.fail(rule, h.key("units::own-atom"), f"gotran_to_myokit declares the variable `{_av.show(other_atom[0][0])}` but gives it the unit `{_av.show(other_atom[0][1])}` of another atom (a state's unit is not its derivative's): units are not preserved by the conversion back to Myokit", h.where())
        elif not bad_u:
            ctx.ok(rule, h.key("units::own-atom"), "each variable gets the unit of the atom it is declared for", h.where())
    pvals = any(s_[3][0][0] == "attr" and s_[3][0][2] == "value" and s_[3][0][1][0] == "bv" and ("add_variable(" + _av.show(s_[3][0][1]) + ".name)") in _av.show(s_[1]) for s_ in sets)
    proms = [v for v in log if v[0] == "mcall" and v[2] == "promote" and len(v[3]) == 1]
    sv = any(p_[3][0] == ("attr", ("attr", p_[1][2][1][1], "state"), "value") for p_ in proms if p_[1][0] == "sub" and p_[1][2][0] == "attr" and p_[1][2][1][0] == "attr" and p_[1][2][1][2] == "state")
    ctx.check(pvals and sv, rule, h.key("values"), "parameter values and state initial values are exported", "gotran_to_myokit does not export parameter values / initial state values from the atoms", h.where())


def check_myokit_import(ctx: Ctx, rule: str):
    """myokit_to_gotran, read from the atoms it constructs (the constructor calls it makes, as values): the two
    expression kinds are renamed by the same chain of three substitutions in the same order; a state takes
    `initial_values()[var.index()]`; the derivative is `d<name>_dt` bound to that state; a variable whose rhs is a
    number is a parameter with `var.value()`; the time variable is skipped; every collected atom goes into the
    component."""
    from sa import av as _av

    from . import util

    f = ctx.sm.func("myokit.py", "myokit_to_gotran")
    A = util.AV(ctx)
    n0 = len(A.call_log)
    try:
        A.returned(f)
    except Exception as e:
        ctx.undecided(rule, f.key("substitution-chains"), f"myokit_to_gotran could not be evaluated ({e})", f.where())
        return
    log = [v for _f, _n, v in A.call_log[n0:]]

    # the caller's model is not altered: the protocol is embedded into a copy (add_embedded_protocol rewrites the model it
    # is given, and refuses to embed a second time - a second import of the same object with another protocol would keep
    # the first one's timing)
    emb = [v for v in log if v[0] == "call" and v[1].split(".")[-1] == "add_embedded_protocol" and v[2]]
    for v in emb:
        tgt = v[2][0]
        kp = f.key("protocol-embedded-into-a-copy")
        if tgt[0] == "sym" and tgt[1] in f.params:
            ctx.fail(rule, kp, f"myokit_to_gotran embeds the protocol into its own argument `{tgt[1]}` (add_embedded_protocol rewrites the model in place): importing the same Myokit model again with another protocol silently keeps the first protocol", f.where())
        elif tgt[0] == "mcall" and tgt[2] in ("clone", "copy", "__copy__", "__deepcopy__") or (tgt[0] == "call" and tgt[1].split(".")[-1] in ("copy", "deepcopy")):
            ctx.ok(rule, kp, "add_embedded_protocol(model.clone(), protocol)", f.where())
        else:
            ctx.undecided(rule, kp, f"the model handed to add_embedded_protocol (`{_av.show(tgt)[:60]}`) is not recognised as a copy", f.where())

    def ctor(name):
        return [v for v in log if v[0] == "call" and v[1].split(".")[-1] == name]

    def chain(expr):
        """x.xreplace(a).xreplace(b)... -> (x, [a, b, ...])"""
        args = []
        while expr is not None and expr[0] == "mcall" and expr[2] == "xreplace" and len(expr[3]) == 1:
            args.append(expr[3][0])
            expr = expr[1]
        return expr, list(reversed(args))

    st, sd, pr, im, mc = ctor("State"), ctor("StateDerivative"), ctor("Parameter"), ctor("Intermediate"), ctor("MyokitComponent")
    if not (st and sd and pr and im and mc) or any(_av.has_unk(v) for v in st[:1] + sd[:1] + pr[:1] + im[:1]):
        for k in ("substitution-chains", "initial-values", "derivative", "parameter-split", "time", "component"):
            ctx.undecided(rule, f.key(k), "the atoms myokit_to_gotran constructs are not all found / understood in what it does", f.where())
        return
    kw = lambda c: dict(c[3])  # noqa: E731
    # 1. substitution chains
    src_d, ch_d = chain(kw(sd[0]).get("expr"))
    src_i, ch_i = chain(kw(im[0]).get("expr"))
    okc = len(ch_d) == 3 and ch_d == ch_i
    shape = False
    if okc:
        a, b, c = ch_d
        nested = a[0] == "comp" and len(a[3]) == 1 and a[3][0][0] == "kv" and a[3][0][1] == ("mcall", ("bv", a[1]), "name", (), ()) and a[3][0][2] == ("mcall", ("bv", a[1]), "uname", (), ())
        per_comp = b[0] == "mcall" and b[2] == "get" and b[1][0] == "sub" and b[1][2] == _av.C(1)
        qualified = c[0] == "sub" and c[2] == _av.C(0) and per_comp and c[1] == b[1][1]
        shape = nested and per_comp and qualified
    ctx.check(okc and shape, rule, f.key("substitution-chains"), "nested names, component names, qualified names - twice", f"the substitution chains of the state-derivative and the intermediate branch are {[_av.show(x)[:60] for x in ch_d]} / {[_av.show(x)[:60] for x in ch_i]}: not the same three renamings (nested names, the component's table, all qualified names) in that order", f.where())
    # 2. initial values
    sv = kw(st[0]).get("value")
    var = None
    oki = sv is not None and sv[0] == "sub" and sv[1][0] == "mcall" and sv[1][2] == "initial_values" and sv[2][0] == "mcall" and sv[2][2] == "index" and sv[2][1][0] == "bv"
    if oki:
        var = sv[2][1]
    ctx.check(oki, rule, f.key("initial-values"), "state value = model.initial_values()[var.index()]", f"a state's initial value is taken as {_av.show(sv)[:100] if sv else None}: with any other lookup states get each other's initial values when declaration order and state index differ", f.where())
    # 3. derivative
    dk = kw(sd[0])
    nm = kw(st[0]).get("name")
    okd = dk.get("state") == st[0] and nm is not None and dk.get("name") == _av.mk_s((("lit", "d"), ("h", nm), ("lit", "_dt"))) and src_d is not None and var is not None and _mentions(src_d, var)
    ctx.check(okd, rule, f.key("derivative"), "d<name>_dt with the state's own expression", f"the StateDerivative atom is not named d<name>_dt / not bound to its state and its own right-hand side (name {_av.show(dk.get('name'))[:60] if dk.get('name') else None})", f.where())
    # 4. parameter split and time: read from the conditions under which each kind is collected
    comp = mc[0]
    ck = kw(comp)
    kinds = {"states": "State", "parameters": "Parameter", "intermediates": "Intermediate", "state_derivatives": "StateDerivative"}
    conds = {}
    okm = True
    for field, cname in kinds.items():
        val = ck.get(field)
        inner = _av._unwrap_seq(val[2][0]) if val is not None and val[0] == "call" and val[1] in ("frozenset", "tuple", "set", "list") and val[2] else (val if val is not None else None)
        if inner is None or inner[0] != "comp" or len(inner[3]) != 1 or not (inner[3][0][0] == "call" and inner[3][0][1].split(".")[-1] == cname):
            okm = False
            continue
        conds[field] = inner[4]
    partitioned = [fld for fld in kinds if ck.get(fld) is not None and (_av.find_all(ck[fld], "fold") or any(c_[0] == "cmp" and c_[1] in ("is", "==") and "type(" in _av.show(c_) for c_ in _av.find_all(ck[fld], "cmp")) or any("isinstance" in _av.show(c_) for c_ in _av.find_all(ck[fld], "call") if c_[1] == "isinstance"))]
    if not (okm and len(conds) == 4) and len(partitioned) == 4:
        # one mixed collection partitioned by the atoms' types: not the per-kind collections this rule reads
        ctx.undecided(rule, f.key("component"), "MyokitComponent's fields are partitions of one collection by the type of the atoms; which atom goes where is not judged", f.where())
    else:
        ctx.check(okm and len(conds) == 4, rule, f.key("component"), "every collected atom goes into the component", "MyokitComponent is not built from all collected states, parameters, intermediates and derivatives (each as the set of the atoms constructed for the component's variables)", f.where())
    if len(conds) == 4:
        def flat(cs):
            out = []
            for c in cs:
                out.extend(c[2] if c[0] == "bool" and c[1] == "and" else [c])
            return out

        pc, ic, sc = flat(conds["parameters"]), flat(conds["intermediates"]), flat(conds["states"])
        is_num = [c for c in pc if c[0] == "attr" and c[2] == "is_Number"]
        not_num = [c for c in ic if c[0] == "not" and c[1][0] == "attr" and c[1][2] == "is_Number"]
        pv = kw(pr[0]).get("value")
        okp = bool(is_num) and bool(not_num) and is_num[0] == not_num[0][1] and pv is not None and pv[0] == "mcall" and pv[2] == "value" and not pv[3]
        ctx.check(okp, rule, f.key("parameter-split"), "a variable whose rhs is a number is a parameter with that value", "the parameter / intermediate split is not `rhs.is_Number` (parameter, with value var.value()) versus its negation (intermediate)", f.where())
        skip = lambda cs: any(c[0] == "cmp" and c[1] == "!=" and c[3] == _av.C("time") for c in cs)  # noqa: E731
        ctx.check(skip(pc) and skip(ic) and skip(sc), rule, f.key("time"), "the time variable is skipped", "the time variable is no longer skipped for every kind of atom", f.where())
    else:
        ctx.undecided(rule, f.key("parameter-split"), "the conditions under which atoms are collected are not understood", f.where())
        ctx.undecided(rule, f.key("time"), "the conditions under which atoms are collected are not understood", f.where())


def _mentions(v, t) -> bool:
    if v == t:
        return True
    return isinstance(v, tuple) and any(_mentions(x, t) for x in v if isinstance(x, tuple))
