"""Shape-tolerant helpers for the rule modules: every analysis of a function's statements goes through the loop
normal form (comprehensions unrolled, package-local helpers inlined) and compares expressions after def-use
canonicalisation, so that renaming locals, hoisting sub-expressions or extracting helpers does not matter."""

from __future__ import annotations

import ast

from sa.canon import Canon
from sa.core import Ctx
from sa.inline import inlined
from sa.sm import Func, call_kw, const_str, dotted, fstring_skeleton, norm, walk_no_nested


def nf(ctx: Ctx, short: str, qualname: str) -> Func:
    return inlined(ctx.sm, ctx.sm.func(short, qualname))


def nff(ctx: Ctx, f: Func) -> Func:
    return inlined(ctx.sm, f)


def canon_of(f: Func) -> Canon:
    c = f.__dict__.get("_canon")
    if c is None:
        c = Canon(f.node)
        f.__dict__["_canon"] = c
    return c


def ctext(f: Func, node) -> str:
    """canonical text of an expression inside f (self.ode / ode receivers are kept as written)"""
    return canon_of(f).text(node) if node is not None else ""


def template_method_call(f: Func) -> ast.Call | None:
    for c in ast.walk(f.node):
        if isinstance(c, ast.Call) and isinstance(c.func, ast.Attribute) and c.func.attr == "method" and (dotted(c.func.value) or "").endswith("template"):
            return c
    return None


def flows(func_node) -> dict[str, set[str]]:
    """name -> names its value may depend on (assignments, augmented assignments, mutating method calls, loops)."""
    deps: dict[str, set[str]] = {}

    def names(e):
        return {x.id for x in ast.walk(e) if isinstance(x, ast.Name)} if e is not None else set()

    changed = True
    edges: list[tuple[str, set[str]]] = []
    for n in ast.walk(func_node):
        if isinstance(n, ast.Assign):
            for t in n.targets:
                for x in ast.walk(t):
                    if isinstance(x, ast.Name):
                        edges.append((x.id, names(n.value)))
        elif isinstance(n, ast.AnnAssign) and n.value is not None:
            for x in ast.walk(n.target):
                if isinstance(x, ast.Name):
                    edges.append((x.id, names(n.value)))
        elif isinstance(n, ast.AugAssign):
            for x in ast.walk(n.target):
                if isinstance(x, ast.Name):
                    edges.append((x.id, names(n.value) | {x.id}))
        elif isinstance(n, (ast.For, ast.comprehension)):
            for x in ast.walk(n.target):
                if isinstance(x, ast.Name):
                    edges.append((x.id, names(n.iter)))
        elif isinstance(n, ast.Call) and isinstance(n.func, ast.Attribute) and isinstance(n.func.value, ast.Name) and n.func.attr in ("append", "extend", "insert", "add", "update", "setdefault"):
            src = set()
            for a in list(n.args) + [k.value for k in n.keywords]:
                src |= names(a)
            edges.append((n.func.value.id, src))
    for k, v in edges:
        deps.setdefault(k, set()).update(v)
    while changed:
        changed = False
        for k in list(deps):
            new = set(deps[k])
            for d in list(deps[k]):
                new |= deps.get(d, set())
            if new != deps[k]:
                deps[k] = new
                changed = True
    return deps


def depends_on(func_node, expr, name: str) -> bool:
    d = flows(func_node)
    for x in ast.walk(expr):
        if isinstance(x, ast.Name) and (x.id == name or name in d.get(x.id, set())):
            return True
    return False


def fstr(f: Func, node, depth: int = 4) -> str | None:
    """Skeleton of an (f-)string with placeholders that are locals bound once to another (f-)string inlined."""
    c = canon_of(f)
    if isinstance(node, ast.Name) and node.id in c.defs:
        return fstr(f, c.defs[node.id], depth - 1) if depth > 0 else None
    if isinstance(node, ast.Constant) and isinstance(node.value, str):
        return node.value
    if isinstance(node, ast.JoinedStr):
        out = []
        for v in node.values:
            if isinstance(v, ast.Constant):
                out.append(str(v.value))
            elif isinstance(v, ast.FormattedValue):
                inner = None
                if isinstance(v.value, ast.Name) and v.value.id in c.defs and depth > 0:
                    d = c.defs[v.value.id]
                    if isinstance(d, (ast.JoinedStr, ast.Constant)) and (not isinstance(d, ast.Constant) or isinstance(d.value, str)):
                        inner = fstr(f, d, depth - 1)
                out.append(inner if inner is not None else "{" + norm(v.value) + "}")
        return "".join(out)
    if isinstance(node, ast.BinOp) and isinstance(node.op, ast.Add):
        l, r = fstr(f, node.left, depth), fstr(f, node.right, depth)
        if l is not None and r is not None:
            return l + r
    return None


def strip_int(node):
    while isinstance(node, ast.Call) and isinstance(node.func, ast.Name) and node.func.id == "int" and len(node.args) == 1:
        node = node.args[0]
    return node


# ---------------------------------------------------------------------------------------------------------
# abstract values (sa.av): what a builder function computes, independent of how it is spelled

from sa import av as _av  # noqa: E402
from sa import tm as _tm  # noqa: E402


def AV(ctx: Ctx, everything: bool = False) -> "_av.AV":
    key = "_av_all" if everything else "_av"
    a = ctx.__dict__.get(key)
    if a is None:
        a = _av.AV(ctx.sm, inline=(lambda callee: True) if everything else None, cha=everything)
        ctx.__dict__[key] = a
    return a


def value_of(ctx: Ctx, f: Func, args: dict | None = None, everything: bool = False):
    """Abstract value returned by f (cached per function / arguments)."""
    cache = ctx.__dict__.setdefault("_av_values", {})
    k = (f.rel, f.qualname, tuple(sorted((args or {}).items())), everything)
    if k not in cache:
        cache[k] = AV(ctx, everything).returned(f, args)[0]
    return cache[k]


def skeleton(ctx: Ctx, rule: str, short: str, name: str, args: dict | None = None):
    """Resolved text skeleton of a template function; None (and an 'undecided' record) when it is not one text."""
    T = ctx.__dict__.get("_tmodel")
    if T is None:
        T = _tm.TemplateModel(ctx.sm)
        ctx.__dict__["_tmodel"] = T
    try:
        return T.skeleton(short, name, args)
    except _tm.Undecided as e:
        ctx.undecided(rule, f"src/gotranx/{short}::{name}::skeleton", str(e))
        return None


def squash(text: str) -> str:
    import re

    return re.sub(r"\s+", " ", text).strip()


def call_kwargs(v, name: str | None = None) -> dict | None:
    """kwargs of an opaque call value ``name(...)``"""
    if isinstance(v, tuple) and v and v[0] == "call" and (name is None or v[1].split(".")[-1] == name):
        return dict(v[3])
    return None


def find_calls_av(v, name: str) -> list:
    return [c for c in _av.find_all(v, "call") if c[1].split(".")[-1] == name] + [c for c in _av.find_all(v, "mcall") if c[2] == name]


def strings_in(v) -> list[str]:
    """flat text of every string-valued sub-term"""
    out = []

    def rec(x):
        if isinstance(x, tuple) and x:
            if x[0] == "s" or (x[0] == "c" and isinstance(x[1], str)):
                out.append(_av.flatten(x).replace(_av.HO, "{").replace(_av.HC, "}"))
                if x[0] == "c":
                    return
            for y in x:
                rec(y)

    rec(v)
    return out


def av_size_family(v) -> str | None:
    from sa import slots

    if v[0] == "list" and len(v[1]) == 1:
        v = v[1][0]
    while v[0] == "call" and v[1] == "int" and len(v[2]) == 1:
        v = v[2][0]
    t = _av.show(v)
    if t.startswith("(") and t.endswith(")"):
        t = t[1:-1]
    t = t.replace("self.ode.", "ODE.").replace("ode.", "ODE.")
    for fam, texts in slots.SIZE_CLASSES.items():
        if t in texts:
            return fam
    return None


def av_term(v, atoms: dict | None = None, repl: dict | None = None, env: dict | None = None):
    """AC-normalised algebraic term (sa.te) of an abstract value (through its rendering)."""
    from sa import te

    text = _av.show(v)
    for k, r in (repl or {}).items():
        text = text.replace(k, r)
    return te.parse_term(text, env=env, atoms=atoms)


def verdict(v, wants) -> str:
    """'ok' (v is one of the accepted values), 'unknown' (v is partly not understood and could still be one of
    them), 'bad' (v differs from every accepted value whatever its unknown parts are)."""
    wants = list(wants)
    if v in wants:
        return "ok"
    v = _av.distribute_ifs(v)
    wants = [_av.distribute_ifs(w) for w in wants]
    if v in wants:
        return "ok"
    if _av.has_unk(v) and any(_av.compatible(v, w) for w in wants):
        return "unknown"
    return "bad"


# ---------------------------------------------------------------------------------------------------------
# reference implementations: "this function computes what the vetted version computed"


def reference_value(ctx: Ctx, short: str, qualname: str, ref_src: str, args: dict | None = None, everything: bool = False, with_func: bool = False):
    """Abstract value of the vetted reference text of a function, evaluated in the *current* module (so that the
    helpers, imports and module constants it refers to are today's)."""
    import textwrap

    from sa.sm import SourceModel

    cache = ctx.__dict__.setdefault("_ref_values", {})
    key = (short, qualname, ref_src, tuple(sorted((args or {}).items())), everything, with_func)
    if key in cache:
        return cache[key]
    f = ctx.sm.func(short, qualname)
    rel = f.rel
    text = ctx.sm.text[rel]
    lines = text.split("\n")
    start = min([f.node.lineno] + [d.lineno for d in f.node.decorator_list]) - 1
    end = f.node.end_lineno
    indent = len(lines[f.node.lineno - 1]) - len(lines[f.node.lineno - 1].lstrip())
    new = textwrap.indent(textwrap.dedent(ref_src).strip("\n"), " " * indent).split("\n")
    overlay = dict(getattr(ctx.sm, "overlay", {}) or {})
    overlay.update(ctx.sm.text)  # the texts as analysed (renames already normalised)
    overlay[rel] = "\n".join(lines[:start] + new + lines[end:])
    sm2 = SourceModel(ctx.repo, overlay=overlay, normalise_renames=False)
    # the reference keeps its own name: it stands where the function stands (same module, class or enclosing function)
    import re as _re

    m_ = _re.search(r"^\s*def\s+(\w+)", textwrap.dedent(ref_src), _re.M)
    q2 = ".".join(qualname.split(".")[:-1] + [m_.group(1)]) if m_ else qualname
    f2 = sm2.func(short, q2, required=False) or sm2.func(short, qualname)
    val = (_av.AV(sm2, inline=lambda callee: True, cha=True) if everything else _av.AV(sm2)).returned(f2, args)[0]
    if with_func:
        val = (val, f2)
    cache[key] = val
    return val


def bind_calls(ctx: Ctx, v):
    """calls of package functions with their arguments bound to parameter names (a keyword written positionally, or
    the other way round, is the same call): ('call', name, (), sorted kwargs) when the name resolves to exactly one
    module-level function of the package without *args"""
    table = ctx.__dict__.get("_func_by_name")
    if table is None:
        table = {}
        for f in ctx.sm.all_funcs():
            if "." not in f.qualname:
                table.setdefault(f.name, []).append(f)
        ctx.__dict__["_func_by_name"] = table

    def rec(t):
        if not isinstance(t, tuple) or not t:
            return t
        if not isinstance(t[0], str):
            return tuple(rec(x) if isinstance(x, tuple) else x for x in t)
        t = (t[0],) + tuple(rec(x) if isinstance(x, tuple) else x for x in t[1:])
        if t[0] == "call" and len(t) == 4:
            cands = table.get(t[1].split(".")[-1], [])
            if len(cands) == 1 and not cands[0].node.args.vararg and not any(a[0] == "spread" for a in t[2]):
                params = [x.arg for x in cands[0].node.args.posonlyargs + cands[0].node.args.args]
                if len(t[2]) <= len(params):
                    kw = dict(t[3])
                    okb = True
                    for p_, a_ in zip(params, t[2]):
                        if p_ in kw:
                            okb = False
                        kw[p_] = a_
                    if okb:
                        # names are decorated so that a parameter called `s`, `c`, `if` ... is not mistaken for a term tag
                        return ("call", t[1], (), tuple(sorted(((k_ + "=", x_) for k_, x_ in kw.items()), key=lambda kv: kv[0])))
        return t

    return rec(v)


def same_as_reference(ctx: Ctx, rule: str, short: str, qualname: str, ref_src: str, key: str, what_ok: str, what_fail: str, args: dict | None = None, project=None) -> str:
    """ok / fail / undecided record: the function's abstract value equals that of the vetted reference text
    (optionally after a projection `project(value)` that keeps the part the rule is about)."""
    f = ctx.sm.func(short, qualname)
    cur = value_of(ctx, f, args)
    ref = reference_value(ctx, short, qualname, ref_src, args)
    if project is not None:
        cur, ref = project(cur), project(ref)
    vd = verdict(cur, [ref])
    if vd == "bad" and verdict(bind_calls(ctx, cur), [bind_calls(ctx, ref)]) == "ok":
        vd = "ok"  # the same calls, arguments spelled positionally / by keyword
    if vd == "bad":
        # second chance: the difference may be a helper that one side calls and the other spells out - expand every
        # package function both sides call (also public ones; methods by unique name) and compare again.  Equal values
        # after expansion are equal functions; anything else leaves the first verdict.
        try:
            cur2 = value_of(ctx, f, args, everything=True)
            ref2 = reference_value(ctx, short, qualname, ref_src, args, everything=True)
            if project is not None:
                cur2, ref2 = project(cur2), project(ref2)
            if not _av.has_unk(cur2) and verdict(cur2, [ref2]) == "ok":
                vd = "ok"
        except Exception:
            pass
    k = f.key(key)
    if vd == "unknown":
        ctx.undecided(rule, k, f"what {qualname} computes is not understood ({(_av.find_all(cur, 'unk') or [('', '?')])[0][1]})", f.where())
    else:
        ctx.check(vd == "ok", rule, k, what_ok, f"{what_fail} (it computes {_av.show(cur)[:220]}; vetted: {_av.show(ref)[:220]})", f.where())
    return vd


def alpha_text(node_or_text) -> str:
    """text with the variables of comprehensions renamed positionally (a renamed loop variable is the same text)"""
    import copy

    tree = ast.parse(node_or_text, mode="eval").body if isinstance(node_or_text, str) else copy.deepcopy(node_or_text)
    counter = [0]

    def rename(node, mapping):
        if isinstance(node, (ast.ListComp, ast.SetComp, ast.GeneratorExp, ast.DictComp)):
            m2 = dict(mapping)
            for g in node.generators:
                rename(g.iter, m2)
                for x in ast.walk(g.target):
                    if isinstance(x, ast.Name):
                        counter[0] += 1
                        m2[x.id] = f"_c{counter[0]}"
                for x in ast.walk(g.target):
                    if isinstance(x, ast.Name):
                        x.id = m2[x.id]
                for c in g.ifs:
                    rename(c, m2)
            for fld in ("elt", "key", "value"):
                if hasattr(node, fld):
                    rename(getattr(node, fld), m2)
            return
        if isinstance(node, ast.Name) and node.id in mapping:
            node.id = mapping[node.id]
            return
        for ch in ast.iter_child_nodes(node):
            rename(ch, mapping)

    rename(tree, {})
    return norm(tree)


def dispatch_cases(v, keyterm) -> dict:
    """A value that dispatches on `keyterm == <constant>` / `keyterm in (<constants>)`: {constant: value for it}.
    The special key None is the value when keyterm equals none of the constants."""
    consts = []

    def collect(x):
        if isinstance(x, tuple) and x:
            if x[0] == "cmp" and x[2] == keyterm and x[3][0] == "c":
                if x[1] in ("==", "!=") and x[3][1] not in consts:
                    consts.append(x[3][1])
                elif x[1] in ("in", "not in") and isinstance(x[3][1], (tuple, list)):
                    for k in x[3][1]:
                        if k not in consts:
                            consts.append(k)
            for y in x:
                collect(y)

    collect(v)

    def specialise(x, k):
        if isinstance(x, tuple) and x:
            if x[0] == "cmp" and x[2] == keyterm and x[3][0] == "c":
                if x[1] == "==":
                    return _av.C(k is not None and x[3][1] == k)
                if x[1] == "!=":
                    return _av.C(not (k is not None and x[3][1] == k))
                if x[1] in ("in", "not in") and isinstance(x[3][1], (tuple, list)):
                    r = k is not None and k in x[3][1]
                    return _av.C(r if x[1] == "in" else not r)
            new = tuple(specialise(y, k) for y in x)
            return _av.renorm(new) if new != x else x
        return x

    out = {k: specialise(v, k) for k in consts}
    out[None] = specialise(v, None)
    return out


def text_of(ctx: Ctx, f: Func, args: dict | None = None) -> str | None:
    """flat text of the string a function returns ({hole} for non-literal parts, through self._format /
    indent / dedent wrappers), or None when it is not understood"""
    v = value_of(ctx, f, args)
    while v[0] == "mcall" and v[2] in ("_format", "_formatter") and len(v[3]) == 1:
        v = v[3][0]
    if _av.has_unk(v) or not _av._is_str(v):
        return None
    return _av.flatten(v).replace(_av.HO, "{").replace(_av.HC, "}")


def printed_text(ctx: Ctx, f: Func) -> str | None:
    """flat text of what a printer method prints: the string it returns, or the string it hands on to the generic
    `self._print(<text>)` (a str is printed as itself); None when not understood"""
    v = value_of(ctx, f)
    if v[0] == "mcall" and v[2] == "_print" and len(v[3]) == 1 and _av._is_str(v[3][0]):
        v = v[3][0]
    if _av.has_unk(v) or not _av._is_str(v):
        return None
    return _av.flatten(v).replace(_av.HO, "{").replace(_av.HC, "}")


def module_constants(ctx: Ctx, rel: str) -> dict:
    """module-level names bound exactly once to a literal (str / int / float / bool / None)"""
    mod = ctx.sm.modules.get(rel)
    out, seen = {}, {}
    if mod is None:
        return out
    for st in mod.body:
        tg = st.targets if isinstance(st, ast.Assign) else ([st.target] if isinstance(st, ast.AnnAssign) and st.value is not None else [])
        for t in tg:
            if isinstance(t, ast.Name):
                seen[t.id] = seen.get(t.id, 0) + 1
                if isinstance(st.value, ast.Constant):
                    out[t.id] = st.value.value
    return {k: v for k, v in out.items() if seen.get(k) == 1}


def norm_with_constants(ctx: Ctx, f: Func, node) -> str:
    """normalised text of `node` with module-level named constants replaced by their literal"""
    import copy

    from sa.sm import norm as _norm

    consts = module_constants(ctx, f.rel)
    bound = set(f.params) | {t.id for n in ast.walk(f.node) for t in ast.walk(n) if isinstance(t, ast.Name) and isinstance(t.ctx, ast.Store)}

    class R(ast.NodeTransformer):
        def visit_Name(self, n):
            if isinstance(n.ctx, ast.Load) and n.id in consts and n.id not in bound:
                return ast.copy_location(ast.Constant(consts[n.id]), n)
            return n

    return _norm(ast.fix_missing_locations(R().visit(copy.deepcopy(node))))


def case_split(v, limit: int = 3):
    """[(conditions, value)]: `v` specialised for every truth assignment of the (at most `limit`) distinct conditions
    of the conditional terms inside it - wherever they stand (an operand, an argument, a subscripted pair).  None when
    there are more conditions than `limit`."""
    import itertools

    from sa import av as _a

    conds = []
    for t in _a.find_all(v, "if"):
        if t[1] not in conds:
            conds.append(t[1])
    if len(conds) > limit:
        return None

    def spec(t, assign):
        if not isinstance(t, tuple) or not t:
            return t
        if isinstance(t[0], str) and t[0] == "if" and len(t) == 4 and t[1] in assign:
            return spec(t[2] if assign[t[1]] else t[3], assign)
        return tuple(spec(x, assign) if isinstance(x, tuple) else x for x in t)

    out = []
    for bits in itertools.product((True, False), repeat=len(conds)):
        assign = dict(zip(conds, bits))
        val = spec(v, assign)
        if _a.find_all(val, "if"):
            return None
        out.append((tuple(c if b else _a.mk_not(c) for c, b in assign.items()), _a.renorm_deep(val)))
    return out


def expand_isinstance(v):
    """isinstance(x, (A, B)) -> isinstance(x, A) or isinstance(x, B), everywhere in v (a projection for rules that compare
    type tests; the evaluator keeps the tuple form because other rules read it)."""
    if not isinstance(v, tuple) or not v:
        return v
    new = tuple(expand_isinstance(x) if isinstance(x, tuple) else x for x in v)
    if new[0] == "call" and new[1] == "isinstance" and len(new[2]) == 2 and new[2][1][0] == "list" and len(new[2][1][1]) >= 2 and not any(i_[0] in ("spread", "when") for i_ in new[2][1][1]):
        out = None
        for k_ in new[2][1][1]:
            one = ("call", "isinstance", (new[2][0], k_), ())
            out = one if out is None else _av.mk_or(out, one)
        return out
    return _av.renorm(new) if new != v and isinstance(new[0], str) else new
