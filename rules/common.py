"""Helpers shared by several rule modules."""

from __future__ import annotations

import ast

from sa import schemes_model as S
from sa import te
from sa.core import AnalysisError, Ctx
from sa.sm import Func, call_kw, const_str, dotted, find_calls, norm, walk_no_nested


# ---------------------------------------------------------------------------
# scheme models (cached per context)

def scheme_models(ctx: Ctx) -> dict[str, S.SchemeModel]:
    """Path tables of the scheme builders.  A builder whose loop structure the path model does not understand is
    left out (ctx._scheme_model_errors says why); check_single_pass judges its structure on abstract values."""
    if "scheme_models" not in ctx.__dict__:
        ctx.scheme_models = {}
        ctx._scheme_model_errors = {}
        for f in S.scheme_builders(ctx.sm):
            try:
                ctx.scheme_models[f.name] = S.build(ctx.sm, f)
            except AnalysisError as e:
                ctx._scheme_model_errors[f.name] = str(e)
    return ctx.scheme_models


def check_single_pass(ctx: Ctx, rule: str, builder_name: str) -> bool:
    """The equations a builder returns are ONE pass over ode.sorted_assignments(remove_unused=remove_unused) in which
    every assignment is printed first, unconditionally, as `symbol = expr` (so that every definition precedes its
    uses whatever refers to whatever).  Judged on the builder's abstract value."""
    from sa import av

    from . import util

    from sa import schemes_model as _S

    f = ctx.sm.func("schemes.py", builder_name)
    v = _S.builder_value(ctx.sm, f)
    key = f.key("single-pass")
    inner = av._unwrap_seq(v)
    if av.has_unk(v) and inner[0] != "comp":
        ctx.undecided(rule, key, f"what {builder_name} returns is not understood ({av.find_all(v, 'unk')[0][1]})", f.where())
        return False
    ok, why = False, ""
    if inner[0] == "comp":
        bv = ("bv", inner[1])
        it = inner[2]
        it_ok = it[0] == "mcall" and it[1] == ("sym", f.params[0]) and it[2] == "sorted_assignments" and (dict(it[4]).get("remove_unused", it[3][0] if it[3] else None) == ("sym", "remove_unused")) and not inner[4]
        first = inner[3][0] if inner[3] else None
        first_ok = first is not None and first[0] == "call" and first[1] == "printer" and first[2][:2] == (("attr", bv, "symbol"), ("attr", bv, "expr"))
        ok = it_ok and first_ok
        if not it_ok:
            why = f"it iterates {av.show(it)[:100]}" + (f" filtered by {[av.show(c)[:60] for c in inner[4]]}" if inner[4] else "")
        elif not first_ok:
            why = f"the first thing printed for an assignment is {av.show(first)[:100] if first else None}"
    else:
        why = f"the equations are {av.show(v)[:220]}"
        # the equations are collected by a helper object (its methods print and append): not a shape this rule reads
        ctor = [c_ for c_ in av.find_all(v, "call") if c_[1].split(".")[-1][:1] == "_" and c_[1].split(".")[-1].lstrip("_")[:1].isupper() or ctx.sm.classes.get((f.rel, c_[1].split(".")[-1])) is not None]
        if ctor or av.find_all(v, "ev") or av.find_all(v, "obj"):
            ctx.undecided(rule, key, f"{builder_name} collects its equations through a helper object ({av.show(v)[:80]}); the pass structure is not judged", f.where())
            return False
    ctx.check(ok, rule, key, "one pass over ode.sorted_assignments(remove_unused=remove_unused); each assignment printed first", f"{builder_name} does not emit its equations in one pass over the dependency-sorted assignments with every assignment printed as it is met ({why}): an assignment that refers to a state derivative (or any later definition) is printed before that definition", f.where())
    return ok


def alias_table(ctx: Ctx) -> tuple[Func, dict[str, str]]:
    """alias string -> builder function name: get_scheme is specialised (abstract evaluation, sa.av) for every
    string constant of schemes.py; the builder whose code object ends up in the returned function is the target.
    Independent of whether the aliases sit in an if/elif chain, a table or a dict."""
    from sa import av
    from sa import schemes_model as S

    cached = ctx.__dict__.get("_alias_table")
    if cached is not None:
        return cached
    f = ctx.sm.func("schemes.py", "get_scheme")
    builders = {b.name for b in S.scheme_builders(ctx.sm)}
    cands = sorted({n.value for n in ast.walk(ctx.sm.module("schemes.py")) if isinstance(n, ast.Constant) and isinstance(n.value, str) and n.value.isidentifier()})
    A = av.AV(ctx.sm)
    table: dict[str, str] = {}
    values: dict[str, tuple] = {}
    unknown = []
    for a_ in cands:
        v, _ = A.returned(f, {f.params[0]: av.C(a_)})
        if v[0] == "raise":
            continue
        heads = {x[1].split(".")[0] for x in av.find_all(v, "sym")} & builders
        if len(heads) == 1 and not av.has_unk(v):
            table[a_] = heads.pop()
            values[a_] = v
        elif av.has_unk(v):
            unknown.append(a_)
    if not table:
        if unknown:
            # the selection is not understood: fall back to the builders' own names and say so
            ctx.undecided(list(ctx.rules_applied)[-1] if ctx.rules_applied else "R?", f.key("alias-table"), "how get_scheme selects the builder is not understood; builders are taken by their own names")
            table = {b: b for b in builders}
        else:
            raise AnalysisError("could not read the alias table of schemes.get_scheme (no string constant selects a builder)")
    ctx.__dict__["_alias_table"] = (f, table)
    ctx.__dict__["_alias_values"] = values
    ctx.__dict__["_alias_attr_stores"] = list(A.attr_stores)
    return f, table


def enum_values(ctx: Ctx, short: str, clsname: str) -> dict[str, str]:
    c = ctx.sm.cls(short, clsname)
    out = {}
    for st in c.node.body:
        if isinstance(st, ast.Assign) and len(st.targets) == 1 and isinstance(st.targets[0], ast.Name):
            v = const_str(st.value)
            if v is not None:
                out[st.targets[0].id] = v
    return out


def expected_builder(alias: str) -> str:
    """The family an alias belongs to, by the documented naming scheme."""
    if "generalized_rush_larsen" in alias:
        return "generalized_rush_larsen"
    if "rush_larsen" in alias:
        return "hybrid_rush_larsen"
    if "euler" in alias:
        return "explicit_euler"
    return "?"


# ---------------------------------------------------------------------------
# enclosing-condition chains

def cond_chain(func_node, target) -> list[tuple[str, bool]] | None:
    """Conditions (normalised text, polarity) of the If statements enclosing ``target``."""

    def rec(stmts, chain):
        for st in stmts:
            if st is target:
                return chain
            if isinstance(st, ast.If):
                r = rec(st.body, chain + [(norm(st.test), True)])
                if r is not None:
                    return r
                r = rec(st.orelse, chain + [(norm(st.test), False)])
                if r is not None:
                    return r
            elif isinstance(st, (ast.For, ast.While)):
                r = rec(st.body, chain + [("loop:" + norm(st.iter if isinstance(st, ast.For) else st.test), True)])
                if r is not None:
                    return r
                r = rec(st.orelse, chain + [("loopelse:" + norm(st.iter if isinstance(st, ast.For) else st.test), True)])
                if r is not None:
                    return r
            elif isinstance(st, ast.Try):
                for blk in (st.body, st.orelse, st.finalbody):
                    r = rec(blk, chain)
                    if r is not None:
                        return r
                for h in st.handlers:
                    r = rec(h.body, chain + [("except:" + (norm(h.type) if h.type else "*"), True)])
                    if r is not None:
                        return r
            elif isinstance(st, ast.With):
                r = rec(st.body, chain)
                if r is not None:
                    return r
        return None

    return rec(func_node.body, [])


def stmts_of(func_node):
    """All statements of a function (not descending into nested defs), in source order."""
    out = []

    def rec(stmts):
        for st in stmts:
            out.append(st)
            if isinstance(st, (ast.FunctionDef, ast.AsyncFunctionDef, ast.ClassDef)):
                continue
            for fld in ("body", "orelse", "finalbody"):
                if hasattr(st, fld) and isinstance(getattr(st, fld), list):
                    rec(getattr(st, fld))
            if isinstance(st, ast.Try):
                for h in st.handlers:
                    rec(h.body)

    rec(func_node.body)
    return out


# ---------------------------------------------------------------------------
# keyword forwarding

def forwards(call: ast.Call, kw: str, value_name: str) -> bool:
    """Does ``call`` pass keyword ``kw`` whose value is (derived only from) local ``value_name``?"""
    v = call_kw(call, kw)
    if v is None:
        return False
    return value_name in {n.id for n in ast.walk(v) if isinstance(n, ast.Name)}


# ---------------------------------------------------------------------------
# add_schemes: which keyword arguments does each scheme receive?

def _eval_cond(node, svalue: str, svar: str):
    """Evaluate a condition over `<svar>.value` / `<svar>` with the scheme value known; None if undecidable."""
    if isinstance(node, ast.BoolOp):
        vals = [_eval_cond(v, svalue, svar) for v in node.values]
        if any(v is None for v in vals):
            return None
        return all(vals) if isinstance(node.op, ast.And) else any(vals)
    if isinstance(node, ast.UnaryOp) and isinstance(node.op, ast.Not):
        v = _eval_cond(node.operand, svalue, svar)
        return None if v is None else (not v)
    if isinstance(node, ast.Compare) and len(node.ops) == 1:
        def val(n):
            if isinstance(n, ast.Constant) and isinstance(n.value, str):
                return n.value
            d = dotted(n)
            if d in (f"{svar}.value", svar, f"{svar}.name"):
                return svalue
            if d and d.startswith("Scheme."):
                return d.split(".", 1)[1]
            if isinstance(n, (ast.List, ast.Tuple, ast.Set)):
                items = [val(e) for e in n.elts]
                return None if any(i is None for i in items) else items
            return None
        l, r = val(node.left), val(node.comparators[0])
        if l is None or r is None:
            return None
        op = node.ops[0]
        if isinstance(op, ast.In):
            return l in r
        if isinstance(op, ast.NotIn):
            return l not in r
        if isinstance(op, (ast.Eq, ast.Is)):
            return l == r
        if isinstance(op, (ast.NotEq, ast.IsNot)):
            return l != r
    if isinstance(node, ast.Call) and isinstance(node.func, ast.Attribute) and node.func.attr in ("startswith", "endswith") and node.args:
        d = dotted(node.func.value)
        a = node.args[0]
        if d in (f"{svar}.value", svar) and isinstance(a, ast.Constant) and isinstance(a.value, str):
            return svalue.startswith(a.value) if node.func.attr == "startswith" else svalue.endswith(a.value)
    return None


def kwargs_per_scheme(ctx: Ctx, values: list[str]) -> tuple[Func, dict[str, dict | None]]:
    """For each scheme value: {kwarg name -> text of the value} that add_schemes passes to codegen.scheme, or None if
    it cannot be decided.  add_schemes is evaluated (abstract values, helpers expanded) for a one-element scheme list
    holding that member of the Scheme enum - constant propagation through whatever way the keyword arguments are built."""
    from sa import av

    add0 = ctx.sm.func("cli/utils.py", "add_schemes")
    enum = enum_values(ctx, "schemes.py", "Scheme")
    by_value = {v: k for k, v in enum.items()}
    A = av.AV(ctx.sm, inline=lambda callee: callee.rel.endswith("cli/utils.py"))
    out: dict[str, dict | None] = {}
    for v in values:
        member = ("enum", "Scheme", by_value.get(v, v), v)
        val, _env = A.returned(add0, {add0.params[1]: ("list", (member,))})
        calls = [c for c in av.find_all(val, "mcall") if c[2] == "scheme"]
        if len(calls) != 1:
            out[v] = None
            continue
        kw = {}
        ok = True
        for k, x in calls[0][4]:
            if k == "**" or av.has_unk(x):
                ok = False
            else:
                kw[k] = av.show(x)
        out[v] = kw if ok else None
    return add0, out


STANDARD_BUILDER_PARAMS = ("ode", "dt", "name", "printer", "remove_unused")


def check_scheme_kwargs(ctx: Ctx, rule: str, option: str, only_builders=None):
    """For every Scheme enum value: add_schemes passes `option` (bound to the option variable) iff the builder takes it."""
    models = scheme_models(ctx)
    gs, table = alias_table(ctx)
    enum = enum_values(ctx, "schemes.py", "Scheme")
    add, per = kwargs_per_scheme(ctx, sorted(enum.values()))
    for v in sorted(enum.values()):
        builder = table.get(v)
        if builder not in models:
            continue
        if only_builders is not None and builder not in only_builders:
            continue
        takes = option in models[builder].func.params
        kw = per[v]
        key = add.key(f"{option}::{v}")
        if kw is None:
            ctx.fail(rule, key, f"add_schemes: cannot decide which keyword arguments scheme '{v}' receives (condition not over the scheme's name)", add.where())
            continue
        passed = kw.get(option)
        if takes:
            ctx.check(
                passed == option,
                rule,
                key,
                f"'{v}' receives {option}={option}",
                f"add_schemes passes {option}={passed!r} for scheme '{v}' but its builder {builder} takes `{option}`: the user's {option} option is not honoured for this scheme",
                add.where(),
            )
        else:
            ctx.check(
                passed is None,
                rule,
                key,
                f"'{v}' does not take {option}",
                f"add_schemes passes {option} for scheme '{v}' whose builder {builder} has no such parameter",
                add.where(),
            )


def check_scheme_independence(ctx: Ctx, rule: str):
    """What a scheme receives does not depend on the schemes requested before it: add_schemes is evaluated for every ordered
    pair of Scheme members, and the keyword arguments of the second call are those of that scheme requested alone (a
    dict of keyword arguments kept across the iterations leaks `delta` / `stiff_states` into a later explicit Euler)."""
    from sa import av

    add0 = ctx.sm.func("cli/utils.py", "add_schemes")
    enum = enum_values(ctx, "schemes.py", "Scheme")
    A = av.AV(ctx.sm, inline=lambda callee: callee.rel.endswith("cli/utils.py"))

    def calls_for(members):
        val, _env = A.returned(add0, {add0.params[1]: ("list", tuple(("enum", "Scheme", k, v) for k, v in members))})
        if av.has_unk(val):
            return None
        cs = [c for c in av.find_all(val, "mcall") if c[2] == "scheme"]
        # the list is built in order: the calls appear in the value in request order
        return cs

    items = sorted(enum.items())
    alone = {}
    for k, v in items:
        cs = calls_for([(k, v)])
        alone[k] = cs[0][4] if cs and len(cs) == 1 else None
    n = 0
    for k1, v1 in items:
        for k2, v2 in items:
            if k1 == k2 or alone[k1] is None or alone[k2] is None:
                continue
            cs = calls_for([(k1, v1), (k2, v2)])
            key = add0.key(f"independent::{v1}->{v2}")
            if cs is None or len(cs) != 2:
                ctx.undecided(rule, key, f"add_schemes for [{v1}, {v2}] is not understood", add0.where())
                continue
            n += 1
            ctx.check(cs[1][4] == alone[k2], rule, key, f"{v2} after {v1} receives what it receives alone", f"add_schemes: requested after '{v1}', scheme '{v2}' receives {[kk for kk, _ in cs[1][4]]} instead of {[kk for kk, _ in alone[k2]]}: keyword arguments are carried over from the scheme before it (generation fails with a TypeError, or a scheme silently gets another scheme's option)", add0.where())
    if not n:
        ctx.undecided(rule, add0.key("independent"), "add_schemes could not be evaluated for pairs of schemes", add0.where())


# ---------------------------------------------------------------------------
# purity helpers

MUTATORS = {"append", "extend", "insert", "remove", "pop", "clear", "sort", "reverse", "add", "discard", "update", "setdefault", "popitem", "difference_update", "intersection_update", "symmetric_difference_update", "__setitem__", "__delitem__"}


def param_mutations(f: Func) -> list[tuple[ast.AST, str]]:
    """Statements of ``f`` that modify an object received as argument (directly or through a plain local alias)."""
    params = {p for p in f.params if p not in ("self", "cls")}
    alias: dict[str, str] = {}
    changed = True
    while changed:
        changed = False
        for n in walk_no_nested(f.node):
            if isinstance(n, ast.Assign) and len(n.targets) == 1 and isinstance(n.targets[0], ast.Name) and isinstance(n.value, ast.Name):
                src = n.value.id
                root = src if src in params else alias.get(src)
                if root and n.targets[0].id not in params and alias.get(n.targets[0].id) != root:
                    # only a *pure* alias counts: the local is never rebound to anything else
                    others = [a for a in walk_no_nested(f.node) if isinstance(a, (ast.Assign, ast.AugAssign, ast.AnnAssign)) and a is not n and any(isinstance(x, ast.Name) and x.id == n.targets[0].id and isinstance(x.ctx, ast.Store) for t in (a.targets if isinstance(a, ast.Assign) else [a.target]) for x in ast.walk(t))]
                    if not others:
                        alias[n.targets[0].id] = root
                        changed = True
    # parameters that are rebound before use (x = list(x), x = x or []) no longer refer to the caller's object
    # (only an unconditional rebinding counts: `if x is None: x = []` leaves the caller's object in place otherwise)
    rebound = set()
    for n in f.node.body:
        if isinstance(n, ast.Assign):
            for t in n.targets:
                if isinstance(t, ast.Name) and t.id in params:
                    rebound.add(t.id)
    out = []

    def root_of(node):
        while isinstance(node, (ast.Attribute, ast.Subscript)):
            node = node.value
        if isinstance(node, ast.Name):
            if node.id in params and node.id not in rebound:
                return node.id
            r = alias.get(node.id)
            if r and r not in rebound:
                return r
        return None

    for n in walk_no_nested(f.node):
        if isinstance(n, ast.Call) and isinstance(n.func, ast.Attribute) and n.func.attr in MUTATORS:
            recv = n.func.value
            if isinstance(recv, ast.Name):
                r = root_of(recv)
                if r:
                    out.append((n, f"{norm(n)[:60]} modifies the caller's `{r}`"))
        tg = []
        if isinstance(n, ast.Assign):
            tg = n.targets
        elif isinstance(n, ast.AugAssign):
            tg = [n.target]
        elif isinstance(n, ast.Delete):
            tg = n.targets
        for t in tg:
            if isinstance(t, ast.Subscript):
                r = root_of(t)
                if r:
                    out.append((n, f"{norm(n)[:60]} stores into the caller's `{r}`"))
            elif isinstance(t, ast.Name) and isinstance(n, ast.AugAssign) and (t.id in alias or (t.id in params and t.id not in rebound)):
                # x += [...] on a list argument extends it in place
                if isinstance(n.op, ast.Add) and isinstance(n.value, (ast.List, ast.ListComp)):
                    out.append((n, f"{norm(n)[:60]} extends the caller's `{alias.get(t.id, t.id)}` in place"))
    return out


def scheme_builder_call(ctx: Ctx):
    """(CodeGenerator.scheme, the value of the call `f(ode, dt, ...)` it makes to the scheme builder) read from what
    the method computes - the call may sit in a private helper.  (func, None) when it is not found."""
    from sa import av

    from . import util

    cg = ctx.sm.func("codegen/base.py", "CodeGenerator.scheme")
    v = util.value_of(ctx, cg)
    fparam = cg.params[1]
    calls = [c for c in av.find_all(v, "call") if c[1] == fparam] + [c for c in av.find_all(v, "vcall") if c[1] == ("sym", fparam)]
    return cg, (calls[0] if calls else None), v


# ---- the recursive tree -> sympy builder of expressions.py, found by what it does -----------------------------------
BUILD = "<build>"
SYMBOLS = ("sym", "<symbols>")


def tree_builder(ctx: Ctx, required: bool = True) -> Func | None:
    """The function (module-level, nested or a method) of expressions.py that dispatches on the `data` of a lark tree and
    calls itself on the children - whatever it is called and wherever it lives."""
    cached = ctx.__dict__.get("_tree_builder")
    if cached is not None:
        return cached
    best, score = None, 0
    for f in ctx.sm.funcs_in("expressions.py"):
        own = [n for n in walk_no_nested(f.node)]
        n_cmp = sum(1 for n in own if isinstance(n, ast.Compare) and isinstance(n.left, ast.Attribute) and n.left.attr == "data")
        n_cmp += sum(1 for n in own if isinstance(n, ast.Match) and isinstance(n.subject, ast.Attribute) and n.subject.attr == "data") * 3
        rec = any(isinstance(n, ast.Call) and ((isinstance(n.func, ast.Name) and n.func.id == f.name) or (isinstance(n.func, ast.Attribute) and n.func.attr == f.name and isinstance(n.func.value, ast.Name) and n.func.value.id in ("self", "cls"))) for n in own)
        if rec and n_cmp > score:
            best, score = f, n_cmp
        # ... or dispatches through a table keyed by `<tree>.data` whose handlers call it back
        keyed = [n for n in own if isinstance(n, (ast.Call, ast.Subscript)) and any(isinstance(a_, ast.Attribute) and a_.attr == "data" for a_ in (list(n.args) if isinstance(n, ast.Call) else [n.slice]))]
        if keyed and score < 3:
            called_back = sum(1 for g in ctx.sm.funcs_in("expressions.py") if g is not f and any(isinstance(c, ast.Call) and isinstance(c.func, ast.Name) and c.func.id == f.name for c in ast.walk(g.node)))
            if called_back >= 3 and called_back > score:
                best, score = f, called_back
    if best is None or score < 3:
        if required:
            raise AnalysisError("expressions.py: no function that dispatches on tree.data and calls itself on the children was found (anchor vanished)")
        return None
    ctx.__dict__["_tree_builder"] = best
    return best


def tree_param(f: Func) -> str:
    ps = [p for p in f.params if p not in ("self", "cls")]
    return ps[0] if ps else "tree"


def norm_builder(v, f: Func):
    """A value of the builder with its own spelling removed: recursive calls are `<build>(x)`, the tree parameter is
    `tree`, and the table a `variable` node is looked up in is `<symbols>`."""
    from sa import av as _av

    from . import util

    tp = tree_param(f)

    def rec(t):
        if not isinstance(t, tuple) or not t:
            return t
        if t[0] == "call" and isinstance(t[1], str) and t[1].split(".")[-1] == f.name and len(t) == 4:
            return ("call", BUILD, tuple(rec(a) for a in t[2]), tuple(rec(k) for k in t[3]))
        if t[0] == "mcall" and t[2] == f.name and t[1] in (("sym", "self"), ("sym", "cls")):
            return ("call", BUILD, tuple(rec(a) for a in t[3]), tuple(rec(k) for k in t[4]))
        if t[0] == "sym" and isinstance(t[1], str) and tp != "tree" and (t[1] == tp or t[1].startswith(tp + ".")):
            return ("sym", "tree" + t[1][len(tp):])
        return tuple(rec(x) for x in t)

    v = rec(v)
    cases = util.dispatch_cases(v, ("sym", "tree.data"))
    cv = cases.get("variable")
    tables = {x[1] for x in _av.find_all(cv, "sub") if x[1][0] in ("sym", "attr")} if cv is not None else set()
    tables = {t for t in tables if not (t[0] == "sym" and t[1].startswith("tree"))}
    if len(tables) == 1:
        v = _av.subst(v, {next(iter(tables)): SYMBOLS})
    return v


def builder_values(ctx: Ctx, ref_src: str | None = None):
    """(builder, its normalised value, the normalised value of the vetted reference text or None, key term)"""
    from . import util

    f = tree_builder(ctx)
    cache = ctx.__dict__.setdefault("_builder_values", {})
    if ref_src not in cache:
        cur = norm_builder(util.value_of(ctx, f), f)
        ref = None
        if ref_src is not None:
            rv, rf = util.reference_value(ctx, "expressions.py", f.qualname, ref_src, with_func=True)
            ref = norm_builder(rv, rf)
        cache[ref_src] = (cur, ref)
    cur, ref = cache[ref_src]
    return f, cur, ref, ("sym", "tree.data")
