"""Helpers shared by several rule modules."""

from __future__ import annotations

import ast

from sa import schemes_model as S
from sa import te
from sa.core import AnalysisError, Ctx
from sa.sm import Func, call_kw, const_str, dotted, find_calls, norm, walk_no_nested


# ---------------------------------------------------------------------------
# scheme models (cached per context)

def scheme_models(ctx: Ctx) -> dict[str, S.SchemeModel]:
    if "scheme_models" not in ctx.__dict__:
        ctx.scheme_models = {f.name: S.build(ctx.sm, f) for f in S.scheme_builders(ctx.sm)}
    return ctx.scheme_models


def alias_table(ctx: Ctx) -> tuple[Func, dict[str, str]]:
    """alias string -> builder function name, read from the if/elif chain of schemes.get_scheme."""
    f = ctx.sm.func("schemes.py", "get_scheme")
    table: dict[str, str] = {}
    for n in ast.walk(f.node):
        if isinstance(n, ast.If):
            t = n.test
            aliases = []
            if isinstance(t, ast.Compare) and len(t.ops) == 1 and isinstance(t.ops[0], ast.In) and isinstance(t.comparators[0], (ast.List, ast.Tuple, ast.Set)):
                aliases = [const_str(e) for e in t.comparators[0].elts]
            elif isinstance(t, ast.Compare) and len(t.ops) == 1 and isinstance(t.ops[0], ast.Eq):
                aliases = [const_str(t.comparators[0])]
            target = None
            for st in n.body:
                if isinstance(st, ast.Assign) and isinstance(st.value, ast.Name):
                    target = st.value.id
                elif isinstance(st, ast.Return) and isinstance(st.value, ast.Name):
                    target = st.value.id
            if target and aliases and all(a is not None for a in aliases):
                for a in aliases:
                    table[a] = target
    if not table:
        raise AnalysisError("could not read the alias table of schemes.get_scheme (no `scheme in [...]` chain found)")
    return f, table


def enum_values(ctx: Ctx, short: str, clsname: str) -> dict[str, str]:
    c = ctx.sm.cls(short, clsname)
    out = {}
    for st in c.node.body:
        if isinstance(st, ast.Assign) and len(st.targets) == 1 and isinstance(st.targets[0], ast.Name):
            v = const_str(st.value)
            if v is not None:
                out[st.targets[0].id] = v
    return out


def expected_builder(alias: str) -> str:
    """The family an alias belongs to, by the documented naming scheme."""
    if "generalized_rush_larsen" in alias:
        return "generalized_rush_larsen"
    if "rush_larsen" in alias:
        return "hybrid_rush_larsen"
    if "euler" in alias:
        return "explicit_euler"
    return "?"


# ---------------------------------------------------------------------------
# enclosing-condition chains

def cond_chain(func_node, target) -> list[tuple[str, bool]] | None:
    """Conditions (normalised text, polarity) of the If statements enclosing ``target``."""

    def rec(stmts, chain):
        for st in stmts:
            if st is target:
                return chain
            if isinstance(st, ast.If):
                r = rec(st.body, chain + [(norm(st.test), True)])
                if r is not None:
                    return r
                r = rec(st.orelse, chain + [(norm(st.test), False)])
                if r is not None:
                    return r
            elif isinstance(st, (ast.For, ast.While)):
                r = rec(st.body, chain + [("loop:" + norm(st.iter if isinstance(st, ast.For) else st.test), True)])
                if r is not None:
                    return r
                r = rec(st.orelse, chain + [("loopelse:" + norm(st.iter if isinstance(st, ast.For) else st.test), True)])
                if r is not None:
                    return r
            elif isinstance(st, ast.Try):
                for blk in (st.body, st.orelse, st.finalbody):
                    r = rec(blk, chain)
                    if r is not None:
                        return r
                for h in st.handlers:
                    r = rec(h.body, chain + [("except:" + (norm(h.type) if h.type else "*"), True)])
                    if r is not None:
                        return r
            elif isinstance(st, ast.With):
                r = rec(st.body, chain)
                if r is not None:
                    return r
        return None

    return rec(func_node.body, [])


def stmts_of(func_node):
    """All statements of a function (not descending into nested defs), in source order."""
    out = []

    def rec(stmts):
        for st in stmts:
            out.append(st)
            if isinstance(st, (ast.FunctionDef, ast.AsyncFunctionDef, ast.ClassDef)):
                continue
            for fld in ("body", "orelse", "finalbody"):
                if hasattr(st, fld) and isinstance(getattr(st, fld), list):
                    rec(getattr(st, fld))
            if isinstance(st, ast.Try):
                for h in st.handlers:
                    rec(h.body)

    rec(func_node.body)
    return out


# ---------------------------------------------------------------------------
# keyword forwarding

def forwards(call: ast.Call, kw: str, value_name: str) -> bool:
    """Does ``call`` pass keyword ``kw`` whose value is (derived only from) local ``value_name``?"""
    v = call_kw(call, kw)
    if v is None:
        return False
    return value_name in {n.id for n in ast.walk(v) if isinstance(n, ast.Name)}


# ---------------------------------------------------------------------------
# add_schemes: which keyword arguments does each scheme receive?

def _eval_cond(node, svalue: str, svar: str):
    """Evaluate a condition over `<svar>.value` / `<svar>` with the scheme value known; None if undecidable."""
    if isinstance(node, ast.BoolOp):
        vals = [_eval_cond(v, svalue, svar) for v in node.values]
        if any(v is None for v in vals):
            return None
        return all(vals) if isinstance(node.op, ast.And) else any(vals)
    if isinstance(node, ast.UnaryOp) and isinstance(node.op, ast.Not):
        v = _eval_cond(node.operand, svalue, svar)
        return None if v is None else (not v)
    if isinstance(node, ast.Compare) and len(node.ops) == 1:
        def val(n):
            if isinstance(n, ast.Constant) and isinstance(n.value, str):
                return n.value
            d = dotted(n)
            if d in (f"{svar}.value", svar, f"{svar}.name"):
                return svalue
            if d and d.startswith("Scheme."):
                return d.split(".", 1)[1]
            if isinstance(n, (ast.List, ast.Tuple, ast.Set)):
                items = [val(e) for e in n.elts]
                return None if any(i is None for i in items) else items
            return None
        l, r = val(node.left), val(node.comparators[0])
        if l is None or r is None:
            return None
        op = node.ops[0]
        if isinstance(op, ast.In):
            return l in r
        if isinstance(op, ast.NotIn):
            return l not in r
        if isinstance(op, (ast.Eq, ast.Is)):
            return l == r
        if isinstance(op, (ast.NotEq, ast.IsNot)):
            return l != r
    if isinstance(node, ast.Call) and isinstance(node.func, ast.Attribute) and node.func.attr in ("startswith", "endswith") and node.args:
        d = dotted(node.func.value)
        a = node.args[0]
        if d in (f"{svar}.value", svar) and isinstance(a, ast.Constant) and isinstance(a.value, str):
            return svalue.startswith(a.value) if node.func.attr == "startswith" else svalue.endswith(a.value)
    return None


def kwargs_per_scheme(ctx: Ctx, values: list[str]) -> tuple[Func, dict[str, dict | None]]:
    """For each scheme value: {kwarg name -> source expression text} that add_schemes passes, or None if undecidable."""
    add = ctx.sm.func("cli/utils.py", "add_schemes")
    loops = [n for n in ast.walk(add.node) if isinstance(n, ast.For)]
    if not loops:
        raise AnalysisError("add_schemes: loop over the schemes not found")
    loop = loops[0]
    cands = [x.id for x in ast.walk(loop.target) if isinstance(x, ast.Name)]
    body_txt = " ".join(norm(st) for st in loop.body)
    svar = next((c for c in cands if f"{c}.value" in body_txt), cands[0] if cands else None)
    if svar is None:
        raise AnalysisError("add_schemes: loop variable over the schemes not found")
    out: dict[str, dict | None] = {}
    for v in values:
        kw: dict | None = {}

        def run(stmts):
            nonlocal kw
            for st in stmts:
                if kw is None:
                    return
                if isinstance(st, ast.If):
                    c = _eval_cond(st.test, v, svar)
                    if c is None:
                        kw = None
                        return
                    run(st.body if c else st.orelse)
                elif isinstance(st, (ast.Assign, ast.AnnAssign)):
                    tgts = st.targets if isinstance(st, ast.Assign) else [st.target]
                    for t in tgts:
                        if isinstance(t, ast.Subscript) and isinstance(t.value, ast.Name) and t.value.id == "kwargs" and isinstance(t.slice, ast.Constant):
                            kw[t.slice.value] = norm(st.value)
                        elif isinstance(t, ast.Name) and t.id == "kwargs" and st.value is not None:
                            if isinstance(st.value, ast.Dict):
                                kw = {const_str(k): norm(val) for k, val in zip(st.value.keys, st.value.values) if k is not None}
                elif isinstance(st, ast.Expr) and isinstance(st.value, ast.Call):
                    d = dotted(st.value.func) or ""
                    if d == "kwargs.update":
                        for k in st.value.keywords:
                            kw[k.arg] = norm(k.value)
                    elif d.endswith(".append") or d.endswith("scheme"):
                        for c in ast.walk(st.value):
                            if isinstance(c, ast.Call) and (dotted(c.func) or "").endswith("codegen.scheme"):
                                for k in c.keywords:
                                    if k.arg is not None:
                                        kw[k.arg] = norm(k.value)

        run(loop.body)
        out[v] = kw
    return add, out


STANDARD_BUILDER_PARAMS = ("ode", "dt", "name", "printer", "remove_unused")


def check_scheme_kwargs(ctx: Ctx, rule: str, option: str, only_builders=None):
    """For every Scheme enum value: add_schemes passes `option` (bound to the option variable) iff the builder takes it."""
    models = scheme_models(ctx)
    gs, table = alias_table(ctx)
    enum = enum_values(ctx, "schemes.py", "Scheme")
    add, per = kwargs_per_scheme(ctx, sorted(enum.values()))
    for v in sorted(enum.values()):
        builder = table.get(v)
        if builder not in models:
            continue
        if only_builders is not None and builder not in only_builders:
            continue
        takes = option in models[builder].func.params
        kw = per[v]
        key = add.key(f"{option}::{v}")
        if kw is None:
            ctx.fail(rule, key, f"add_schemes: cannot decide which keyword arguments scheme '{v}' receives (condition not over the scheme's name)", add.where())
            continue
        passed = kw.get(option)
        if takes:
            ctx.check(
                passed == option,
                rule,
                key,
                f"'{v}' receives {option}={option}",
                f"add_schemes passes {option}={passed!r} for scheme '{v}' but its builder {builder} takes `{option}`: the user's {option} option is not honoured for this scheme",
                add.where(),
            )
        else:
            ctx.check(
                passed is None,
                rule,
                key,
                f"'{v}' does not take {option}",
                f"add_schemes passes {option} for scheme '{v}' whose builder {builder} has no such parameter",
                add.where(),
            )
