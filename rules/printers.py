"""Shared printer-table checks (used by C01, C02, C03, C11, C14)."""

from __future__ import annotations

import ast
import re

from sa import pm
from sa.core import Ctx
from sa.sm import Func, dotted, norm


def model(ctx: Ctx) -> pm.PrinterModel:
    if "printer_model" not in ctx.__dict__:
        ctx.printer_model = pm.PrinterModel(ctx.sm)
    return ctx.printer_model


# numpy names that act element-wise (the values of the class tables are added at run time)
ELEMENTWISE = {
    "numpy.where", "numpy.logical_and", "numpy.logical_or", "numpy.logical_not", "numpy.sign", "numpy.sqrt", "numpy.copysign",
    "numpy.zeros_like", "numpy.abs", "numpy.floor", "numpy.exp", "numpy.log", "numpy.sin", "numpy.cos", "numpy.tan",
    "numpy.arcsin", "numpy.arccos", "numpy.arctan", "numpy.asin", "numpy.acos", "numpy.atan", "numpy.pi", "numpy.e",
    "numpy.isclose", "numpy.equal", "numpy.not_equal", "numpy.less", "numpy.greater", "numpy.float64", "numpy.mod", "numpy.fmod",
    "numpy.maximum", "numpy.minimum", "numpy.power", "numpy.ceil",
}
SCALAR_ONLY = [
    (r"\bif\b[^\n]*\belse\b", "a Python conditional expression"),
    (r"(?<![\w.])and(?![\w.(])", "the `and` operator"),
    (r"(?<![\w.])or(?![\w.(])", "the `or` operator"),
    (r"(?<![\w.])not(?![\w.])", "the `not` operator"),
    (r"\bmath\.", "the math module"),
    (r"(?<![\w.])(min|max|bool|float|int|all|any|sum)\(", "a scalar builtin"),
]


def numpy_names(frag: str) -> list[str]:
    return re.findall(r"\bnumpy(?:\.[A-Za-z_]\w*)+", frag)


def emitted_fragments(M: pm.PrinterModel, printer: str, f: Func) -> list[str]:
    """Fragments of a print method plus those of the helper methods of the printer it calls through ``self.``"""
    out = list(pm.fragments(f))
    seen = {f.qualname}
    todo = [f]
    while todo:
        g = todo.pop()
        for c in ast.walk(g.node):
            if isinstance(c, ast.Call) and isinstance(c.func, ast.Attribute) and isinstance(c.func.value, ast.Name) and c.func.value.id == "self":
                h = M.method(printer, c.func.attr) if c.func.attr != "_print" else None
                if h is not None and h.qualname not in seen:
                    seen.add(h.qualname)
                    out.extend(pm.fragments(h))
                    todo.append(h)
    return out


def check_array_safe(ctx: Ctx, rule: str, printer: str = "numpy", jax: bool = False):
    """Every class of P resolves to a method whose emitted text is element-wise on arrays."""
    M = model(ctx)
    kf = M.class_table(printer, "_kf") or {}
    kc = M.class_table(printer, "_kc") or {}
    # table entries count as vetted element-wise functions only for the classes a model can produce (sympy's table
    # also maps Max / Min to the batch-reducing numpy.max / numpy.min)
    producible = {name for _mod, name in pm.P_CLASSES}
    allowed = set(ELEMENTWISE) | {v for k, v in list(kf.items()) + list(kc.items()) if isinstance(v, str) and k in producible}
    for mod, name in pm.P_CLASSES:
        r = M.resolve(printer, mod, name)
        key = f"{printer}-printer::{name}"
        if not r.is_gotranx:
            v = pm.vetted(printer, r)
            if v is None:
                ctx.fail(rule, key, f"{name} is printed by the inherited {r}, which has not been vetted (the printer's overrides or the sympy version changed)", "")
                continue
            if v.get("normalised_away"):
                continue  # handled by the must-pass-through obligation below
            ctx.check(
                v.get("array", False),
                rule,
                key,
                f"{r} (vetted: element-wise)",
                f"{printer} printer: {name} falls through to the inherited {r}: {v.get('why', 'not array-safe')}; generated functions no longer work column-wise on (n_states, N) input",
                "",
            )
            continue
        frs = emitted_fragments(M, printer, r.func)
        chained: list[str] = []
        # ... and the texts the method can return as a whole (a function name chosen in a variable - `f"{func}({a}, {b})"`
        # with func = "max" - only shows when the pieces are put together)
        try:
            from sa import av as _avp

            from . import util as _up

            for everything_ in (False, True):
                val_ = _up.value_of(ctx, r.func, everything=everything_)

                def texts(t_):
                    # every text in the value, at any depth, with its holes blanked; messages of exceptions are not emitted code
                    if not isinstance(t_, tuple) or not t_ or t_[0] == "raise":
                        return
                    if t_[0] == "s":
                        frs.append("".join(p_[1] if p_[0] == "lit" else "X" for p_ in t_[1]))
                        # holes that can only hold literal texts (an operator chosen by a condition) are filled in,
                        # every other hole is an operand: does the piece, read as Python, chain comparisons?
                        variants = [""]
                        for p_ in t_[1]:
                            if p_[0] == "lit":
                                alts = [p_[1]]
                            else:
                                h_ = p_[1]
                                alts = [h_[1]] if h_[0] == "c" and isinstance(h_[1], str) else ([h_[2][1], h_[3][1]] if h_[0] == "if" and all(x_[0] == "c" and isinstance(x_[1], str) for x_ in h_[2:4]) else [" X "])
                            variants = [v_ + a_ for v_ in variants for a_ in alts][:16]
                        for v_ in variants:
                            try:
                                tree_ = ast.parse(v_.strip(), mode="eval")
                            except SyntaxError:
                                continue
                            if any(isinstance(n_, ast.Compare) and len(n_.ops) > 1 for n_ in ast.walk(tree_)):
                                chained.append(v_.strip())
                    for x_ in t_:
                        texts(x_)

                texts(val_)
        except Exception:
            pass
        bad = [f"a chained comparison in {c_!r} (`a < b < c` is `a < b and b < c`: the truth value of an array)" for c_ in sorted(set(chained))[:2]]
        for fr in frs:
            for rx, what in SCALAR_ONLY:
                if re.search(rx, fr):
                    bad.append(f"{what} in {fr!r}")
            for nm in numpy_names(fr):
                if nm not in allowed and not any(nm.startswith(a + ".") and False for a in allowed):
                    bad.append(f"{nm} (not an element-wise numpy function: it reduces over, or is undefined for, the batch axis)")
            if ".reduce(" in fr:
                bad.append(f".reduce( in {fr!r}")
        ctx.check(
            not bad,
            rule,
            key,
            f"{r}: emits only element-wise constructs",
            f"{printer} printer: {r} emits " + "; ".join(bad[:4]) + ": the generated code is not element-wise on array input",
            r.func.where(),
        )
    # class tables: the functions of P map to numpy functions
    expect = {"exp": "numpy.exp", "log": "numpy.log", "sin": "numpy.sin", "cos": "numpy.cos", "tan": "numpy.tan", "asin": ("numpy.asin", "numpy.arcsin"), "acos": ("numpy.acos", "numpy.arccos"), "atan": ("numpy.atan", "numpy.arctan"), "Abs": ("numpy.abs", "numpy.absolute", "numpy.fabs"), "floor": "numpy.floor"}
    for fn, want in expect.items():
        got = kf.get(fn)
        wants = want if isinstance(want, tuple) else (want,)
        ctx.check(got in wants, rule, f"{printer}-printer::_kf::{fn}", f"{fn} -> {got}", f"{printer} printer: class table maps {fn} to {got!r}, expected {wants[0]}", "")
    for cn, want in {"Pi": "numpy.pi", "Exp1": "numpy.e"}.items():
        ctx.check(kc.get(cn) == want, rule, f"{printer}-printer::_kc::{cn}", f"{cn} -> {kc.get(cn)}", f"{printer} printer: constant table maps {cn} to {kc.get(cn)!r}, expected {want}", "")


def check_not_normalised(ctx: Ctx, rule: str):
    """A surviving Not(And/Or) inside a Piecewise condition is pushed down by simplify before the python / writer printers see it."""
    from sa import av as _av

    from . import util

    f = ctx.sm.func("codegen/base.py", "_print_Piecewise")
    v = util.value_of(ctx, f)
    key = f.key("simplify-before-print")
    ep = f.params[1] if len(f.params) > 1 else "expr"
    comps = [c for c in _av.find_all(v, "comp")]
    prints = [m for m in _av.find_all(v, "mcall") if m[2] == "_print"]
    if _av.has_unk(v) or not comps or not prints:
        ctx.undecided(rule, key, "what base._print_Piecewise prints is not understood", f.where())
        return
    simp = [c for c in _av.find_all(v, "call") if c[1].split(".")[-1] == "simplify" and c[2] == (("sym", ep),)]
    raw = [c for c in comps if _av.show(_av._unwrap_seq(c[2])) == f"{ep}.args"]
    over_simplified = [c for c in comps if simp and _av._unwrap_seq(c[2]) == ("attr", simp[0], "args")]
    ok = bool(simp) and not raw and len(over_simplified) == len([c for c in comps if c[2][0] != "comp"])
    # ... and the front end builds logical connectives *evaluated* (sympy then rewrites Not(a > b) to a <= b at
    # construction); an unevaluated Not reaches the printers of top-level conditionals, which do not go through simplify
    from . import common as _cm

    be = _cm.tree_builder(ctx, required=False)
    if be is not None:
        be, bv_, _ref, kt_ = _cm.builder_values(ctx)
        cases = util.dispatch_cases(bv_, kt_)
        lv = cases.get("logicalfunc")
        if lv is not None and not _av.has_unk(lv):
            uneval = [c for c in _av.find_all(lv, "call") if ("evaluate", _av.C(False)) in c[3]]
            ctx.check(not uneval, rule, be.key("logical-connectives-evaluated"), "And / Or / Not and the relations are built evaluated", f"expr2symbols builds a logical connective unevaluated (`{_av.show(uneval[0])[:90] if uneval else ''}`): a negation that sympy would have rewritten into a relation survives to the NumPy printer's scalar-only `not (...)` (and the .ode writer's `~(...)`)", be.where())
    ctx.check(ok, rule, key, "the Piecewise is normalised by sympy.simplify before any branch or condition is printed", "base._print_Piecewise no longer passes the Piecewise through sympy.simplify before printing: a condition Not(And(..)) would reach the python printer's scalar-only `not (...)` (and the .ode writer's `~(...)`)", f.where())


# gotranx print methods that were read when the rules were written.  An override for any *other* producible class has
# unknown meaning and is reported (the rules below check the structure of the listed ones).
VETTED_OVERRIDES = {
    "numpy": {"Float", "Piecewise", "And", "Or", "Equality", "sign"},
    "jax": {"Float", "Piecewise", "And", "Or", "Equality", "sign", "Assignment"},
    "c": {"Float", "Piecewise", "Mod"},
    "ode": {"StrictLessThan", "LessThan", "StrictGreaterThan", "GreaterThan", "Equality", "Unequality", "And", "Or", "Not", "BooleanTrue", "BooleanFalse", "Piecewise", "Exp1"},
}


def check_no_unvetted_override(ctx: Ctx, rule: str, printer: str, skip=()):
    M = model(ctx)
    for mod, name in pm.P_CLASSES:
        if name in skip:
            continue
        r = M.resolve(printer, mod, name)
        if r.is_gotranx and name not in VETTED_OVERRIDES[printer]:
            ctx.fail(rule, f"{printer}-printer::{name}::unvetted-override", f"{printer} printer: {name} is now printed by {r}, an override that was not there when the printer was vetted; what it emits for {name} is not known to preserve the value (e.g. fmod instead of %, x*x without parentheses)", r.func.where())
        elif r.is_gotranx:
            ctx.ok(rule, f"{printer}-printer::{name}::override", f"{r} (read and checked structurally)", r.func.where(), nontrivial=False)


def check_zip_truncation(ctx: Ctx, rule: str, printer: str):
    """zip() stops at the shorter argument.  Zipping two *different* slices of one operand list (a[::2] with a[1::2],
    a[:-1] with a[1:] is fine: equal lengths) silently drops the unpaired operand."""
    M = model(ctx)
    seen = 0
    for g in M.chains[printer]:
        for mname, f in g.methods.items():
            if not mname.startswith("_print"):
                continue
            for c in ast.walk(f.node):
                if not (isinstance(c, ast.Call) and isinstance(c.func, ast.Name) and c.func.id == "zip" and len(c.args) >= 2):
                    continue
                seen += 1
                sl = [a for a in c.args if isinstance(a, ast.Subscript) and isinstance(a.slice, ast.Slice)]
                bad = False
                if len(sl) == len(c.args) and len({norm(a.value) for a in sl}) == 1:
                    steps = {norm(a.slice.step) if a.slice.step is not None else "1" for a in sl}
                    if steps != {"1"} and len({norm(a.slice) for a in sl}) > 1:
                        bad = True  # strided slices with different offsets: lengths differ for odd lengths
                strict = any(k.arg == "strict" and isinstance(k.value, ast.Constant) and k.value.value is True for k in c.keywords)
                key = f"{printer}-printer::{g.name}.{mname}::zip::{norm(c)[:60]}"
                ctx.check(not bad or strict, rule, key, "zip over sequences of equal length", f"{g.name}.{mname}: `{norm(c)}` pairs strided slices of one operand list; zip stops at the shorter one, so the unpaired last operand is silently dropped from the emitted expression", f.where(c))
    return seen


def check_sign_printing(ctx: Ctx, rule: str):
    """sign() cannot be written in a model; it enters generated code as the derivative of abs() in the linearisation
    of the Rush-Larsen schemes.  It must be printed as a function that is 0 at 0 (sympy's convention, the value the
    symbolic derivative stands for) in every backend."""
    from . import util

    M = model(ctx)
    f = M.method("numpy", "_print_sign")
    key = "numpy-printer::sign::value"
    if f is None:
        r = M.resolve("numpy", "sympy", "sign")
        v = pm.vetted("numpy", r)
        ctx.check(bool(v) and v.get("ok", False), rule, key, f"{r} (vetted)", f"numpy printer: sign falls through to {r}, which has not been vetted as value-preserving", "")
    else:
        t = util.printed_text(ctx, f)
        p0 = f.params[1] if len(f.params) > 1 else "e"
        if t is None:
            ctx.undecided(rule, key, "what the numpy printer's _print_sign returns is not understood", f.where())
        else:
            wants = ["{self._module_format('numpy.sign')}({self._print(%s.args[0])})" % p0, "numpy.sign({self._print(%s.args[0])})" % p0]
            ctx.check(t in wants, rule, key, "sign(x) -> numpy.sign(<x>)", f"numpy / jax printer: sign(x) is printed as `{t}`, not as numpy.sign(<printed x>): the value at x == 0 (0, the derivative of abs there by sympy's convention) or the argument is not preserved", f.where())
    r = M.resolve("c", "sympy", "sign")
    if r.is_gotranx:
        t = util.printed_text(ctx, r.func)
        ctx.check(t is not None and "> 0" in t and "< 0" in t, rule, "c-printer::sign::value", "sign(x) -> ((x > 0) - (x < 0))", f"C printer: sign(x) is printed as `{t}`, not as ((x) > 0) - ((x) < 0)", r.func.where())
    else:
        v = pm.vetted("c", r)
        ctx.check(bool(v) and v.get("ok", False), rule, "c-printer::sign::value", f"{r} (vetted)", f"C printer: sign falls through to {r}, which has not been vetted as value-preserving", "")


def check_float_repr(ctx: Ctx, rule: str, printer: str):
    """A Float literal is printed as the shortest round-trip repr of its float64 value (str(float(x))): sympy's own printer
    keeps 15 significant digits, and any rounding or formatting in between changes constants of the generated module."""
    from . import util

    M = model(ctx)
    fl = M.method(printer, "_print_Float")
    key = f"{printer}-printer::Float::repr"
    if fl is None:
        ctx.fail(rule, key, f"{printer} printer has no _print_Float of its own (sympy prints 15 significant digits)", "")
        return
    ft = util.printed_text(ctx, fl)
    p0 = fl.params[1] if len(fl.params) > 1 else "flt"
    if ft is None:
        ctx.undecided(rule, key, "what _print_Float returns is not understood", fl.where())
    else:
        ctx.check(ft in ("{float(" + p0 + ")}", "{repr(float(" + p0 + "))}"), rule, key, "Float -> shortest round-trip repr", f"{printer} printer: a Float is printed as `{ft}`, not as str(float(value)) (digits would be lost or added)", fl.where())


# class-level attributes of the sympy printers that a gotranx printer class may set, with what is checked elsewhere
VETTED_CLASS_ATTRS = {"_kf": "function table (R01.h / R03.b / R14.a)", "_kc": "constant table (R01.h)", "printmethod": "dispatch hook name only", "language": "a label"}


def check_class_attr_overrides(ctx: Ctx, rule: str):
    """A class-level assignment in a gotranx printer *replaces* the attribute of the sympy base.  `reserved_words` is the
    set of identifiers sympy renames (`lambda` -> `lambda_`): assigning a fresh set drops the language's keywords, and a
    model quantity named like a keyword is then emitted as it is.  Every other attribute the base defines is reported as
    undecided unless it is in the vetted table."""
    M = model(ctx)
    for pr, chain in M.chains.items():
        base = M.sympy_base[pr]
        for g in chain:
            assigns = g.class_assigns()
            for name, val in assigns.items():
                if name.startswith("_print_") or not hasattr(base, name) or name in VETTED_CLASS_ATTRS:
                    continue
                key = f"{g.rel}::{g.name}::class-attribute::{name}"
                if name == "reserved_words":
                    keeps = any(isinstance(n, ast.Attribute) and n.attr == "reserved_words" for n in ast.walk(val))
                    ctx.check(keeps, rule, key, "extends the inherited reserved words", f"{g.name}.reserved_words = {norm(val)[:80]} replaces the reserved words of {base.__name__} (the keywords of the target language) instead of extending them: a state, parameter or intermediate named like a keyword is no longer renamed and the generated module does not compile (or binds the keyword's meaning)", g.where(val))
                else:
                    ctx.undecided(rule, key, f"{g.name} overrides the class attribute `{name}` of {base.__name__}; its effect on what is printed is not judged", g.where(val))
            ctx.ok(rule, f"{g.rel}::{g.name}::class-attributes", f"class-level attributes {sorted(assigns)} do not replace reserved_words", g.where(), nontrivial=False)


# what each function of the language is in numpy (either spelling where numpy has two); anything else is another function
NUMPY_FUNCTIONS = {
    "exp": ("numpy.exp",), "log": ("numpy.log",), "sin": ("numpy.sin",), "cos": ("numpy.cos",), "tan": ("numpy.tan",),
    "asin": ("numpy.asin", "numpy.arcsin"), "acos": ("numpy.acos", "numpy.arccos"), "atan": ("numpy.atan", "numpy.arctan"),
    "sinh": ("numpy.sinh",), "cosh": ("numpy.cosh",), "tanh": ("numpy.tanh",),
    "asinh": ("numpy.asinh", "numpy.arcsinh"), "acosh": ("numpy.acosh", "numpy.arccosh"), "atanh": ("numpy.atanh", "numpy.arctanh"),
    "Abs": ("numpy.abs", "numpy.absolute", "numpy.fabs"), "floor": ("numpy.floor",), "ceiling": ("numpy.ceil",), "Sqrt": ("numpy.sqrt",),
    "log10": ("numpy.log10",), "log2": ("numpy.log2",), "log1p": ("numpy.log1p",), "expm1": ("numpy.expm1",),
}


def check_function_table(ctx: Ctx, rule: str, printer: str = "numpy"):
    """The class table `_kf` decides which numpy function a function of the model becomes.  Every entry for a function the
    language has (and its hyperbolic / inverse relatives, one typo away) names that same function."""
    M = model(ctx)
    kf = M.class_table(printer, "_kf")
    if kf is None:
        ctx.undecided(rule, f"{printer}-printer::_kf", "the function table of the printer could not be constant-folded", "")
        return
    producible = {name for _mod, name in pm.P_CLASSES}
    for fn, wants in NUMPY_FUNCTIONS.items():
        got = kf.get(fn)
        if got is None and fn not in producible:
            continue
        ctx.check(got in wants, rule, f"{printer}-printer::_kf::{fn}", f"{fn} -> {got}", f"{printer} printer: the function table maps `{fn}` to {got!r}, which is not {wants[0]}: the generated code computes another function than the model text says", "")


def check_equality_text(ctx: Ctx, rule: str):
    """The NumPy printer writes Eq(a, b) as the exact element-wise comparison `(a == b)` on every path: a tolerance
    (`isclose`) or a special case for some operand kinds makes a condition true on a band around the threshold."""
    from . import util

    M = model(ctx)
    eq = M.method("numpy", "_print_Equality")
    if eq is None:
        ctx.fail(rule, "numpy-printer::Equality::text", "numpy printer has no _print_Equality", "")
    else:
        et = util.text_of(ctx, eq)
        ep_ = eq.params[-1]
        wants_eq = ["({self._print(%s.args[0])} == {self._print(%s.args[1])})" % (ep_, ep_), "({self._print(%s.lhs)} == {self._print(%s.rhs)})" % (ep_, ep_)]
        if et is None:
            ctx.undecided(rule, "numpy-printer::Equality::text", "what _print_Equality returns is not understood", eq.where())
        else:
            ctx.check(et in wants_eq, rule, "numpy-printer::Equality::text", "(lhs == rhs)", f"numpy printer: Equality is printed as `{et}`, not as (printed lhs == printed rhs)", eq.where())
