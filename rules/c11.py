"""C11 - save/load round trip: the writer only emits what the reader accepts, and emits everything."""

from __future__ import annotations

import ast
import re

from sa import gm, pm
from sa.core import Ctx
from sa.sm import call_kw, const_str, dotted, find_calls, fstring_skeleton, norm

from . import printers

RELOPS = {"<": "Lt", "<=": "Le", ">": "Gt", ">=": "Ge", "==": "Eq"}


def grammar(ctx: Ctx) -> gm.GrammarModel:
    if "grammar_model" not in ctx.__dict__:
        ctx.grammar_model = gm.GrammarModel(ctx.repo, getattr(ctx, "overlay", None))
    return ctx.grammar_model


def heads(fragment: str) -> list[str]:
    return re.findall(r"(?<![\w.{])([A-Za-z_]\w*)\(", fragment)


def all_args_joined(f, rule_ctx, ctx: Ctx, rule: str, head: str):
    """`Head(<every argument, comma separated>)`, judged on the text the method returns"""
    from sa import av

    from . import util

    v = util.value_of(ctx, f)
    if av.has_unk(v) or not av._is_str(v):
        ctx.undecided(rule, f.key("all-arguments"), f"what {f.qualname} returns is not understood", f.where())
        return
    flat = av.flatten(v).replace(av.HO, "{").replace(av.HC, "}")
    ep = f.params[-1]
    want = head + "(⟦for $1 in " + ep + ".args|sep=', ': {self._print($1)}⟧)"
    ok = flat == want
    ctx.check(ok, rule, f.key("all-arguments"), f"{head}(<all arguments>)", f"{f.qualname} returns `{flat[:120]}`, not `{head}(` + every printed argument of the connective, comma separated + `)`: operands are lost or the head is wrong when the file is saved", f.where())


def run(ctx: Ctx):
    sm = ctx.sm
    G = grammar(ctx)
    M = printers.model(ctx)
    ctx.assume("numerical equality after reload is NOT decided; the writer's vocabulary and coverage are")
    funcnames = set(G.literals_of("funcname"))
    logical = set(G.literals_of("logicalfuncname"))
    vocab = funcnames | logical | {"ScalarParam"}

    ctx.rule("R11.a", "writer vocabulary is a subset of the reader's: every producible class is printed by a vetted re-parsable method or by a gotranx method that only emits heads the grammar accepts, with the right head for each operator", floor=30)
    for mod, name in pm.P_CLASSES:
        if name in pm.NOT_FOR_WRITER:
            continue
        r = M.resolve("ode", mod, name)
        key = f"writer::{name}"
        if not r.is_gotranx:
            v = pm.vetted("ode", r)
            if v is None:
                ctx.fail("R11.a", key, f"{name} is written by the inherited {r}, which has not been vetted", "")
                continue
            ctx.check(v.get("reparse", False), "R11.a", key, f"{r} (vetted: re-parsable)", f".ode writer: {name} falls through to the inherited {r}: {v.get('why', 'output is not accepted by ode.lark')}; a saved model cannot be loaded back (or loads as something else)", "")
            if r.method == "_print_Function":
                ctx.check(name in funcnames, "R11.a", key + "::function-name", f"`{name}(` is a grammar function", f"sympy prints {name} as `{name}(...)`, which is not among the grammar's function names {sorted(funcnames)}", "")
            continue
        frs = pm.fragments(r.func)
        bad = sorted({h for fr in frs for h in heads(fr) if h not in vocab})
        infix = [fr for fr in frs if re.search(r"(?<![=!<>])[<>]=?(?!=)|==|!=|&|\||~", fr) and not re.fullmatch(r"[<>=!]=?", fr.strip())]
        ctx.check(not bad and not infix, "R11.a", key, f"{r}: emits only grammar heads", f".ode writer: {r} emits " + (f"heads {bad} that are not in the grammar" if bad else f"infix operators {infix}") + "; the saved file is rejected by the loader", r.func.where())
    printers.check_no_unvetted_override(ctx, "R11.a", "ode", skip=pm.NOT_FOR_WRITER)
    # operator table
    rel = M.method("ode", "_print_Relational")
    ctx.require(rel, "BaseGotranODECodePrinter._print_Relational not found")
    from sa import av as _av11

    from . import util as _u11
    from .c03 import _branches as _br11

    rv = _u11.value_of(ctx, rel)
    if _av11.has_unk(rv):
        ctx.undecided("R11.a", rel.key("relop"), "what _print_Relational returns is not understood", rel.where())
    else:
        ep = rel.params[-1]
        L, R = "{self._print(" + ep + ".lhs)}", "{self._print(" + ep + ".rhs)}"
        tab, ne_text, generic = {}, None, None
        for conds, leaf in _br11(rv):
            if not _av11._is_str(leaf):
                continue
            flat = _av11.flatten(leaf).replace(_av11.HO, "{").replace(_av11.HC, "}")
            eqs = [c for c in conds if c[0] == "cmp" and c[1] == "==" and c[2] == ("sym", f"{ep}.rel_op") and c[3][0] == "c"]
            dicts = [x for x in _av11.find_all(leaf, "sub") if x[1][0] == "dict" and x[2] == ("sym", f"{ep}.rel_op")]
            if eqs:
                op = eqs[0][3][1]
                if op == "!=":
                    ne_text = flat
                else:
                    m = re.fullmatch(r"(\w+)\(" + re.escape(L) + ", " + re.escape(R) + r"\)", flat)
                    tab[op] = m.group(1) if m else flat
            elif dicts:
                generic = flat
                for k, x in dicts[0][1][1]:
                    if k[0] == "c" and x[0] == "c":
                        tab.setdefault(k[1], x[1])
        for op, head in RELOPS.items():
            ctx.check(tab.get(op) == head, "R11.a", rel.key(f"relop::{op}"), f"`{op}` -> {head}", f"_print_Relational writes `{op}` as {tab.get(op)!r}, which the loader reads as another relation than {head}", rel.where())
        extra = {k: v for k, v in tab.items() if k not in RELOPS}
        ne_ok = (ne_text == "Not(Eq(" + L + ", " + R + "))") or extra.get("!=") in logical
        ctx.check(ne_ok and all(v in logical for v in extra.values()), "R11.a", rel.key("relop::!="), "`!=` -> Not(Eq(..))", f"_print_Relational: `!=` is written as {ne_text!r} (extra table entries: {extra}), not Not(Eq(lhs, rhs))", rel.where())
        if generic is not None:
            okg = re.fullmatch(r"\{.*\}\(" + re.escape(L) + ", " + re.escape(R) + r"\)", generic) is not None
            ctx.check(okg, "R11.a", rel.key("operands"), "Head(lhs, rhs)", f"_print_Relational does not print `Head(printed lhs, printed rhs)` (returns {generic[:100]})", rel.where())
    for cname in ("And", "Or"):
        f = M.method("ode", f"_print_{cname}")
        ctx.require(f, f"writer _print_{cname} not found")
        all_args_joined(f, None, ctx, "R11.a", cname)
    for cname, lit in (("BooleanTrue", "1"), ("BooleanFalse", "0")):
        f = M.method("ode", f"_print_{cname}")
        rets = [const_str(n.value) for n in ast.walk(f.node) if isinstance(n, ast.Return)] if f else []
        ctx.check(rets == [lit], "R11.a", f"writer::{cname}::literal", f"{cname} -> {lit}", f".ode writer prints {cname} as {rets}", f.where() if f else "")
    pw = M.method("ode", "_print_Piecewise")
    frs = pm.fragments(pw)
    okpw = "Conditional(" in frs and any(isinstance(n, ast.For) and norm(n.iter) == "zip(conds, exprs)" for n in ast.walk(pw.node)) and any(isinstance(n, ast.If) and norm(n.test).replace('"', "'") == "c == '1'" for n in ast.walk(pw.node))
    closes = [n for n in ast.walk(pw.node) if isinstance(n, ast.BinOp) and isinstance(n.op, ast.Mult) and const_str(n.left) == ")"]
    okpw = okpw and bool(closes) and norm(closes[0].right) == "len(conds) - 1"
    anchor = any(isinstance(n, ast.For) and norm(n.iter) == "zip(conds, exprs)" for n in ast.walk(pw.node))
    if not anchor and any("Conditional(" in fr for fr in frs):
        ctx.undecided("R11.a", pw.key("nesting"), "the nested Conditional(...) text is not built by the known loop over zip(conds, exprs); pairing and closing parentheses are not judged", pw.where())
    else:
        ctx.check(okpw, "R11.a", pw.key("nesting"), "nested Conditional(c, e, Conditional(...)) closed once per pair", "writer _print_Piecewise: pairs are not written as nested Conditional(c, e, ...) with the default as last argument", pw.where())
    printers.check_not_normalised(ctx, "R11.a")

    # reader side: generic function application uses every argument
    check_apply_all(ctx, "R11.a")

    ctx.rule("R11.b", "coverage: the writer emits comments, states, parameters and all assignments; each helper writes name, value/expression, unit, description and component names unmodified", floor=12)
    w = sm.func("save.py", "write_ODE_to_ode_file")
    A11 = _u11.AV(ctx)
    A11.returned(w)
    wts = [val for fn_, node_, val in A11.call_log if val[0] == "mcall" and val[2] == "write_text" and val[3]]
    if not wts or _av11.has_unk(wts[-1][3][0]):
        ctx.undecided("R11.b", w.key("sections"), "what write_ODE_to_ode_file writes is not understood", w.where())
    else:
        text = wts[-1][3][0]
        secs = [c[2] for c in _av11.find_all(text, "mcall") if c[2].startswith("print_") and c[1][0] == "call" and c[1][1].split(".")[-1] == "GotranODECodePrinter"]
        order = [n for n in secs if n in ("print_comments", "print_states", "print_parameters", "print_assignments")]
        ctx.check(order == ["print_comments", "print_states", "print_parameters", "print_assignments"] and len(secs) == 4, "R11.b", w.key("sections"), "comments, states, parameters, assignments", f"write_ODE_to_ode_file emits {secs}", w.where())
        flat = _av11.flatten(text) if _av11._is_str(text) else ""
        holes = re.findall(_av11.HO + r"(.*?)" + _av11.HC, flat, flags=re.S)
        plain = re.sub(_av11.HO + r".*?" + _av11.HC, "", flat, flags=re.S)
        ctx.check(_av11._is_str(text) and plain == "" and len(holes) == 4, "R11.b", w.key("write"), "all sections are written, nothing else", f"write_ODE_to_ode_file writes {_av11.show(text)[:120]}: not exactly the four sections joined", w.where())
    cls = sm.cls("codegen/ode.py", "GotranODECodePrinter")
    for mname, seq, helper in (("print_states", "self.ode.states", "print_ScalarParam"), ("print_parameters", "self.ode.parameters", "print_ScalarParam"), ("print_assignments", "self.ode.intermediates + self.ode.state_derivatives", "print_assignment")):
        f = cls.methods[mname]
        loops = [n for n in ast.walk(f.node) if isinstance(n, ast.For)]
        ok = bool(loops) and norm(loops[0].iter) == seq
        ctx.check(ok, "R11.b", f.key("sequence"), f"iterates {seq}", f"{mname} iterates {norm(loops[0].iter) if loops else None}, not {seq}: some atoms are not saved", f.where())
        grp = [n for n in ast.walk(f.node) if isinstance(n, ast.Call) and norm(n.func).endswith(".append")]
        okg = bool(grp) and isinstance(grp[0].func.value, ast.Subscript) and norm(grp[0].func.value.slice).endswith(".components")
        ctx.check(okg, "R11.b", f.key("grouping"), "grouped by component membership", f"{mname} does not group the atoms by their `components` tuple", f.where())
        hc = [c for c in ast.walk(f.node) if isinstance(c, ast.Call) and (dotted(c.func) or "") == helper]
        okh = bool(hc) and call_kw(hc[0], "doprint") is not None and norm(call_kw(hc[0], "doprint")) == "self.doprint"
        comps = [n for n in ast.walk(f.node) if isinstance(n, ast.ListComp) and hc and any(x is hc[0] for x in ast.walk(n))]
        okh = okh and bool(comps) and not comps[0].generators[0].ifs
        ctx.check(okh, "R11.b", f.key("helper"), f"every atom of a group goes through {helper}", f"{mname} does not print every atom of each group with {helper}(.., doprint=self.doprint)", f.where())
        sb = [c for c in find_calls(f.node, "start_odeblock")]
        want_case = {"print_states": "states", "print_parameters": "parameters", "print_assignments": "expressions"}[mname]
        oksb = bool(sb) and all(c.args and const_str(c.args[0]) == want_case and isinstance(call_kw(c, "names"), ast.Name) for c in sb) and any(norm(call_kw(c, "names")) == "components" for c in sb)
        ctx.check(oksb, "R11.b", f.key("block-header"), f"{want_case}(<component names>)", f"{mname}: block header is not start_odeblock('{want_case}', names=components)", f.where())
    pa = cls.methods["print_assignments"]
    loops_pa = [n for n in ast.walk(pa.node) if isinstance(n, ast.For) and norm(n.iter).endswith(".items()")]
    grp_var = norm(loops_pa[0].iter)[: -len(".items()")] if loops_pa else None
    grp_def = [n for n in ast.walk(pa.node) if isinstance(n, ast.Assign) and norm(n.targets[0]) == grp_var]
    hl = [n for n in ast.walk(pa.node) if isinstance(n, ast.Assign) and isinstance(n.value, ast.ListComp) and "start_odeblock" in norm(n.value) and norm(n.value).replace('"', "'").endswith("== '']")]
    ok_hl = False
    if grp_def and hl and isinstance(grp_def[0].value, ast.DictComp):
        first = norm(hl[0].targets[0])
        it = grp_def[0].value.generators[0].iter
        ok_hl = isinstance(it, ast.BinOp) and isinstance(it.op, ast.Add) and norm(it.left) == first
    ctx.check(ok_hl, "R11.b", pa.key("headerless-first"), "the header-less group is written before the named blocks", "print_assignments may write the header-less expressions after a named expressions(...) block; on reload they are absorbed into that block", pa.where())
    sp = sm.func("codegen/ode.py", "print_ScalarParam")
    sks = [fstring_skeleton(n.value) for n in ast.walk(sp.node) if isinstance(n, ast.Assign) and norm(n.targets[0]) == "ret"]
    ctx.check(sorted(s for s in sks if s) == sorted(["{p.name}={doprint(p.value)}", "{p.name}=ScalarParam({doprint(p.value)}{kwargs_str})"]), "R11.b", sp.key("text"), "name=value | name=ScalarParam(value, unit=.., description=..)", f"print_ScalarParam writes {sks}: the value must be the printer's text for p.value, unmodified", sp.where())
    ud = {norm(n.targets[0]): fstring_skeleton(n.value.orelse) for n in ast.walk(sp.node) if isinstance(n, ast.Assign) and isinstance(n.value, ast.IfExp)}
    ctx.check(ud.get("unit_str") == 'unit="{p.unit_str}"' and ud.get("description") == 'description="{p.description}"', "R11.b", sp.key("annotations"), "unit and description are written", f"print_ScalarParam: unit/description are written as {ud}", sp.where())
    pas = sm.func("codegen/ode.py", "print_assignment")
    sks = [fstring_skeleton(n.value) for n in ast.walk(pas.node) if isinstance(n, ast.Assign) and norm(n.targets[0]) == "s"]
    ctx.check("{a.name} = {doprint(a.expr)}" in sks, "R11.b", pas.key("text"), "name = <printed expression>", f"print_assignment writes {sks}", pas.where())
    ctx.check(any(isinstance(n, ast.AugAssign) and fstring_skeleton(n.value) == " # {unit_or_comment}" for n in ast.walk(pas.node)), "R11.b", pas.key("unit"), "unit / comment appended after #", "print_assignment no longer appends the unit or comment", pas.where())
    so = sm.func("codegen/ode.py", "start_odeblock")
    gens = [n for n in ast.walk(so.node) if isinstance(n, (ast.GeneratorExp, ast.ListComp))]
    ctx.check(bool(gens) and fstring_skeleton(gens[0].elt) == '"{n}"' and norm(gens[0].generators[0].iter) == "names" and not gens[0].generators[0].ifs, "R11.b", so.key("names"), "every component name, quoted", "start_odeblock does not write every component name in quotes", so.where())


def check_apply_all(ctx: Ctx, rule: str):
    """reader side: the generic applications getattr(sympy, <name>)(...) in what expr2symbols computes for `func` and
    `logicalfunc` nodes receive every child after the name, each converted, in order."""
    from sa import av as _av

    from . import util

    be = ctx.sm.func("expressions.py", "build_expression.expr2symbols")
    v = util.value_of(ctx, be)
    tp = be.params[0]
    cases = util.dispatch_cases(v, ("sym", f"{tp}.data"))
    for kind in ("func", "logicalfunc"):
        key = be.key(f"apply-all::{kind}")
        cv = cases.get(kind)
        if cv is None:
            ctx.undecided(rule, key, f"what expr2symbols builds for `{kind}` nodes is not found in its value", be.where())
            continue
        gen = [c for c in _av.find_all(cv, "call") if c[1].startswith("getattr(sympy,")]
        if not gen:
            if _av.has_unk(cv):
                ctx.undecided(rule, key, f"what expr2symbols builds for `{kind}` nodes is not understood", be.where())
            else:
                ctx.undecided(rule, key, f"`{kind}` nodes are not applied through getattr(sympy, name)(...): the application is not judged here", be.where())
            continue
        bad = None
        children = ("slice", ("sym", f"{tp}.children"), _av.C(1), _av.NONE)
        for c in gen:
            a = c[2]
            ok = len(a) == 1 and not c[3] and a[0][0] == "spread" and a[0][1][0] == "comp" and _av._unwrap_seq(a[0][1][2]) == children and not a[0][1][4] and len(a[0][1][3]) == 1 and a[0][1][3][0] == ("call", be.name, (("bv", a[0][1][1]),), ())
            if not ok:
                bad = _av.show(c)[:160]
        ctx.check(bad is None, rule, key, "function applied to every child after the name", f"build_expression applies a `{kind}` as `{bad}` instead of to every converted child after the name: And(a, b, c) as written by the saver loses operands on reload", be.where())
