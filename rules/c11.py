"""C11 - save/load round trip: the writer only emits what the reader accepts, and emits everything."""

from __future__ import annotations

import ast
import re

from sa import gm, pm
from sa.core import Ctx
from sa.sm import call_kw, const_str, dotted, find_calls, fstring_skeleton, norm

from . import printers

RELOPS = {"<": "Lt", "<=": "Le", ">": "Gt", ">=": "Ge", "==": "Eq"}


def grammar(ctx: Ctx) -> gm.GrammarModel:
    if "grammar_model" not in ctx.__dict__:
        ctx.grammar_model = gm.GrammarModel(ctx.repo, getattr(ctx, "overlay", None))
    return ctx.grammar_model


def heads(fragment: str) -> list[str]:
    return re.findall(r"(?<![\w.{])([A-Za-z_]\w*)\(", fragment)


def all_args_joined(f, rule_ctx, ctx: Ctx, rule: str, head: str):
    """`Head(<every argument, comma separated>)`, judged on the text the method returns"""
    from sa import av

    from . import util

    v = util.value_of(ctx, f)
    if not av.has_unk(v) and v[0] == "fold":
        # nested binary calls: Head(...Head(Head(a0, a1), a2)..., an) - every layer must carry the connective's own head
        import re as _re

        def text(t):
            return av.flatten(t).replace(av.HO, "{").replace(av.HC, "}") if av._is_str(t) else None

        init_t, body_t = text(v[3]), text(v[4])
        heads = set(_re.findall(r"([A-Za-z_]\w*)\(", (init_t or "") + (body_t or "")))
        if init_t is None or body_t is None or not heads:
            ctx.undecided(rule, f.key("all-arguments"), f"what {f.qualname} returns is not understood", f.where())
            return
        wrong = sorted(h for h in heads - {"self._print", "_print"} if h != head and not h.endswith("_print"))
        if wrong:
            ctx.fail(rule, f.key("all-arguments"), f"{f.qualname} nests binary calls, but a layer is written as `{wrong[0]}(...)` instead of `{head}(...)` (`{body_t[:60]}` after `{init_t[:60]}`): with three or more operands the saved condition is another connective than the model's", f.where())
            return
        ep_ = f.params[-1]
        k0 = len(_re.findall(r"\{self\._print\(" + _re.escape(ep_) + r"\.args\[\d+\]\)\}", init_t))
        seq_ok = v[2][0] == "slice" and v[2][2] == av.C(k0) and v[2][3] in (av.NONE, av.C(None)) and av._unwrap_seq(v[2][1])[0] == "comp" and av._unwrap_seq(v[2][1])[2] == ("sym", f"{ep_}.args")
        acc_first = _re.fullmatch(_re.escape(head) + r"\(\{acc\$?\d*\}, \{\$\d+\}\)", body_t) is not None
        if seq_ok and acc_first and k0 >= 1:
            ctx.ok(rule, f.key("all-arguments"), f"{head}(...{head}(a0, a1)..., an): nested binary calls over every argument", f.where())
        else:
            ctx.undecided(rule, f.key("all-arguments"), f"{f.qualname} nests binary `{head}` calls in a way that is not recognised ({av.show(v)[:100]})", f.where())
        return
    if av.has_unk(v) or not av._is_str(v):
        ctx.undecided(rule, f.key("all-arguments"), f"what {f.qualname} returns is not understood", f.where())
        return
    flat = av.flatten(v).replace(av.HO, "{").replace(av.HC, "}")
    ep = f.params[-1]
    want = head + "(⟦for $1 in " + ep + ".args|sep=', ': {self._print($1)}⟧)"
    ok = flat == want
    ctx.check(ok, rule, f.key("all-arguments"), f"{head}(<all arguments>)", f"{f.qualname} returns `{flat[:120]}`, not `{head}(` + every printed argument of the connective, comma separated + `)`: operands are lost or the head is wrong when the file is saved", f.where())


def run(ctx: Ctx):
    sm = ctx.sm
    G = grammar(ctx)
    M = printers.model(ctx)
    ctx.assume("numerical equality after reload is NOT decided; the writer's vocabulary and coverage are")
    funcnames = set(G.literals_of("funcname"))
    logical = set(G.literals_of("logicalfuncname"))
    vocab = funcnames | logical | {"ScalarParam"}

    ctx.rule("R11.a", "writer vocabulary is a subset of the reader's: every producible class is printed by a vetted re-parsable method or by a gotranx method that only emits heads the grammar accepts, with the right head for each operator", floor=30)
    check_writer_rows(ctx, "R11.a")
    printers.check_no_unvetted_override(ctx, "R11.a", "ode", skip=pm.NOT_FOR_WRITER)
    # operator table
    check_relational(ctx, "R11.a")
    from sa import av as _av11

    from . import util as _u11
    from .c03 import _branches as _br11

    for cname in ("And", "Or"):
        f = M.method("ode", f"_print_{cname}")
        ctx.require(f, f"writer _print_{cname} not found")
        all_args_joined(f, None, ctx, "R11.a", cname)
    for cname, lit in (("BooleanTrue", "1"), ("BooleanFalse", "0")):
        f = M.method("ode", f"_print_{cname}")
        # read from what the method returns (a constant text on every path)
        tv_ = _u11.value_of(ctx, f) if f else None
        if tv_ is not None and _av11.has_unk(tv_):
            ctx.undecided("R11.a", f"writer::{cname}::literal", f"what the writer's _print_{cname} returns is not understood", f.where())
            continue
        rets = sorted({_av11.flatten(leaf) if _av11._is_str(leaf) else _av11.show(leaf) for _c, leaf in _br11(tv_)}) if tv_ is not None else []
        ctx.check(rets == [lit], "R11.a", f"writer::{cname}::literal", f"{cname} -> {lit}", f".ode writer prints {cname} as {rets}", f.where() if f else "")
    check_writer_piecewise(ctx, "R11.a", M)
    printers.check_not_normalised(ctx, "R11.a")

    # reader side: generic function application uses every argument
    check_apply_all(ctx, "R11.a")
    check_number_forms(ctx, "R11.a", G)

    ctx.rule("R11.b", "coverage: the writer emits comments, states, parameters and all assignments; each helper writes name, value/expression, unit, description and component names unmodified", floor=12)
    w = sm.func("save.py", "write_ODE_to_ode_file")
    A11 = _u11.AV(ctx)
    A11.returned(w)
    wts = [val for fn_, node_, val in A11.call_log if val[0] == "mcall" and val[2] == "write_text" and val[3]]
    SECTION_METHODS = ("print_comments", "print_states", "print_parameters", "print_assignments")
    if wts and not _av11.has_unk(wts[-1][3][0]) and not [c for c in _av11.find_all(wts[-1][3][0], "mcall") if c[2] in SECTION_METHODS]:
        # the text is assembled by helpers (a function of save.py, a method of the printer): expand everything except the
        # four section methods themselves
        A11 = _av11.AV(sm, inline=lambda callee: callee.name not in SECTION_METHODS, cha=True)
        A11.returned(w)
        wts = [val for fn_, node_, val in A11.call_log if val[0] == "mcall" and val[2] == "write_text" and val[3]]
    if not wts or _av11.has_unk(wts[-1][3][0]):
        ctx.undecided("R11.b", w.key("sections"), "what write_ODE_to_ode_file writes is not understood", w.where())
    else:
        text = wts[-1][3][0]
        secs = [c[2] for c in _av11.find_all(text, "mcall") if c[2].startswith("print_") and c[1][0] == "call" and c[1][1].split(".")[-1] == "GotranODECodePrinter"]
        order = [n for n in secs if n in ("print_comments", "print_states", "print_parameters", "print_assignments")]
        ctx.check(order == ["print_comments", "print_states", "print_parameters", "print_assignments"] and len(secs) == 4, "R11.b", w.key("sections"), "comments, states, parameters, assignments", f"write_ODE_to_ode_file emits {secs}", w.where())
        flat = _av11.flatten(text) if _av11._is_str(text) else ""
        holes = re.findall(_av11.HO + r"(.*?)" + _av11.HC, flat, flags=re.S)
        plain = re.sub(_av11.HO + r".*?" + _av11.HC, "", flat, flags=re.S)
        ctx.check(_av11._is_str(text) and plain == "" and len(holes) == 4, "R11.b", w.key("write"), "all sections are written, nothing else", f"write_ODE_to_ode_file writes {_av11.show(text)[:120]}: not exactly the four sections joined", w.where())
    cls = sm.cls("codegen/ode.py", "GotranODECodePrinter")
    check_writer_sections(ctx, "R11.b", cls)
    check_comment_header(ctx, "R11.b", cls)
    check_writer_helpers(ctx, "R11.b")


def check_writer_piecewise(ctx: Ctx, rule: str, M=None):
    """The writer's _print_Piecewise: pairs become nested Conditional(c, e, <rest>) with the *first* pair outermost
    (Piecewise takes the first condition that holds), the default last, every path a Conditional(...)."""
    from sa import av as _av11

    from . import util as _u11

    if M is None:
        M = printers.model(ctx)
    pw = M.method("ode", "_print_Piecewise")
    frs = pm.fragments(pw)
    okpw = "Conditional(" in frs and any(isinstance(n, ast.For) and norm(n.iter) == "zip(conds, exprs)" for n in ast.walk(pw.node)) and any(isinstance(n, ast.If) and _u11.norm_with_constants(ctx, pw, n.test).replace('"', "'") == "c == '1'" for n in ast.walk(pw.node))
    closes = [n for n in ast.walk(pw.node) if isinstance(n, ast.BinOp) and isinstance(n.op, ast.Mult) and const_str(n.left) == ")"]
    okpw = okpw and bool(closes) and norm(closes[0].right) == "len(conds) - 1"
    anchor = any(isinstance(n, ast.For) and norm(n.iter) == "zip(conds, exprs)" for n in ast.walk(pw.node))
    try:
        in_value = any("Conditional(" in t_ for t_ in _u11.strings_in(_u11.value_of(ctx, pw)))
    except Exception:
        in_value = False
    if not anchor and (any("Conditional(" in fr for fr in frs) or in_value):
        ctx.undecided(rule, pw.key("nesting"), "the nested Conditional(...) text is not built by the known loop over zip(conds, exprs); pairing and closing parentheses are not judged", pw.where())
    else:
        ctx.check(okpw, rule, pw.key("nesting"), "nested Conditional(c, e, Conditional(...)) closed once per pair", "writer _print_Piecewise: pairs are not written as nested Conditional(c, e, ...) with the default as last argument", pw.where())
    # every path through the method writes a Conditional(...): a path that returns something else (a bare condition
    # for a 0/1 indicator, say) writes text the loader reads differently in some contexts
    from .c03 import _branches as _brpw

    pwv = _u11.value_of(ctx, pw)
    odd = []
    for _c, leaf in _brpw(pwv):
        if leaf[0] == "raise" or _av11.has_unk(leaf):
            continue
        if any(c_[0] == "not" and c_[1][0] == "slice" and c_[1][3] == _av11.C(-1) for c_ in _c):
            continue  # the path of a Piecewise with the default branch only (sympy folds those away before printing)
        if not any("Conditional(" in t_ for t_ in _u11.strings_in(leaf)):
            odd.append(leaf)
    ctx.check(not odd, rule, pw.key("always-conditional"), "every path writes Conditional(...)", f"writer _print_Piecewise returns `{_av11.show(odd[0])[:100] if odd else ''}` on some path, which is not a Conditional(...) text: a Piecewise saved in another form is not read back as the same Piecewise in every context", pw.where())
    # a step-by-step construction `acc = Conditional(c, e, acc)` puts the pair visited *last* outermost: it must visit
    # the pairs back to front, otherwise the priority of overlapping conditions is reversed in the saved file
    for fo in _av11.find_all(pwv, "fold"):
        step = fo[4] if len(fo) > 4 else None
        if step is None or step[0] != "s" or not any(p_[0] == "lit" and "Conditional(" in p_[1] for p_ in step[1]):
            continue
        holes = [p_[1] for p_ in step[1] if p_[0] == "h"]
        acc_pos = [i for i, h_ in enumerate(holes) if h_[0] == "acc"]
        if not acc_pos:
            continue
        acc_last = acc_pos[0] == len(holes) - 1
        seq_txt = _av11.show(fo[2])
        backwards = "reversed(" in seq_txt or ", -1)" in seq_txt
        ctx.check(acc_last == backwards, rule, pw.key("fold-direction"), "pairs are nested first-outermost", f"writer _print_Piecewise nests `{_av11.show(step)[:60]}` while visiting {seq_txt[:60]} {'back to front' if backwards else 'front to back'}: the first (condition, value) pair does not end up outermost, so where two conditions overlap the reloaded model takes another branch", pw.where())


def check_apply_all(ctx: Ctx, rule: str):
    """reader side: the generic applications getattr(sympy, <name>)(...) in what expr2symbols computes for `func` and
    `logicalfunc` nodes receive every child after the name, each converted, in order."""
    from sa import av as _av

    from . import util

    from . import common as _cm

    be, v, _ref, kt_ = _cm.builder_values(ctx)
    tp = "tree"
    cases = util.dispatch_cases(v, kt_)
    for kind in ("func", "logicalfunc"):
        key = be.key(f"apply-all::{kind}")
        cv = cases.get(kind)
        if cv is None:
            ctx.undecided(rule, key, f"what expr2symbols builds for `{kind}` nodes is not found in its value", be.where())
            continue
        gen = [c for c in _av.find_all(cv, "call") if c[1].startswith("getattr(sympy,")]
        if not gen:
            if _av.has_unk(cv):
                ctx.undecided(rule, key, f"what expr2symbols builds for `{kind}` nodes is not understood", be.where())
            else:
                ctx.undecided(rule, key, f"`{kind}` nodes are not applied through getattr(sympy, name)(...): the application is not judged here", be.where())
            continue
        bad = None
        children = ("slice", ("sym", f"{tp}.children"), _av.C(1), _av.NONE)
        for c in gen:
            a = c[2]
            ok = len(a) == 1 and not c[3] and a[0][0] == "spread" and a[0][1][0] == "comp" and _av._unwrap_seq(a[0][1][2]) == children and not a[0][1][4] and len(a[0][1][3]) == 1 and a[0][1][3][0] == ("call", _cm.BUILD, (("bv", a[0][1][1]),), ())
            if not ok:
                bad = _av.show(c)[:160]
        ctx.check(bad is None, rule, key, "function applied to every child after the name", f"build_expression applies a `{kind}` as `{bad}` instead of to every converted child after the name: And(a, b, c) as written by the saver loses operands on reload", be.where())


SECTIONS = {
    "print_states": ("states", ("sym", "self.ode.states"), "print_ScalarParam", False),
    "print_parameters": ("parameters", ("sym", "self.ode.parameters"), "print_ScalarParam", False),
    "print_assignments": ("expressions", ("op", "+", ("sym", "self.ode.intermediates"), ("sym", "self.ode.state_derivatives")), "print_assignment", True),
}


def check_comment_header(ctx: Ctx, rule: str, cls):
    """print_comments: the text of a comment reaches the file only after it has been cut at its own line breaks (split on
    "\\n" / splitlines / a replace of "\\n"), so that every physical line of the header gets its `#`.  Comment texts of
    imported models (Myokit `desc`, CellML documentation) span several lines; a line written without `#` is model text."""
    from sa import av as _av

    from . import util
    from .c03 import _branches

    f = cls.methods.get("print_comments")
    if f is None:
        return
    key = f.key("every-line-prefixed")

    def cut(t):
        if t[0] != "mcall":
            return False
        if t[2] == "splitlines":
            return True
        return t[2] in ("split", "replace") and bool(t[3]) and t[3][0][0] == "c" and t[3][0][1] in ("\n", "\r\n")

    def bare(t, under=False):
        if not isinstance(t, tuple):
            return []
        if t and t[0] == "attr" and t[-1] == "text" and not under:
            return [t]
        if t and t[0] == "call" and t[1] in ("len", "bool"):
            return []
        u = under or (bool(t) and isinstance(t[0], str) and cut(t))
        out = []
        for x in t:
            out += bare(x, u)
        return out

    # helpers the method delegates to are expanded before a deviation is reported (second chance, §2.8)
    for everything in (False, True):
        v = util.value_of(ctx, f, everything=everything)
        if _av.has_unk(v):
            ctx.undecided(rule, key, "what print_comments returns is not understood", f.where())
            return
        n = 0
        odd = []
        for conds, leaf in _branches(v):
            if leaf[0] in ("raise", "c") or any(c == ("not", leaf) or c == _av.mk_not(leaf) for c in conds):
                continue  # empty on this path
            n += 1
            odd += bare(leaf)
        if n and not odd:
            break
    if not n:
        ctx.undecided(rule, key, "no path of print_comments returns comment text", f.where())
        return
    ctx.check(not odd, rule, key, "comment text is cut at its line breaks before the `#` prefixes are added", "print_comments writes a comment's text without cutting it at its own line breaks: the second line of a multi-line description (Myokit / CellML imports) is written without `#` and the saved file is rejected or read as model text", f.where())


def check_writer_sections(ctx: Ctx, rule: str, cls):
    """print_states / print_parameters / print_assignments, read from the text they compute: one block per group of
    atoms with the same `components`, every atom of the sequence in exactly one group, every member printed by the
    helper, the header naming the group's components; for assignments the header-less group first."""
    from sa import av as _av

    from . import util

    def same(a, b):
        return a is not None and b is not None and _av.canon_binders(a) == _av.canon_binders(b)

    for mname, (case, seq, helper, is_expr) in SECTIONS.items():
        f = cls.methods.get(mname)
        if f is None:
            ctx.broken(f"writer method {mname} not found (anchor vanished)")
        v = util.value_of(ctx, f)
        outer = [c for c in _av.find_all(v, "comp") if any(x[1] == "start_odeblock" for x in _av.find_all(c[3], "call")) and not any(x[1] == "start_odeblock" for x in _av.find_all(c[2], "call") if False)]
        outer = [c for c in outer if c[3] and c[3][0][0] in ("s", "list", "call", "join")]
        keys = {k: f.key(k) for k in ("sequence", "grouping", "helper", "block-header")}
        if _av.has_unk(v) or not outer:
            for k in keys.values():
                ctx.undecided(rule, k, f"what {mname} writes is not understood", f.where())
            if mname == "print_assignments":
                ctx.undecided(rule, f.key("headerless-first"), "what print_assignments writes is not understood", f.where())
            continue
        oc = outer[0]
        d1 = oc[1]
        src = oc[2]
        # the grouping: every comprehension of (x.components +: x) events found in the value
        groupings = [c for c in _av.find_all(v, "comp") if len(c[3]) == 1 and c[3][0][0] == "kadd"]
        D = groupings[0] if groupings else None
        if D is None:
            ctx.undecided(rule, keys["grouping"], f"{mname}: how the atoms are grouped is not recognised", f.where())
            ctx.undecided(rule, keys["sequence"], f"{mname}: how the atoms are grouped is not recognised", f.where())
        else:
            ev = D[3][0]
            okg = ev[1] == ("attr", ("bv", D[1]), "components") and ev[2] == ("bv", D[1]) and not D[4] and all(same(g, D) for g in groupings)
            ctx.check(okg, rule, keys["grouping"], "grouped by component membership", f"{mname} does not group the atoms by their `components` tuple (it records {_av.show(ev)[:80]}{' under a condition' if D[4] else ''})", f.where())
            ctx.check(_av.concat_parts(D[2]) == _av.concat_parts(seq), rule, keys["sequence"], f"iterates {_av.show(seq)}", f"{mname} iterates {_av.show(D[2])[:80]}, not {_av.show(seq)}: some atoms are not saved", f.where())
        # key and group of one block
        if src[0] == "mcall" and src[2] == "items":
            key_t, grp_t, table = ("bv", d1, 0), ("bv", d1, 1), src[1]
        else:
            key_t, grp_t, table = ("bv", d1), None, None
        sbs = [x for x in _av.find_all(oc[3], "call") if x[1] == "start_odeblock"]
        okh = bool(sbs) and not oc[4]
        for x in sbs:
            kw = dict(x[3])
            okh = okh and x[2] == (_av.C(case),) and kw.get("names") == key_t and (kw.get("is_expression", _av.C(False)) == _av.C(is_expr))
        ctx.check(okh, rule, keys["block-header"], f"{case}(<component names>)", f"{mname}: block header is not start_odeblock('{case}', names=<the group's components>) for every group ({_av.show(sbs[0])[:100] if sbs else 'no header'})", f.where())
        inner = [c for c in _av.find_all(oc[3], "comp") if any(x[1] == helper for x in _av.find_all(c[3], "call"))]
        okm = False
        if inner:
            ic = inner[0]
            want_item = ("call", helper, (("bv", ic[1]),), (("doprint", ("sym", "self.doprint")),))
            grp_ok = ic[2] == grp_t if grp_t is not None else (D is not None and ic[2][0] == "sub" and same(ic[2][1], D) and ic[2][2] == key_t)
            okm = ic[3] == (want_item,) and not ic[4] and grp_ok
        ctx.check(okm, rule, keys["helper"], f"every atom of a group goes through {helper}", f"{mname} does not print every atom of each group with {helper}(.., doprint=self.doprint)", f.where())
        if mname != "print_assignments":
            if table is not None and D is not None:
                ctx.check(same(table, D), rule, f.key("all-groups"), "one block per group", f"{mname} writes blocks for {_av.show(table)[:80]}, not for every group of atoms", f.where())
            continue
        # header-less group first
        hk = f.key("headerless-first")
        if table is not None and same(table, D):
            ctx.fail(rule, hk, "print_assignments may write the header-less expressions after a named expressions(...) block; on reload they are absorbed into that block", f.where())
            continue
        ok_hl = None
        if table is not None and table[0] == "comp" and len(table[3]) == 1 and table[3][0][0] == "kv" and D is not None:
            order = _av._unwrap_seq(table[2])
            kvi = table[3][0]
            values_ok = kvi[1] == ("bv", table[1]) and kvi[2][0] == "sub" and same(kvi[2][1], D) and kvi[2][2] == ("bv", table[1]) and not table[4]
            if order[0] == "list" and len(order[1]) == 2 and all(x[0] == "spread" and x[1][0] == "comp" for x in order[1]):
                first, second = order[1][0][1], order[1][1][1]

                def selects_headerless(c):
                    """True / False when the comprehension's filter, evaluated for the key of the atoms without a
                    component ("",) and for keys of named components, is decided; None when it is not"""
                    if not (len(c[4]) == 1 and c[3] == (("bv", c[1]),) and c[2][0] == "mcall" and c[2][2] == "keys" and same(c[2][1], D)):
                        return None
                    try:
                        src = _av.to_python(c[4][0], {c[1]: "_key"})
                    except Exception:
                        return None
                    AE = util.AV(ctx, True)
                    got = []
                    for rep in (("",), ("A",), ("A", "B")):
                        try:
                            r = AE.expr(src, {"_key": ("list", tuple(_av.C(x) for x in rep)), "self": ("sym", "self")}, f.rel, f)
                        except Exception:
                            return None
                        r = _av.renorm_deep(r)
                        if r[0] != "c" or not isinstance(r[1], bool):
                            return None
                        got.append(r[1])
                    return got == [True, False, False]

                def is_headerless(c):
                    return selects_headerless(c) is True

                def is_rest(c):
                    return len(c[4]) == 1 and c[4][0][0] == "cmp" and c[4][0][1] == "not in" and c[4][0][2] == ("bv", c[1]) and c[3] == (("bv", c[1]),) and c[2][0] == "mcall" and c[2][2] == "keys" and same(c[2][1], D) and _av.canon_binders(c[4][0][3]) == _av.canon_binders(first)

                if is_headerless(first) and is_rest(second):
                    ok_hl = values_ok
                elif is_headerless(second):
                    ok_hl = False
                elif is_rest(second) and selects_headerless(first) is False:
                    # the keys are split into a first group and the rest, but the first group is not the header-less one
                    ok_hl = False
        if ok_hl is None:
            ctx.undecided(rule, hk, "print_assignments: the order of the blocks (header-less group first) is not built in the recognised way", f.where())
        else:
            ctx.check(ok_hl, rule, hk, "the header-less group is written before the named blocks", "print_assignments may write the header-less expressions after a named expressions(...) block; on reload they are absorbed into that block", f.where())


def check_writer_helpers(ctx: Ctx, rule: str):
    """print_ScalarParam / print_assignment / start_odeblock: the texts they can return."""
    from sa import av as _av

    from . import util
    from .c03 import _branches

    sm = ctx.sm

    def leaves(f):
        v = util.value_of(ctx, f)
        if _av.has_unk(v):
            return None, v
        v = _av.distribute_ifs(v)
        out = []
        for _c, leaf in _branches(v):
            out.append(leaf)
        return out, v

    def flat(x):
        return _av.flatten(x).replace(_av.HO, "{").replace(_av.HC, "}") if _av._is_str(x) else None

    sp = sm.func("codegen/ode.py", "print_ScalarParam")
    lv, v = leaves(sp)
    p0, dp = sp.params[0], sp.params[1] if len(sp.params) > 1 else "doprint"
    if lv is None:
        ctx.undecided(rule, sp.key("text"), "what print_ScalarParam returns is not understood", sp.where())
        ctx.undecided(rule, sp.key("annotations"), "what print_ScalarParam returns is not understood", sp.where())
    else:
        texts = [flat(x) for x in lv]
        plain = f"{{{p0}.name}}={{{dp}({p0}.value)}}"
        head = f"{{{p0}.name}}=ScalarParam({{{dp}({p0}.value)}}"
        ok = all(t is not None and (t == plain or (t.startswith(head) and t.endswith(")"))) for t in texts) and plain in texts and any(t != plain for t in texts if t)
        ctx.check(ok, rule, sp.key("text"), "name=value | name=ScalarParam(value, unit=.., description=..)", f"print_ScalarParam writes {sorted(set(t or '?' for t in texts))[:3]}: the value must be the printer's text for p.value, unmodified", sp.where())
        strs = util.strings_in(v)
        ctx.check(any(f'unit="{{{p0}.unit_str}}"' in t for t in strs) and any(f'description="{{{p0}.description}}"' in t for t in strs), rule, sp.key("annotations"), "unit and description are written", "print_ScalarParam: unit / description are no longer written as unit=\"..\" / description=\"..\"", sp.where())
        # each annotation is left out exactly when the atom does not have it
        raw_v = util.value_of(ctx, sp)
        for field, text in (("unit_str", f'unit="{{{p0}.unit_str}}"'), ("description", f'description="{{{p0}.description}}"')):
            guards = set()
            for t in _av.find_all(raw_v, "if"):
                a, b = t[2], t[3]
                if a == _av.C("") and flat(b) == text:
                    guards.add(t[1])
                elif b == _av.C("") and flat(a) == text:
                    guards.add(_av.mk_not(t[1]))
            want = ("cmp", "is", ("sym", f"{p0}.{field}"), _av.NONE)
            gkey = sp.key(f"annotation-guard::{field}")
            if not guards:
                ctx.undecided(rule, gkey, f"print_ScalarParam: the condition under which the {field} annotation is left out is not recognised", sp.where())
            else:
                ctx.check(guards == {want}, rule, gkey, f"{field} is left out exactly when it is None", f"print_ScalarParam leaves the {field} annotation out when `{_av.show(sorted(guards, key=repr)[0])}`, not exactly when {p0}.{field} is None: a declared {field} can be dropped from the saved file", sp.where())
    pas = sm.func("codegen/ode.py", "print_assignment")
    lv, v = leaves(pas)
    a0, dp = pas.params[0], pas.params[1] if len(pas.params) > 1 else "doprint"
    if lv is None:
        ctx.undecided(rule, pas.key("text"), "what print_assignment returns is not understood", pas.where())
        ctx.undecided(rule, pas.key("unit"), "what print_assignment returns is not understood", pas.where())
    else:
        texts = [flat(x) for x in lv]
        plain = f"{{{a0}.name}} = {{{dp}({a0}.expr)}}"
        ok = all(t is not None and (t == plain or t.startswith(plain + " # {")) for t in texts) and plain in texts
        ctx.check(ok, rule, pas.key("text"), "name = <printed expression>", f"print_assignment writes {sorted(set(t or '?' for t in texts))[:3]}", pas.where())
        tails = [t[len(plain):] for t in texts if t and t.startswith(plain + " # {")]
        oku = bool(tails) and all(f"{a0}.unit_str" in t and f"{a0}.comment.text" in t for t in tails)
        ctx.check(oku, rule, pas.key("unit"), "unit / comment appended after #", "print_assignment no longer appends the unit or comment", pas.where())
        # whether the annotation is written is decided by the annotation texts themselves (present or not, the
        # dimensionless "1"): a decision taken from the parsed pint unit (or anything else) drops declared units that
        # happen to be dimensionless for pint - radian, percent, mM/mM - from the saved file
        cond_syms = set()
        for c_, _leaf in _branches(_av.distribute_ifs(util.value_of(ctx, pas))):
            for k_ in c_:
                for kind_ in ("sym", "attr", "mcall", "call"):
                    for t_ in _av.find_all(k_, kind_):
                        cond_syms.add(_av.show(t_))
        allowed = {f"{a0}.unit_str", f"{a0}.comment", f"{a0}.comment.text", a0}
        extra = sorted(x for x in cond_syms if x not in allowed and not x.startswith(("'", '"')))
        ctx.check(not extra, rule, pas.key("unit-guard"), "the annotation is written depending on unit_str / comment only", f"print_assignment decides what to append from `{extra[0] if extra else ''}`: a unit string the model declares can be left out of the saved file although it is there (the reloaded model then has no unit for that expression)", pas.where())
    so = sm.func("codegen/ode.py", "start_odeblock")
    v = util.value_of(ctx, so)
    if _av.has_unk(v):
        ctx.undecided(rule, so.key("names"), "what start_odeblock returns is not understood", so.where())
    else:
        names = so.params[1] if len(so.params) > 1 else "names"
        joins = [j for j in _av.find_all(v, "join") if j[2][0] == "comp"]
        okn = bool(joins) and all(j[1] == _av.C(", ") and j[2][2] == ("sym", names) and not j[2][4] and len(j[2][3]) == 1 and flat(j[2][3][0]) == '"{$%d}"' % j[2][1] for j in joins)
        ctx.check(okn, rule, so.key("names"), "every component name, quoted", "start_odeblock does not write every component name in quotes" + (f" (it writes {_av.show(joins[0])[:80]})" if joins else ""), so.where())


# the shapes of number literal the writer can emit (sympy's StrPrinter prints Integer as digits and Float through
# mpmath's to_str at full precision: digits '.' digits, digits '.' when the value is integral and has as many digits
# as the precision, and d '.' digits 'e' sign digits for large / small magnitudes), one witness each
NUMBER_FORMS = {
    "integer": "12",
    "float": "1.5",
    "float below one": "0.001",
    "float ending in the point": "250000000000000000.",
    "negative exponent": "1.0e-5",
    "positive exponent with sign": "2.5e+17",
}


def check_number_forms(ctx: Ctx, rule: str, G):
    """The number terminal of the grammar accepts, as one token, every shape of literal the writer prints."""
    import re

    name = "SCIENTIFIC_NUMBER"
    rx = G.term_regex(name)
    if rx is None:
        ctx.undecided(rule, f"src/gotranx/ode.lark::{name}::accepts", f"terminal {name} is not defined by the grammar any more; which terminal reads numbers is not recognised", "src/gotranx/ode.lark")
        return
    try:
        pat = re.compile(rx)
    except re.error as e:
        ctx.undecided(rule, f"src/gotranx/ode.lark::{name}::accepts", f"the regular expression of {name} cannot be compiled ({e})", "src/gotranx/ode.lark")
        return
    for form, witness in NUMBER_FORMS.items():
        ctx.check(pat.fullmatch(witness) is not None, rule, f"src/gotranx/ode.lark::{name}::accepts::{form}", f"`{witness}` is one {name} token", f"the grammar's number token {name} does not accept `{witness}` ({form}), a form the .ode writer prints for Float / Integer values: a saved model with such a value cannot be loaded again", "src/gotranx/ode.lark")


def check_relational(ctx: Ctx, rule: str):
    """writer: every relational operator is written with the head the loader reads back as the same relation"""
    M = printers.model(ctx)
    rel = M.method("ode", "_print_Relational")
    ctx.require(rel, "BaseGotranODECodePrinter._print_Relational not found")
    from sa import av as _av11

    from . import util as _u11
    from .c03 import _branches as _br11

    rv = _u11.value_of(ctx, rel)
    if _av11.has_unk(rv):
        ctx.undecided(rule, rel.key("relop"), "what _print_Relational returns is not understood", rel.where())
    else:
        ep = rel.params[-1]
        L, R = "{self._print(" + ep + ".lhs)}", "{self._print(" + ep + ".rhs)}"
        # the text written for each operator sympy can hand over: the value specialised to expr.rel_op == <op>
        wants = {op: f"{head}({L}, {R})" for op, head in RELOPS.items()}
        wants["!="] = "Not(Eq(" + L + ", " + R + "))"
        for op, want in wants.items():
            t = _av11.renorm_deep(_av11.subst(rv, {("sym", f"{ep}.rel_op"): _av11.C(op)}))
            key = rel.key(f"relop::{op}")
            if not _av11._is_str(t) or t[0] == "if" or _av11.has(t, "if"):
                ctx.undecided(rule, key, f"what _print_Relational writes for `{op}` does not reduce to one text ({_av11.show(t)[:100]})", rel.where())
                continue
            flat = _av11.flatten(t).replace(_av11.HO, "{").replace(_av11.HC, "}")
            ctx.check(flat == want, rule, key, f"`{op}` -> {want.split('(')[0]}(..)", f"_print_Relational writes `lhs {op} rhs` as `{flat[:90]}`, which the loader reads as another relation than {want.replace(L, 'lhs').replace(R, 'rhs')}", rel.where())


def check_ite_rewritten(ctx: Ctx, rule: str, key: str):
    """The writer has no method for ITE (sympy would write `ITE(a, b, c)`, which the grammar rejects): every condition the
    shared `_print_Piecewise` helper prints goes through `simplify_logic` when it contains one."""
    from sa import av as _av

    from . import util

    f = ctx.sm.func("codegen/base.py", "_print_Piecewise", required=False)
    wr = printers.model(ctx).method("ode", "_print_Piecewise")
    if f is None or wr is None or not any(isinstance(n, ast.Call) and norm(n.func).split(".")[-1] == "_print_Piecewise" and not norm(n.func).startswith("super") for n in ast.walk(wr.node)):
        ctx.undecided(rule, key, "the writer's _print_Piecewise does not print its conditions through codegen.base._print_Piecewise; how an ITE inside a condition is written is not understood", wr.where() if wr else "")
        return
    v = util.value_of(ctx, f)
    if _av.has_unk(v):
        ctx.undecided(rule, key, "what codegen.base._print_Piecewise returns is not understood", f.where())
        return
    printed = [c for c in _av.find_all(v, "mcall") if c[2] == "_print" and any("cond" == a_[-1] for a_ in _av.find_all(c, "attr"))]
    if not printed:
        ctx.undecided(rule, key, "no condition printed by codegen.base._print_Piecewise was found", f.where())
        return

    def guarded(term, path=()):
        """every printing of a raw condition sits in the else-branch of an `if <cond>.has(ITE)` whose then-branch rewrites it"""
        bad = []
        if not isinstance(term, tuple):
            return bad
        if term and term[0] == "if":
            c = term[1]
            is_guard = any(m_[2] == "has" and "ITE" in _av.show(m_) for m_ in _av.find_all(c, "mcall"))
            if is_guard:
                then_ok = any(str(c_[1]).split(".")[-1] in ("simplify_logic", "to_nnf", "to_cnf", "to_dnf") for c_ in _av.find_all(term[2], "call"))
                if not then_ok:
                    bad.append(term[2])
                return bad + guarded(term[3], path + ("else",))
        if term and term[0] == "mcall" and term[2] == "_print" and any("cond" == a_[-1] for a_ in _av.find_all(term, "attr")):
            if "else" not in path and not any(str(c_[1]).split(".")[-1] in ("simplify_logic", "to_nnf", "to_cnf", "to_dnf") for c_ in _av.find_all(term, "call")):
                bad.append(term)
            return bad
        for x in term:
            bad += guarded(x, path)
        return bad

    bad = guarded(v)
    ctx.check(not bad, rule, key, "a condition that contains an ITE is rewritten with simplify_logic before it is printed", f".ode writer: a Piecewise condition is printed as `{_av.show(bad[0])[:90] if bad else ''}` without rewriting an ITE in it (a relation applied to a Conditional becomes one): sympy writes `ITE(a, b, c)`, which the loader rejects", f.where())


def check_writer_rows(ctx: Ctx, rule: str, only: set | None = None):
    """writer rows: every producible class is written by a vetted re-parsable inherited method or by a gotranx method
    that only emits heads the grammar accepts"""
    G = grammar(ctx)
    M = printers.model(ctx)
    funcnames = set(G.literals_of("funcname"))
    logical = set(G.literals_of("logicalfuncname"))
    vocab = funcnames | logical | {"ScalarParam"}
    for mod, name in pm.P_CLASSES:
        if name in pm.NOT_FOR_WRITER or (only is not None and name not in only):
            continue
        r = M.resolve("ode", mod, name)
        key = f"writer::{name}"
        if name in pm.ONLY_IN_CONDITIONS and not r.is_gotranx:
            check_ite_rewritten(ctx, rule, key)
            continue
        if not r.is_gotranx:
            v = pm.vetted("ode", r)
            if v is None:
                ctx.fail(rule, key, f"{name} is written by the inherited {r}, which has not been vetted", "")
                continue
            ctx.check(v.get("reparse", False), rule, key, f"{r} (vetted: re-parsable)", f".ode writer: {name} falls through to the inherited {r}: {v.get('why', 'output is not accepted by ode.lark')}; a saved model cannot be loaded back (or loads as something else)", "")
            if r.method == "_print_Function":
                ctx.check(name in funcnames, rule, key + "::function-name", f"`{name}(` is a grammar function", f"sympy prints {name} as `{name}(...)`, which is not among the grammar's function names {sorted(funcnames)}", "")
            continue
        frs = pm.fragments(r.func)
        bad = sorted({h for fr in frs for h in heads(fr) if h not in vocab})
        infix = [fr for fr in frs if re.search(r"(?<![=!<>])[<>]=?(?!=)|==|!=|&|\||~", fr) and not re.fullmatch(r"[<>=!]=?", fr.strip())]
        ctx.check(not bad and not infix, rule, key, f"{r}: emits only grammar heads", f".ode writer: {r} emits " + (f"heads {bad} that are not in the grammar" if bad else f"infix operators {infix}") + "; the saved file is rejected by the loader", r.func.where())
