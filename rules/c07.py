"""C07 - hybrid Rush-Larsen = RL on the stiff states, Euler elsewhere (clone cross-check)."""

from __future__ import annotations

import ast

from sa import schemes_model as S
from sa import te
from sa.core import Ctx
from sa.sm import call_kw, dotted, find_calls, norm

from . import common
from .c05 import check_counter, check_first_def, check_single_exit


def hybrid_table(ctx: Ctx, rule: str, declare: bool = True):
    """hybrid path table = Euler rows of explicit_euler + RL rows of generalized_rush_larsen, STIFF := the state's own
    name in the given list; returns (model, alias table function, models) or None when it could not be built"""

    def decl(rid, text, floor=0):
        if declare:
            ctx.rule(rid, text, floor=floor)

    sm = ctx.sm
    models = common.scheme_models(ctx)
    gs, table = common.alias_table(ctx)
    ctx.assume("numerical agreement of the three generated steps is NOT decided; the three builders are compared as term tables")
    name = table.get("hybrid_rush_larsen")
    errs = ctx.__dict__.get("_scheme_model_errors", {})
    if name in errs:
        decl(rule, "hybrid path table", floor=1)
        common.check_single_pass(ctx, rule, name)
        ctx.undecided(rule, gs.key("path-table"), f"the path table of {name} is not built: {errs[name][:120]}")
        return None
    if name not in models:
        decl(rule, "hybrid path table", floor=1)
        ctx.fail(rule, gs.key("alias::hybrid_rush_larsen"), f"get_scheme maps 'hybrid_rush_larsen' to {name!r}, which is not a scheme builder", gs.where())
        return None
    m = models[name]
    f = m.func

    decl(rule,
        "hybrid path table = {not STIFF or DIFF_ZERO -> the Euler term of explicit_euler; STIFF and not DIFF_ZERO -> the two terms of generalized_rush_larsen}, "
        "with STIFF := X.state.name in set(stiff_states) and None -> empty",
        floor=8,
    )
    check_first_def(ctx, rule, m)
    check_counter(ctx, rule, m)
    check_single_exit(ctx, rule, m)
    common.check_single_pass(ctx, rule, name)
    # the stiff set
    stiff_sets = set()
    for r in m.rows:
        for a, _ in r.lits:
            if a.startswith("STIFF["):
                stiff_sets.add(a[6:-1])
            elif a.startswith("IN["):
                ctx.fail(rule, f.key(f"membership::{a}"), f"stiffness is decided by `{a[3:-1]}`, not by membership of the *state's* name in the stiff set", f.where(m.loop))
    ctx.check(len(stiff_sets) == 1, rule, f.key("stiff-predicate"), f"stiffness test is X.state.name in {sorted(stiff_sets)}", f"expected exactly one stiffness predicate `X.state.name in <set>`, found {sorted(stiff_sets)}", f.where(m.loop))
    if len(stiff_sets) == 1 and getattr(m, "from_av", False):
        # read from the builder's value: the test is `X.state.name in <S>`; S must be the stiff_states argument
        # (through set(...) or not) and None must mean "no stiff state"
        sname = stiff_sets.pop()
        ctx.check(sname == "stiff_states", rule, f.key("stiff-set-source"), "the stiff set is the stiff_states argument", f"stiffness is membership of the state's name in `{sname}`, not in the stiff_states argument", f.where())
        ctx.check(bool(m.stiff_none_ok), rule, f.key("none-means-empty"), "stiff_states=None means no stiff state", "stiff_states=None is not mapped to the empty collection before membership is tested", f.where())
    elif len(stiff_sets) == 1:
        sname = stiff_sets.pop()
        src = m.pre.get(sname)
        ok = src is not None and "stiff_states" in {n.id for n in ast.walk(src) if isinstance(n, ast.Name)} and isinstance(src, (ast.Call, ast.BoolOp))
        if ok:
            calls = [c for c in ast.walk(src) if isinstance(c, ast.Call)]
            ok = bool(calls) and all((dotted(c.func) or "") in ("set", "frozenset") for c in calls)
        ctx.check(ok, rule, f.key("stiff-set-source"), f"{sname} = set(stiff_states)", f"the stiff set `{sname}` is not built as set(stiff_states): {norm(src) if src is not None else None}", f.where())
        none_ok = any(k.startswith("if:stiff_states is None:stiff_states") for k in m.pre) or "stiff_states or" in (norm(src) if src is not None else "")
        ctx.check(none_ok, rule, f.key("none-means-empty"), "stiff_states=None means no stiff state", "stiff_states=None is not mapped to the empty collection before the set is built", f.where())
    # rows: the hybrid builder is compared with its two siblings *of the same tree* (if generalized RL itself is
    # wrong that is C06's finding; C07 only asks that hybrid equals it on the stiff states and equals Euler elsewhere)
    euler = models.get(table.get("explicit_euler", ""), None)
    grl = models.get(table.get("generalized_rush_larsen", ""), None)
    euler_rows = [r for r in (euler.rows if euler else []) if r.store is not None]
    euler_term = euler_rows[0].store[1] if euler_rows else S.EULER
    grl_rows = {}
    if grl:
        for r in grl.rows:
            l = S.normalise_lits(r.lits)
            if r.store is not None and dict(l).get("ISDERIV") and dict(l).get("DIFF_ZERO") is False:
                grl_rows[frozenset(l)] = r
    deriv_rows = [r for r in m.rows if dict(S.normalise_lits(r.lits)).get("ISDERIV")]
    cases = set()
    for r in deriv_rows:
        lset = S.normalise_lits(r.lits)
        l = dict(lset)
        stiff = [v for k, v in l.items() if k.startswith("STIFF[")]
        stiff = stiff[0] if stiff else None
        dz = l.get("DIFF_ZERO")
        key = f.key(f"row::{sorted(l.items())}")
        if stiff is None:
            ctx.fail(rule, key, f"{f.name} path [{r.raw_pred}] does not depend on the stiffness of the state", f.where(m.loop))
            continue
        if stiff is False or dz is True:
            cases.add("euler")
            okk = r.store is not None and r.store[1] == euler_term
            ctx.check(
                okk,
                rule,
                key,
                "non-stiff (or identically-zero derivative): the explicit Euler term",
                f"{f.name} path [{r.raw_pred}] stores {te.show(r.store[1]) if r.store else None}; explicit_euler stores {te.show(euler_term)} for the same state",
                f.where(r.store[2]) if r.store else f.where(m.loop),
            )
        elif stiff is True and dz is False:
            cases.add("rl")
            rest = frozenset((k, v) for k, v in lset if not k.startswith("STIFF["))
            sib = grl_rows.get(rest)
            if sib is None and grl is None and table.get("generalized_rush_larsen", "") in errs:
                # the sibling's path table could not be built (its emission is not understood): there is nothing to
                # compare with; the stiff branch is judged against the vetted terms instead
                want = S.GRL_GUARDED if l.get("NEED_GUARD") is True else (S.GRL_PLAIN if l.get("NEED_GUARD") is False else None)
                if want is None or r.store is None:
                    ctx.undecided(rule, key, f"{f.name} path [{r.raw_pred}]: the path table of generalized_rush_larsen is not built; the stiff branch is not compared", f.where(m.loop))
                else:
                    ctx.check(r.store[1] == want, rule, key, "stiff branch stores the vetted Rush-Larsen term (the sibling's table is not built)", f"{f.name} path [{r.raw_pred}] stores {te.show(r.store[1])}, not the Rush-Larsen term", f.where(r.store[2]))
                continue
            if sib is None:
                ctx.fail(rule, key, f"{f.name} path [{r.raw_pred}]: generalized_rush_larsen has no path with the same conditions {sorted(rest)}; the stiff branch is not a copy of it", f.where(r.store[2]) if r.store else f.where(m.loop))
                continue
            same_store = r.store is not None and r.store[1] == sib.store[1]
            defs_h = [(a, b) for a, b, _ in r.emissions[: r.store[3]]] if r.store else []
            defs_g = [(a, b) for a, b, _ in sib.emissions[: sib.store[3]]]
            ctx.check(
                same_store and defs_h == defs_g,
                rule,
                f.key(f"clone::{sorted(l.items())}"),
                "stiff branch is term-identical to generalized_rush_larsen (definitions and stored term)",
                f"{f.name} path [{r.raw_pred}] emits {[te.show(a) + ' := ' + te.show(b) for a, b in defs_h]} and stores {te.show(r.store[1]) if r.store else None}; generalized_rush_larsen emits {[te.show(a) + ' := ' + te.show(b) for a, b in defs_g]} and stores {te.show(sib.store[1])} in the same case: the duplicated formula has drifted",
                f.where(r.store[2]) if r.store else f.where(m.loop),
            )
        else:
            ctx.fail(rule, key, f"{f.name} path [{r.raw_pred}]: a stiff state reaches the update without the identically-zero test of its own-state derivative", f.where(m.loop))
    for c in ("euler", "rl"):
        ctx.check(c in cases, rule, f.key(f"has-{c}-case"), f"{c} case present", f"{f.name} has no {c} path", f.where())
    if grl:
        seen = {frozenset((k, v) for k, v in S.normalise_lits(r.lits) if not k.startswith("STIFF[")) for r in deriv_rows if dict(S.normalise_lits(r.lits)).get("DIFF_ZERO") is False and any(k.startswith("STIFF[") and v for k, v in S.normalise_lits(r.lits))}
        for k in grl_rows:
            ctx.check(k in seen, rule, f.key(f"covers::{sorted(k)}"), "every generalized-RL case has its hybrid counterpart", f"{f.name} has no stiff path for the generalized-RL case {sorted(k)}", f.where())

    return m, f, models, name


def run(ctx: Ctx):
    sm = ctx.sm
    got = hybrid_table(ctx, "R07.a")
    if got is None:
        return
    m, f, models, name = got
    from .c01 import conditional_builder

    conditional_builder(ctx, "R07.a")  # the guard of the stiff branch is built with sympytools.Conditional (see R06.a)
    add = None
    ctx.rule("R07.b", "stiff_states reaches hybrid_rush_larsen only, from get_code through add_schemes", floor=4)
    add = sm.func("cli/utils.py", "add_schemes")
    common.check_scheme_kwargs(ctx, "R07.b", "stiff_states")
    common.check_scheme_kwargs(ctx, "R07.b", "delta", only_builders={name})
    ctx.check("stiff_states" in f.params, "R07.b", f.key("param"), "hybrid builder has a stiff_states parameter", "hybrid_rush_larsen has no stiff_states parameter", f.where())
    others = [mm.func.name for nm, mm in models.items() if nm != name and "stiff_states" in mm.func.params]
    ctx.check(not others, "R07.b", f.key("only-hybrid"), "no other builder takes stiff_states", f"other builders take stiff_states: {others}", f.where())
    from .c18 import check_config_keys, check_value_forwarding, dispatched_calls, get_code_calls

    check_config_keys(ctx, "R07.b", only_keys={"stiff_states", "scheme"})

    for cname, (cmd, calls, _log, _err) in dispatched_calls(ctx).items():
        by_node: dict[int, list] = {}
        for val, mm, node in calls or []:
            if "stiff_states" in mm.params:
                by_node.setdefault(id(node), []).append((val, mm))
        for group in by_node.values():
            mm = group[0][1]
            check_value_forwarding(ctx, "R07.b", cmd, [v for v, _m in group], mm, None, skip=set(mm.params) - {"stiff_states", "delta", "scheme"})
    for short in ("cli/gotran2py.py", "cli/gotran2c.py"):
        mainf = sm.func(short, "main")
        gcf = sm.func(short, "get_code")
        gvals = get_code_calls(ctx, short)
        if gvals:
            check_value_forwarding(ctx, "R07.b", mainf, gvals, gcf, None, skip=set(gcf.params) - {"stiff_states", "delta", "scheme"})
    from .c18 import check_get_code_forwards

    check_get_code_forwards(ctx, "R07.b", "stiff_states")
    from .c12 import check_generator_purity

    # stiff_states arrives as a keyword of CodeGenerator.scheme: a text remembered from an earlier call would be the
    # text for the earlier subset
    check_generator_purity(ctx, "R07.b", only={"scheme"})
