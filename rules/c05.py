"""C05 - explicit Euler step equals states + dt*rhs (structural clauses; numerics not decided)."""

from __future__ import annotations

import ast

from sa import schemes_model as S
from sa import te, tm
from sa.core import Ctx
from sa.sm import call_kw, const_str, dotted, find_calls, norm

from . import common


def check_first_def(ctx: Ctx, rule: str, m: S.SchemeModel):
    f = m.func
    for r in m.rows:
        ctx.check(
            r.first_def_ok,
            rule,
            f.key(f"first-emission::{sorted(S.normalise_lits(r.lits))}"),
            "each assignment is printed (X.symbol := X.expr) before anything that uses it",
            f"path [{r.raw_pred}] of {f.name} does not start by printing the assignment itself (X.symbol := X.expr): "
            + (te.show(r.emissions[0][0]) + " := " + te.show(r.emissions[0][1]) if r.emissions else "nothing emitted"),
            f.where(m.loop),
        )


def check_definitions_declared(ctx: Ctx, rule: str, m: S.SchemeModel):
    """every definition a builder prints (the assignment itself, the linearisation symbol) asks for the variable prefix:
    in C that prefix is the declaration (`const double x = ...`); without it the generated function assigns to an
    undeclared identifier"""
    f = m.func
    if not getattr(m, "from_av", False):
        ctx.undecided(rule, f.key("definitions-declared"), f"{f.name}: the path table was not read from the builder's value; the keyword arguments of the printer calls are not judged", f.where())
        return
    bad = []
    for r in m.rows:
        for lhs, _rhs, info in r.emissions:
            if isinstance(info, dict) and not info.get("prefixed", True):
                bad.append((r.raw_pred, te.show(lhs)))
    ctx.check(not bad, rule, f.key("definitions-declared"), "definitions are printed with use_variable_prefix=True", f"{f.name} prints the definition of {bad[0][1] if bad else ''} (path [{bad[0][0] if bad else ''}]) without use_variable_prefix=True: the C function assigns to an identifier that was never declared (the translation unit does not compile), while the Python output is unchanged", f.where())


def check_single_exit(ctx: Ctx, rule: str, m: S.SchemeModel):
    """The builder has one exit (the list of equations after the loop) and does not modify what it was given."""
    from .common import param_mutations

    f = m.func
    if getattr(m, "from_av", False):
        # the path table was read from the builder's value: that value is one comprehension over the sorted
        # assignments, i.e. there is no other exit (an early return would make it a conditional)
        ctx.ok(rule, f.key("single-exit"), "the only exit returns the equations built by the one pass", f.where())
        muts = param_mutations(f)
        ctx.check(not muts, rule, f.key("arguments-untouched"), "the builder does not modify its arguments", f"{f.name}: " + "; ".join(w for _, w in muts[:3]) + " - a second generation with the same argument object gives another result", f.where(muts[0][0]) if muts else f.where())
        return
    rets = [n for n in ast.walk(f.node) if isinstance(n, ast.Return)]
    last = f.node.body[-1]
    ok = len(rets) == 1 and rets[0] is last and isinstance(rets[0].value, ast.Name) and rets[0].value.id == m.result_list
    extra = [r for r in rets if r is not last]
    ctx.check(ok, rule, f.key("single-exit"), "the only exit returns the equations built by the loop", f"{f.name} has {len(rets)} return statement(s); " + (f"an early exit `{norm(extra[0])[:80]}` bypasses the per-state construction for some inputs" if extra else "the final statement is not `return <equations>`"), f.where(extra[0]) if extra else f.where())
    muts = param_mutations(f)
    ctx.check(not muts, rule, f.key("arguments-untouched"), "the builder does not modify its arguments", f"{f.name}: " + "; ".join(w for _, w in muts[:3]) + " - a second generation with the same argument object gives another result", f.where(muts[0][0]) if muts else f.where())


def check_counter(ctx: Ctx, rule: str, m: S.SchemeModel):
    """Slot discipline: one store per derivative path at the counter, counter advanced once, after the store."""
    f = m.func
    ctx.check(
        getattr(m, "from_av", False) or (m.counter is not None and isinstance(m.counter_init, ast.Constant) and m.counter_init.value == 0),
        rule,
        f.key("counter-init"),
        "slot counter starts at 0",
        f"{f.name}: slot counter not found or not initialised to 0",
        f.where(),
    )
    saw_deriv = False
    for r in m.rows:
        lits = dict(S.normalise_lits(r.lits))
        if "ISDERIV" not in lits:
            continue
        key = f.key(f"slot::{sorted(S.normalise_lits(r.lits))}")
        if lits["ISDERIV"]:
            saw_deriv = True
            okk = r.stores == 1 and r.store[0] == te.atom("CTR") and r.incs_before_store == 0 and r.incs_after_store == 1 and not r.notes
            ctx.check(
                okk,
                rule,
                key,
                "derivative path: exactly one store at values[counter], counter advanced exactly once after it",
                f"{f.name} path [{r.raw_pred}]: stores={r.stores}, index={te.show(r.store[0]) if r.store else None}, "
                f"counter increments before/after the store={r.incs_before_store}/{r.incs_after_store} {r.notes}: "
                "the result for this state does not land in its own slot",
                f.where(r.store[2]) if r.store else f.where(m.loop),
            )
        else:
            ctx.check(
                r.stores == 0 and r.incs_before_store + r.incs_after_store == 0,
                rule,
                key,
                "non-derivative path: no store, counter untouched",
                f"{f.name} path [{r.raw_pred}]: a path for a non-derivative assignment stores into the result or advances the slot counter "
                f"(stores={r.stores}, increments={r.incs_before_store + r.incs_after_store})",
                f.where(m.loop),
            )
    if not saw_deriv:
        ctx.broken(f"{f.key()}: no path is guarded by isinstance(x, StateDerivative); the scheme builder no longer has the analysed shape")


def run(ctx: Ctx):
    sm = ctx.sm
    models = common.scheme_models(ctx)
    gs, table = common.alias_table(ctx)
    ctx.assume("numerical equality of the generated step with states + dt*rhs is NOT decided; only the structure of the generator is")
    ctx.assume("sympy prints Add/Mul/Indexed as written (vetted printer rows, see C01/C02)")

    # ---- R05.a path table of the explicit Euler builder ------------------------
    ctx.rule("R05.a", "explicit Euler path table: every derivative path stores STATE + DT*DERIV at the state's slot after defining the derivative; nothing else is stored", floor=4)
    euler_name = table.get("explicit_euler")
    errs = ctx.__dict__.get("_scheme_model_errors", {})
    if euler_name is not None and (euler_name in models or euler_name in errs):
        common.check_single_pass(ctx, "R05.a", euler_name)
    if euler_name in errs:
        ctx.undecided("R05.a", gs.key("path-table"), f"the path table of {euler_name} is not built: {errs[euler_name][:120]}")
        euler_name = None
    elif euler_name is None or euler_name not in models:
        ctx.fail("R05.a", gs.key("alias::explicit_euler"), f"get_scheme does not map 'explicit_euler' to a scheme builder (maps to {euler_name!r})", gs.where())
        euler_name = "explicit_euler" if "explicit_euler" in models else None
    if euler_name:
        m = models[euler_name]
        f = m.func
        check_first_def(ctx, "R05.a", m)
        check_counter(ctx, "R05.a", m)
        check_single_exit(ctx, "R05.a", m)
        for r in m.rows:
            lits = dict(S.normalise_lits(r.lits))
            if lits.get("ISDERIV") and r.store is not None:
                ctx.check(
                    r.store[1] == S.EULER,
                    "R05.a",
                    f.key(f"formula::{sorted(S.normalise_lits(r.lits))}"),
                    "stored term is STATE + DT*DERIV",
                    f"{f.name} path [{r.raw_pred}] stores {te.show(r.store[1])} instead of {te.show(S.EULER)}",
                    f.where(r.store[2]),
                    trace=[f"path predicate: {r.raw_pred}", f"found   : {te.show(r.store[1])}", f"expected: {te.show(S.EULER)}"],
                )

    # ---- R05.b aliases -----------------------------------------------------------
    ctx.rule("R05.b", "every accepted scheme name (and every Scheme enum value) maps to the builder of its family; the generated function carries the requested name", floor=8)
    enum = common.enum_values(ctx, "schemes.py", "Scheme")
    for alias, target in sorted(table.items()):
        exp = common.expected_builder(alias)
        ctx.check(
            target == exp,
            "R05.b",
            gs.key(f"alias::{alias}"),
            f"'{alias}' -> {target}",
            f"get_scheme maps '{alias}' to {target}, expected the {exp} builder",
            gs.where(),
        )
    for member, value in sorted(enum.items()):
        ctx.check(value in table, "R05.b", gs.key(f"enum::{value}"), f"Scheme.{member} accepted by get_scheme", f"Scheme.{member} = '{value}' is not accepted by get_scheme (falls through to ValueError)", gs.where())
    # the name given to the returned function is the requested name
    from sa import av as _avn

    vals = ctx.__dict__.get("_alias_values", {})
    if not vals:
        ctx.undecided("R05.b", gs.key("co_name"), "what get_scheme returns is not understood")
    else:
        bad_names = []
        for alias, v in sorted(vals.items()):
            reps = [c for c in _avn.find_all(v, "mcall") if c[2] == "replace" and "co_name" in dict(c[4])] + [c for c in _avn.find_all(v, "call") if c[1].endswith(".replace") and "co_name" in dict(c[3])]
            names = {dict(c[4] if c[0] == "mcall" else c[3])["co_name"] for c in reps}
            if names != {_avn.C(alias)}:
                bad_names.append((alias, sorted(_avn.show(n) for n in names)))
        ctx.check(not bad_names, "R05.b", gs.key("co_name"), "returned function is renamed to the requested scheme name", f"get_scheme does not rename the returned function to the requested name (co_name: {bad_names[:3]})", gs.where())
    cg = sm.func("codegen/base.py", "CodeGenerator.scheme")
    from sa import av as _avcg

    from . import util as _util

    cgv = _util.value_of(ctx, cg)
    tcalls = [m_ for m_ in _avcg.find_all(cgv, "mcall") if m_[2] == "method" and _avcg.show(m_[1]).endswith("template")]
    fparam = cg.params[1]
    if not tcalls:
        ctx.undecided("R05.b", cg.key("method-name"), "CodeGenerator.scheme: the template.method(...) call is not found in what it computes; the name of the generated function is not judged", cg.where())
    else:
        nm = dict(tcalls[0][4]).get("name")
        ok = nm is not None and _avcg.show(nm) in (f"{fparam}.__code__.co_name", f"{fparam}.__name__")
        ctx.check(ok, "R05.b", cg.key("method-name"), "generated function is named after the scheme function's code name", f"CodeGenerator.scheme names the generated function {_avcg.show(nm) if nm is not None else None!r}, not the scheme function's name", cg.where())

    builders = set(table.values())
    bad = []
    for fn_, obj, attr, _val, node_ in ctx.__dict__.get("_alias_attr_stores", []):
        if obj[0] == "sym" and obj[1].split(".")[0] in builders:
            bad.append(f"{obj[1]}.{attr} = ...")
    # stores through a subscript / attribute chain rooted at a builder name (e.g. builder.__dict__[...])
    for n in ast.walk(gs.node):
        if isinstance(n, (ast.Assign, ast.AugAssign)):
            for t in n.targets if isinstance(n, ast.Assign) else [n.target]:
                root = t
                while isinstance(root, (ast.Attribute, ast.Subscript)):
                    root = root.value
                if root is not t and isinstance(root, ast.Name) and root.id in builders:
                    bad.append(norm(n)[:70])
    bad = sorted(set(bad))
    ctx.check(not bad, "R05.b", gs.key("no-in-place-rename"), "the module-level builder is not modified", f"get_scheme modifies the module-level builder itself ({bad}): after another alias has been requested the same builder generates a function under the wrong name", gs.where())

    # ---- R05.c inputs untouched / result array -------------------------------------
    ctx.rule("R05.c", "the step allocates a fresh result array, writes only there, returns it; inputs are const / never stored through", floor=6)
    check_jax_decorators(ctx, "R05.c")
    from . import util as _util
    from sa import av as _av0

    for short in ("templates/python.py", "templates/jax.py"):
        sk = _util.skeleton(ctx, "R05.c", short, "method", {"nan_to_num": _av0.C(False)} if short.endswith("python.py") else None)
        if sk is None:
            continue
        tree = tm.py_parse(sk)
        bad = []
        for n in ast.walk(tree):
            tgts = []
            if isinstance(n, ast.Assign):
                tgts = n.targets
            elif isinstance(n, (ast.AugAssign, ast.AnnAssign)):
                tgts = [n.target]
            for t in tgts:
                for s in ast.walk(t):
                    if isinstance(s, ast.Subscript) and isinstance(s.value, ast.Name) and s.value.id in ("states", "parameters", "PH_args"):
                        bad.append(norm(n))
                    if isinstance(s, ast.Name) and s.id in ("states", "parameters") and isinstance(t, ast.Name):
                        bad.append(norm(n))
        ctx.check(not bad, "R05.c", f"src/gotranx/{short}::method::no-store-through-inputs", "method skeleton has no store through states/parameters", f"{short} method template writes through an input: {bad}", sk.func.where())
    # python backend: values_type of the Func tuples must allocate
    from .c04 import func_tuple as _ft0

    for qn in ("PythonCodeGenerator._rhs_arguments", "PythonCodeGenerator._scheme_arguments"):
        f = sm.func("codegen/python.py", qn)
        kw, v_ = _ft0(ctx, f)
        if kw is None:
            ctx.undecided("R05.c", f.key("values_type"), f"{qn} does not return a Func(...) tuple that is understood ({_av0.show(v_)[:80]})", f.where())
            continue
        vtv, rnv = kw.get("values_type"), kw.get("return_name")
        vt = vtv[1] if vtv is not None and vtv[0] == "c" and isinstance(vtv[1], str) else ""
        rn = rnv[1] if rnv is not None and rnv[0] == "c" and isinstance(rnv[1], str) else ""
        allocs = vt.startswith(("numpy.zeros", "numpy.empty", "numpy.full"))
        ctx.check(allocs, "R05.c", f.key("values_type"), f"result allocated by {vt}", f"{qn}: result array expression {vt!r} does not allocate a fresh array (inputs could be aliased and modified)", f.where())
        ctx.check(rn == "values", "R05.c", f.key("return_name"), "result array is called 'values'", f"{qn}: return_name is {rn!r}; the templates and printers write to 'values'", f.where())
    # the scheme writes to the array that is returned
    # (read from the value of CodeGenerator.scheme: the builder call f(...) and the template.method(...) call)
    bcalls = [c_ for c_ in _avcg.find_all(cgv, "call") if c_[1] == fparam]
    if not tcalls or not bcalls:
        ctx.undecided("R05.c", cg.key("name==return_name"), "CodeGenerator.scheme: the builder call / the template.method(...) call is not found in what it computes", cg.where())
    else:
        kw_name = dict(bcalls[0][3]).get("name")
        kw_ret = dict(tcalls[0][4]).get("return_name")
        ctx.check(
            kw_name is not None and kw_ret is not None and kw_name == kw_ret,
            "R05.c",
            cg.key("name==return_name"),
            "scheme builder writes to the array the template returns",
            f"CodeGenerator.scheme passes name={_avcg.show(kw_name) if kw_name else None} to the builder but return_name={_avcg.show(kw_ret) if kw_ret else None} to the template",
            cg.where(),
        )
    # ... and allocates it with the expression the argument table provides (checked above to be a fresh array), on every
    # path and for every shape: an allocation rewritten on the way (asarray / a view of `states`) aliases the caller's array
    if tcalls:
        vt_ = dict(tcalls[0][4]).get("values_type")
        if vt_ is None or _avcg.has_unk(vt_):
            ctx.undecided("R05.c", cg.key("allocation-unmodified"), "the values_type handed to the method template is not understood", cg.where())
        else:
            okv = vt_[0] == "attr" and vt_[2] == "values_type" and vt_[1][0] == "mcall" and vt_[1][2] == "_scheme_arguments"
            ctx.check(okv, "R05.c", cg.key("allocation-unmodified"), "values_type = self._scheme_arguments(order).values_type", f"CodeGenerator.scheme allocates the result with `{_avcg.show(vt_)[:140]}`, not with the allocation expression of the argument table as it is: on some path the step no longer writes into a fresh array (its input can be overwritten and returned)", cg.where())
    # C backend: const formals
    from sa import av as _av

    from . import util
    from .c04 import func_tuple

    for qn in ("CCodeGenerator._rhs_arguments", "CCodeGenerator._scheme_arguments"):
        f = sm.func("codegen/c.py", qn)
        dflt = dict(zip([a.arg for a in f.node.args.args][len(f.node.args.args) - len(f.node.args.defaults):], f.node.args.defaults))
        bind = {k: _av.C(v.value) for k, v in dflt.items() if isinstance(v, ast.Constant) and isinstance(v.value, bool)}
        kw, v = func_tuple(ctx, f, bind)
        ents = {}
        if kw and kw.get("arguments") is not None:
            for cp in _av.find_all(kw["arguments"], "comp"):
                for it in cp[3]:
                    if it[0] == "sub" and it[1][0] == "dict":
                        ents = {k[1]: x for k, x in it[1][1] if k[0] == "c"}
        if not ents or any(_av.has_unk(x) for x in ents.values()):
            ctx.undecided("R05.c", f.key("const-formals"), f"the formal argument table is not understood ({_av.show(v)[:100]})", f.where())
            continue
        sv, pv = ents.get("s"), ents.get("p")
        okc = sv is not None and pv is not None and sv[0] == "c" and pv[0] == "c" and str(sv[1]).startswith("const ") and str(pv[1]).startswith("const ")
        ctx.check(okc, "R05.c", f.key("const-formals"), "states and parameters are const pointers by default", f"{qn}: states/parameters formals are not const by default (s: {_av.show(sv) if sv else None}, p: {_av.show(pv) if pv else None})", f.where())

    # ---- R05.d the dt symbol is the formal argument -----------------------------
    ctx.rule("R05.d", "the time-step symbol printed in the body has the name of the formal time-step argument in every backend", floor=3)
    from sa import av as _avd

    from . import util as _ud

    sv = _ud.value_of(ctx, cg)
    bcalls = [c for c in _avd.find_all(sv, "call") if c[1] == fparam]
    dtname = None
    if bcalls and len(bcalls[0][2]) > 1:
        second = bcalls[0][2][1]
        if second[0] == "call" and second[1] == "sympy.Symbol" and second[2] and second[2][0][0] == "c":
            dtname = second[2][0][1]
    if not bcalls and _avd.has_unk(sv):
        ctx.undecided("R05.d", cg.key("dt-symbol"), "how CodeGenerator.scheme calls the builder is not understood", cg.where())
    else:
        ctx.check(dtname is not None, "R05.d", cg.key("dt-symbol"), f"builder receives Symbol('{dtname}') as dt", f"CodeGenerator.scheme does not pass a sympy.Symbol as the builder's dt argument (it passes {_avd.show(bcalls[0][2][1])[:60] if bcalls and len(bcalls[0][2]) > 1 else None})", cg.where())
    from .c04 import func_tuple as _ft

    for short, qn in (("codegen/python.py", "PythonCodeGenerator._scheme_arguments"), ("codegen/c.py", "CCodeGenerator._scheme_arguments")):
        f = sm.func(short, qn)
        kw, v = _ft(ctx, f)
        ents = {}
        if kw and kw.get("arguments") is not None:
            for cp in _avd.find_all(kw["arguments"], "comp"):
                for it in cp[3]:
                    if it[0] == "sub" and it[1][0] == "dict":
                        ents = {k[1]: x for k, x in it[1][1] if k[0] == "c"}
        dv_ = ents.get("d")
        if dv_ is None or not _avd._is_str(dv_):
            ctx.undecided("R05.d", f.key("d-formal"), f"the formal for 'd' is not understood ({_avd.show(v)[:80]})", f.where())
            continue
        dv = _avd.flatten(dv_)
        ctx.check(dtname is None or dv.split()[-1:] == [dtname], "R05.d", f.key("d-formal"), f"formal for 'd' is '{dv}'", f"{qn}: the formal for 'd' is {dv!r} but the body uses the symbol {dtname!r}", f.where())

    # ---- R05.e / R05.f slots and argument order ----------------------------------------------------
    ctx.rule("R05.e", "the step for state X is stored at state_index(X) (STATE slot family)", floor=6)
    from .c04 import check_state_order_accessors

    check_state_order_accessors(ctx, "R05.e")
    from .c04 import argument_orders, slot_families

    slot_families(ctx, "R05.e", only_family="STATE", floor=False, producers=lambda p: p.func.qualname in ("CodeGenerator.initial_state_values", "CodeGenerator._state_assignments", euler_name or "explicit_euler"))
    ctx.rule("R05.f", "every argument order names states, t, dt, parameters by their own letters", floor=10)
    from .c12 import check_generator_purity

    # the argument tuple is computed from `order` on every call (a Func remembered from an earlier call fixes the
    # signature of every later scheme, and `arguments += [...]` in the caller would grow the remembered list)
    check_generator_purity(ctx, "R05.f", only={"_scheme_arguments", "_rhs_arguments", "scheme"}, classes=(("codegen/base.py", "CodeGenerator"), ("codegen/python.py", "PythonCodeGenerator"), ("codegen/c.py", "CCodeGenerator"), ("codegen/jax.py", "JaxCodeGenerator")))
    argument_orders(ctx, "R05.f")
    ctx.rule("R05.h", "the step function is complete for every model: the number of values it returns is the number of states (not of the states that survive remove_unused), and it unpacks every state it reads - only rhs filters the unpacking, and liveness is `name in ODE.dependents()`", floor=10)
    from .c03 import return_arity
    from .c12 import liveness_rules

    return_arity(ctx, "R05.h")
    liveness_rules(ctx, {"a": "R05.h", "b": "R05.h"}, declare=False)
    common.check_scheme_independence(ctx, "R05.h")
    ctx.rule("R05.g", "the jax step returns the slots of its body in slot order (_values_0 .. _values_{n-1})", floor=3)
    from .c03 import jax_template

    jax_template(ctx, "R05.g")


def check_jax_decorators(ctx: Ctx, rule: str):
    """The jax method template decorates the generated functions with a plain `@jax.jit`: buffer donation
    (`donate_argnums` / `donate_argnames`) hands the caller's input arrays to the result, i.e. the generated step
    destroys its inputs."""
    from sa import av as _av

    from . import util

    tf = ctx.sm.func("templates/jax.py", "method")
    v = util.value_of(ctx, tf)
    key = tf.key("decorators")
    if _av.has_unk(v):
        ctx.undecided(rule, key, "what the jax method template returns is not understood", tf.where())
        return
    texts = util.strings_in(v)
    decos = sorted({ln.strip() for t in texts for ln in t.splitlines() if ln.strip().startswith("@")})
    donating = [t for t in texts if "donate_arg" in t]
    ok = not donating and all(d == "@jax.jit" or d.startswith("@jax.jit\n") for d in decos)
    ctx.check(ok, rule, key, "decorated with a plain @jax.jit", f"the jax method template decorates generated functions with {decos or donating[:1]}: anything but a plain `@jax.jit` (buffer donation in particular) lets a generated step invalidate the arrays it was given", tf.where())
