"""C18 - the command line writes what the API generates and honours its options (option flow, write-after-generate, config keys)."""

from __future__ import annotations

import ast
import re

from sa import fl
from sa.core import Ctx
from sa.sm import Func, call_kw, const_str, dotted, find_calls, norm, walk_no_nested

from . import common, util

EXEMPT = {"version": "eager callback, prints and exits", "license": "eager callback, prints and exits"}
# callee parameter <- differently named command option
MAP = {"suffix": {"to"}, "backend": {"backend", "jax"}, "path": {"config"}}


def commands(ctx: Ctx) -> list[Func]:
    out = []
    for f in ctx.sm.funcs_in("cli/__init__.py"):
        if "." in f.qualname:
            continue
        if any(d.replace(" ", "").startswith("app.command(") for d in f.decorators()):
            out.append(f)
    ctx.require(out, "no @app.command() functions found in cli/__init__.py")
    return out


def resolve_dispatch(ctx: Ctx, f: Func, call: ast.Call) -> Func | None:
    sm = ctx.sm
    d = dotted(call.func) or ""
    if d.endswith(".main") and d.split(".")[0] in ("gotran2c", "gotran2py", "cellml2ode"):
        return sm.func(f"cli/{d.split('.')[0]}.py", "main", required=False)
    if isinstance(call.func, ast.Name):
        # from .cellml2ode import main as _main
        for n in ast.walk(f.node):
            if isinstance(n, ast.ImportFrom) and n.level == 1:
                for a in n.names:
                    if (a.asname or a.name) == call.func.id:
                        return sm.func(f"cli/{n.module}.py", a.name, required=False)
        imps = sm.module_imports(f.rel)
        if call.func.id in imps:
            modname, _, name = imps[call.func.id].rpartition(".")
            rel = sm.resolve_module_rel(modname)
            if rel:
                return sm.funcs.get((rel, name))
    return None


def check_call_forwarding(ctx: Ctx, rule: str, caller: Func, call: ast.Call, callee: Func, skip: set = frozenset()):
    """Every parameter of ``callee`` that corresponds to a parameter of ``caller`` receives a value derived from it."""
    deps = fl.param_deps(caller)
    cparams = callee.params
    passed: dict[str, ast.AST] = {}
    for i, a in enumerate(call.args):
        if i < len(cparams):
            passed[cparams[i]] = a
    for k in call.keywords:
        if k.arg:
            passed[k.arg] = k.value
    for q in cparams:
        if q in skip:
            continue
        cands = ({q} | MAP.get(q, set())) & set(caller.params)
        if not cands:
            continue
        key = caller.key(f"{callee.rel.split('/')[-1][:-3]}.{callee.name}::{q}")
        if q not in passed:
            ctx.fail(rule, key, f"{caller.qualname} accepts `{'/'.join(sorted(cands))}` but does not pass `{q}` to {callee.rel.split('/')[-1]}::{callee.name}: the option is silently ignored", caller.where(call))
            continue
        got = fl.expr_params(passed[q], deps)
        ctx.check(
            bool(got & cands),
            rule,
            key,
            f"{q} <- {norm(passed[q])}",
            f"{caller.qualname} passes {q}={norm(passed[q])} to {callee.name}, which does not derive from its own option `{'/'.join(sorted(cands))}`",
            caller.where(call),
        )


GENERATORS = ("CodeGenerator", "CCodeGenerator", "PythonCodeGenerator", "JaxCodeGenerator")


def _mentions_param(v, p: str) -> bool:
    from sa import av as _av

    return any(x[1] == p or x[1].startswith(p + ".") or x[1].startswith(p + "[") for x in _av.find_all(v, "sym"))


CLI_OPAQUE = {"add_schemes", "read_config", "validate_scheme", "find_pyproject_toml_config", "main", "get_code"}


def cli_av(ctx: Ctx):
    """evaluator for the cli layer: helper functions of the cli package are expanded (the snippets of get_code, the
    formatter tail, the shared option handling may live in cli/utils.py), the functions that have rules of their own stay
    opaque"""
    from sa import av as _av

    a = ctx.__dict__.get("_av_cli")
    if a is None:
        a = _av.AV(ctx.sm, inline=lambda c: _av.AV.default_inline(c) or ("/cli/" in c.rel and c.name not in CLI_OPAQUE and "." not in c.qualname))
        ctx.__dict__["_av_cli"] = a
    return a


def get_code_value(ctx: Ctx, short: str, args: dict | None = None):
    cache = ctx.__dict__.setdefault("_get_code_values", {})
    k = (short, tuple(sorted((args or {}).items())))
    if k not in cache:
        gc = ctx.sm.func(short, "get_code")
        cache[k] = cli_av(ctx).returned(gc, args)[0]
    return cache[k]


def add_schemes_call(ctx: Ctx, short: str):
    """kwargs of the add_schemes(...) call in what get_code computes, or None"""
    from sa import av as _av

    v = get_code_value(ctx, short, {"backend": ("enum", "Backend", "numpy", "numpy")} if short.endswith("gotran2py.py") and "backend" in ctx.sm.func(short, "get_code").params else None)
    calls = [c for c in _av.find_all(v, "call") if c[1].split(".")[-1] == "add_schemes"]
    if not calls:
        return None
    add_f = ctx.sm.func("cli/utils.py", "add_schemes")
    passed = dict(zip(add_f.params, calls[0][2]))
    passed.update(dict(calls[0][3]))
    return passed


def check_generated_model(ctx: Ctx, rule: str, short: str = "cli/gotran2py.py"):
    """get_code hands the model it was given to the code generator, for every backend: a transformation applied on
    the way (for one backend only, say) makes the module compute something else than the model defines - and than the
    other backends compute."""
    from sa import av as _av

    sm = ctx.sm
    gc = sm.func(short, "get_code")
    A = cli_av(ctx)
    specs = [(None, {})]
    if short.endswith("gotran2py.py") and "backend" in gc.params:
        vals = common.enum_values(ctx, "cli/gotran2py.py", "Backend")
        specs = [(m, {"backend": ("enum", "Backend", m, vals[m])}) for m in vals]
    op = gc.params[0]
    for name, args in specs:
        key = gc.key("model" + (f"::{name}" if name else ""))
        try:
            v = A.returned(gc, args)[0]
        except Exception as e:
            ctx.undecided(rule, key, f"get_code could not be evaluated ({e})", gc.where())
            continue
        ctors = {c for c in _av.find_all(v, "call") if c[1].split(".")[-1] in GENERATORS}
        if not ctors or _av.has_unk(v):
            ctx.undecided(rule, key, f"{short}::get_code: the construction of the code generator is not found / understood", gc.where())
            continue
        models = {(c[2][0] if c[2] else dict(c[3]).get("ode")) for c in ctors}
        ctx.check(models == {("sym", op)}, rule, key, "the generator receives the model that was given", f"{short}::get_code" + (f" (backend {name})" if name else "") + f" generates code for `{_av.show(sorted(models, key=repr)[0])[:100] if models else None}`, not for the model it was given: the module computes something else than the model text defines", gc.where())


def check_get_code(ctx: Ctx, rule: str, short: str):
    """get_code, read from what it computes (so that the generator may be selected through a table or a helper and the
    snippets collected by a helper): every parameter is consumed; the generator is constructed with remove_unused
    (and shape); each backend selects its generator and an unknown one is rejected; add_schemes receives the scheme
    options; the formatter selected by `format` is applied to the result."""
    from sa import av as _av

    sm = ctx.sm
    gc = sm.func(short, "get_code")
    A = cli_av(ctx)
    is_py = short.endswith("gotran2py.py")
    specs: list[tuple[str | None, dict]] = [(None, {})]
    members: list[str] = []
    if is_py and "backend" in gc.params:
        members = list(common.enum_values(ctx, "cli/gotran2py.py", "Backend"))
        vals = common.enum_values(ctx, "cli/gotran2py.py", "Backend")
        specs = [(m, {"backend": ("enum", "Backend", m, vals[m] if isinstance(vals, dict) else m)}) for m in members]
        specs.append(("<other>", {"backend": ("enum", "Backend", "<other>", "<other>")}))
    values = {}
    for name, args in specs:
        try:
            values[name] = A.returned(gc, args)[0]
        except Exception as e:  # not understood, never a verdict
            values[name] = _av.unk(f"evaluation failed: {e}")
    normal = {k: v for k, v in values.items() if k != "<other>"}
    if any(_av.has_unk(v) for v in normal.values()):
        why = next((_av.find_all(v, "unk")[0][1] for v in normal.values() if _av.has_unk(v)), "?")
        ctx.undecided(rule, gc.key("value"), f"what {short}::get_code computes is not understood ({why})", gc.where())
        return
    # 1. every parameter is consumed
    for p in gc.params:
        used = any(_mentions_param(v, p) for v in normal.values())
        if p == "backend" and is_py and members:
            used = used or len({v for v in normal.values()}) > 1
        ctx.check(used, rule, gc.key(f"param::{p}"), f"`{p}` is consumed", f"{short}::get_code: parameter `{p}` is never consumed (generator, add_schemes, formatter)", gc.where())
    # 2. construction of the generator
    want = {"numpy": "PythonCodeGenerator", "jax": "JaxCodeGenerator"}
    for name, v in normal.items():
        ctors = {c for c in _av.find_all(v, "call") if c[1].split(".")[-1] in GENERATORS}
        suffix = f"::{name}" if name else ""
        if not ctors:
            ctx.undecided(rule, gc.key("ctor" + suffix), f"{short}::get_code: no construction of a code generator is found in its value", gc.where())
            continue
        for opt in ("remove_unused",) + (("shape",) if is_py else ()):
            bad = [c for c in ctors if not _mentions_param(dict(c[3]).get(opt, ("c", None)), opt)]
            if name in (None, members[0] if members else None):
                ctx.check(not bad, rule, gc.key(f"ctor::{opt}"), f"{opt} reaches the generator", f"{short}::get_code does not pass {opt} to the code generator" + (f" (it constructs {_av.show(bad[0])[:120]})" if bad else ""), gc.where())
            elif bad:
                ctx.fail(rule, gc.key(f"ctor::{opt}"), f"{short}::get_code does not pass {opt} to the code generator for backend {name} (it constructs {_av.show(bad[0])[:120]})", gc.where())
        if name is not None:
            got = sorted({c[1].split(".")[-1] for c in ctors})
            ctx.check(name in want and got == [want[name]], rule, gc.key(f"backend::{name}"), f"backend {name} -> {want.get(name)}", f"gotran2py.get_code: backend `{name}` constructs `{', '.join(got)}` (expected {want.get(name)})", gc.where())
    if "<other>" in values:
        from .c03 import _branches

        ov = values["<other>"]
        rejected = all(leaf[0] == "raise" for _c, leaf in _branches(ov))
        if not rejected and _av.has_unk(ov):
            ctx.undecided(rule, gc.key("backend::<other>"), "what get_code does for an unknown backend is not understood", gc.where())
        else:
            ctx.check(rejected, rule, gc.key("backend::<other>"), "an unknown backend is rejected", "gotran2py.get_code: an unknown backend does not raise", gc.where())
    # 3. add_schemes receives the options
    v0 = next(iter(normal.values()))
    add_f = sm.func("cli/utils.py", "add_schemes")
    adds = [c for c in _av.find_all(v0, "call") if c[1].split(".")[-1] == "add_schemes"]
    if not adds:
        ctx.undecided(rule, gc.key("add_schemes"), f"{short}::get_code: no call of add_schemes is found in its value", gc.where())
    else:
        c = adds[0]
        passed = dict(zip(add_f.params, c[2]))
        passed.update(dict(c[3]))
        for q in add_f.params:
            if q == "codegen":
                continue
            cands = ({q} | MAP.get(q, set())) & set(gc.params)
            if not cands:
                continue
            key = gc.key(f"utils.add_schemes::{q}")
            if q not in passed:
                ctx.fail(rule, key, f"get_code accepts `{'/'.join(sorted(cands))}` but does not pass `{q}` to utils.py::add_schemes: the option is silently ignored", gc.where())
                continue
            ctx.check(any(_mentions_param(passed[q], x) for x in cands), rule, key, f"{q} <- {_av.show(passed[q])[:60]}", f"get_code passes {q}={_av.show(passed[q])[:60]} to add_schemes, which does not derive from its own option `{'/'.join(sorted(cands))}`", gc.where())
    # 4. the formatter selected by `format` is applied
    def _formatter_of(target):
        gf = [c_ for c_ in _av.find_all(target, "call") if c_[1].split(".")[-1] == "get_formatter"]
        return gf[0] if gf else None

    fmt = [(x[0], _formatter_of(x[1]), x[2]) for x in _av.find_all(v0, "vcall") if _formatter_of(x[1]) is not None]
    if not fmt:
        looked = [c for c in A.call_log if c[2][0] == "call" and c[2][1].split(".")[-1] == "get_formatter"]
        if looked or not _mentions_param(v0, "format"):
            ctx.fail(rule, gc.key("formatter"), f"{short}::get_code does not apply the formatter selected by `format` to the generated code", gc.where())
        else:
            ctx.undecided(rule, gc.key("formatter"), f"{short}::get_code: how the requested format is applied is not recognised", gc.where())
    else:
        x = fmt[0]
        farg = dict(x[1][3]).get("format", x[1][2][0] if x[1][2] else ("c", None))
        ctx.check(_mentions_param(farg, "format") and len(x[2]) == 1, rule, gc.key("formatter"), "the requested formatter is looked up and applied to the result", f"{short}::get_code does not apply the formatter selected by `format` to the generated code (it applies {_av.show(x[1])[:80]})", gc.where())


def dispatched_calls(ctx: Ctx) -> dict:
    """{command name: (command, [(value, main, node)], call log)}: the main(...) calls a command makes, as values"""
    cached = ctx.__dict__.get("_dispatched_calls")
    if cached is not None:
        return cached
    A = util.AV(ctx)
    out = {}
    for f in commands(ctx):
        n0 = len(A.call_log)
        try:
            A.returned(f)
        except Exception as e:
            out[f.name] = (f, None, [], str(e))
            continue
        log = A.call_log[n0:]
        calls = []
        for caller, node, val in log:
            m = resolve_dispatch(ctx, caller or f, node) if isinstance(node, ast.Call) else None
            if m is not None and m.name == "main":
                calls.append((val, m, node))
        out[f.name] = (f, calls, log, None)
    ctx.__dict__["_dispatched_calls"] = out
    return out


def get_code_calls(ctx: Ctx, short: str):
    """values of the get_code(...) calls made by <short>::main"""
    A = util.AV(ctx)
    mainf = ctx.sm.func(short, "main")
    n0 = len(A.call_log)
    A.returned(mainf)
    return [val for _c, _n, val in A.call_log[n0:] if val[0] == "call" and val[1].split(".")[-1] == "get_code"]


def check_value_forwarding(ctx: Ctx, rule: str, caller: Func, val, callee: Func, node, skip: set = frozenset()):
    """check_call_forwarding on the *value* of the call (what reaches each parameter after helpers are expanded)"""
    from sa import av as _av

    cparams = callee.params
    vals = val if isinstance(val, list) else [val]
    passed: dict = {}
    for one in vals:
        args, kwargs = (one[2], one[3]) if one[0] == "call" else (one[3], one[4])
        here = dict(zip(cparams, args))
        here.update(dict(kwargs))
        for q_, x_ in here.items():
            passed[q_] = x_ if q_ not in passed or passed[q_] == x_ else ("list", (passed[q_], x_))
    for q in cparams:
        if q in skip:
            continue
        cands = ({q} | MAP.get(q, set())) & set(caller.params)
        if not cands:
            continue
        key = caller.key(f"{callee.rel.split('/')[-1][:-3]}.{callee.name}::{q}")
        if q not in passed:
            ctx.fail(rule, key, f"{caller.qualname} accepts `{'/'.join(sorted(cands))}` but does not pass `{q}` to {callee.rel.split('/')[-1]}::{callee.name}: the option is silently ignored", caller.where())
            continue
        if _av.has_unk(passed[q]) and not any(_mentions_param(passed[q], x) for x in cands):
            ctx.undecided(rule, key, f"what {caller.qualname} passes as `{q}` is not understood", caller.where())
            continue
        ctx.check(
            any(_mentions_param(passed[q], x) for x in cands),
            rule,
            key,
            f"{q} <- {_av.show(passed[q])[:60]}",
            f"{caller.qualname} passes {q}={_av.show(passed[q])[:60]} to {callee.name}, which does not derive from its own option `{'/'.join(sorted(cands))}`",
            caller.where(),
        )


REF_READ_CONFIG = """
def read_config(path):
    if path is None:
        path = find_pyproject_toml_config()
    if path is None:
        return {}
    try:
        import tomllib as toml
    except ImportError:
        try:
            import toml
        except ImportError:
            typer.echo("Please install 'tomllib' or 'toml' to read configuration files")
            return {}
    try:
        config = toml.loads(Path(path).read_text())
    except Exception:
        typer.echo(f"Could not read configuration file {path}")
        return {}
    else:
        return config.get("tool", {}).get("gotranx", {})
"""


def check_validate_scheme(ctx: Ctx, rule: str):
    """validate_scheme returns the requested schemes one for one, in the order given (the order of the scheme
    functions in the written file is the order of the request)."""
    from sa import av as _av

    f = ctx.sm.func("cli/utils.py", "validate_scheme", required=False)
    if f is None:
        return
    v = util.value_of(ctx, f)
    key = f.key("order")
    p0 = f.params[0]
    inner = _av._unwrap_seq(v)
    if _av.has_unk(v):
        ctx.undecided(rule, key, "what validate_scheme returns is not understood", f.where())
        return
    reorder = [c for c in _av.find_all(v, "call") if c[1] in ("sorted", "set", "frozenset", "reversed", "dict.fromkeys")]
    if reorder:
        ctx.fail(rule, key, f"validate_scheme returns `{_av.show(v)[:100]}`: the requested schemes are re-ordered or de-duplicated, so the scheme functions are written in another order than requested", f.where())
        return
    if inner[0] == "comp" and _av._unwrap_seq(inner[2]) == ("sym", p0):
        bv = ("bv", inner[1])
        one = ("call", "Scheme", (bv,), ())
        items = inner[3]
        conds = [it[1] for it in items if it[0] == "when"]
        vals = [it[2] if it[0] == "when" else it for it in items]
        per_element = (len(items) == 1 and not conds) or (len(items) == 2 and len(conds) == 2 and conds[0] == _av.mk_not(conds[1]))
        okv = all(x in (one, bv) or (x[0] == "if" and x[2] in (one, bv) and x[3] in (one, bv)) for x in vals)
        ctx.check(per_element and okv and not inner[4], rule, key, "one Scheme per requested entry, in the order given", f"validate_scheme returns `{_av.show(v)[:110]}`: not exactly one scheme per requested entry in the order given" + (" (entries are filtered)" if inner[4] else ""), f.where())
    else:
        ctx.undecided(rule, key, f"validate_scheme returns `{_av.show(v)[:100]}`; whether that is the request in its order is not decided", f.where())


def _br18(v, conds=()):
    from .c03 import _branches

    return _branches(v, conds)


def check_output_path(ctx: Ctx, rule: str):
    """gotran2py.main / gotran2c.main: the file written is the given output name itself (with the suffix), or the
    model's own path when none is given - read from the receiver of the write_text call."""
    from sa import av as _av

    seen = {}
    for short in ("cli/gotran2py.py", "cli/gotran2c.py"):
        main = ctx.sm.func(short, "main")
        A = util.AV(ctx)
        n0 = len(A.call_log)
        A.returned(main)
        wts = [v for _f, _n, v in A.call_log[n0:] if v[0] == "mcall" and v[2] == "write_text"]
        key = main.key("output-path")
        if not wts:
            ctx.undecided(rule, key, f"{short}::main: the write_text call is not found in what the function does", main.where())
            continue
        target = wts[-1][1]
        seen[short] = target
        fn, on = ("sym", "fname"), ("sym", "outname")
        base = _av.mk_if(("cmp", "is", on, _av.NONE), fn, ("call", "pathlib.Path", (on,), ()))
        wants = [("mcall", base, "with_suffix", (), (("suffix", ("sym", "suffix")),)), ("mcall", base, "with_suffix", (("sym", "suffix"),), ())]
        if target in wants:
            ctx.ok(rule, key, "writes <outname or the model's path>.with_suffix(suffix)", main.where())
        elif _av.has_unk(target):
            ctx.undecided(rule, key, f"{short}::main: where the result is written is not understood", main.where())
        elif any(o[2] == on or o[3] == on or _has_term(o, on) for o in _av.find_all(target, "op")) or not _mentions_param(target, "outname"):
            ctx.fail(rule, key, f"{short}::main writes to `{_av.show(target)[:110]}`: the output name given with -o is " + ("combined with another path" if _mentions_param(target, "outname") else "ignored") + ", not used as given", main.where())
        else:
            ctx.undecided(rule, key, f"{short}::main writes to `{_av.show(target)[:110]}`; whether that is the given output name is not decided", main.where())
    # cellml2ode: the converted model is saved under the given name as it is; without one, next to the input as .ode
    cm = ctx.sm.func("cli/cellml2ode.py", "main", required=False)
    if cm is not None:
        A = util.AV(ctx)
        n0 = len(A.call_log)
        A.returned(cm)
        saves = [v for _f, _n, v in A.call_log[n0:] if v[0] == "mcall" and v[2] == "save" and len(v[3]) == 1]
        key = cm.key("output-path")
        if not saves:
            ctx.undecided(rule, key, "cli/cellml2ode.py::main: the save call is not found in what the function does", cm.where())
        else:
            target = saves[-1][3][0]
            fn, on = ("sym", "fname"), ("sym", "outname")
            wants = [_av.mk_if(("cmp", "is", on, _av.NONE), ("mcall", fn, "with_suffix", (_av.C(".ode"),), ()), ("call", "pathlib.Path", (on,), ()))]
            if target in wants:
                ctx.ok(rule, key, "saves to the given name, or <input>.ode", cm.where())
            elif _av.has_unk(target):
                ctx.undecided(rule, key, "cli/cellml2ode.py::main: where the model is saved is not understood", cm.where())
            else:
                given = [leaf for _c, leaf in _br18(target) if _mentions_param(leaf, "outname")]
                altered = [leaf for leaf in given if leaf not in (("call", "pathlib.Path", (on,), ()), on)]
                if altered or not given:
                    ctx.fail(rule, key, f"cli/cellml2ode.py::main saves to `{_av.show(target)[:110]}`: the output name given with -o is " + ("changed (suffix replaced / combined with another path)" if given else "ignored") + ", not used as given", cm.where())
                else:
                    ctx.undecided(rule, key, f"cli/cellml2ode.py::main saves to `{_av.show(target)[:110]}`; whether that honours the given name is not decided", cm.where())
    if len(seen) == 2:
        a, b = seen.values()
        ctx.check(a == b, rule, "src/gotranx/cli::main::output-path-siblings", "gotran2py.main and gotran2c.main derive the output path in the same way", f"gotran2py.main writes to `{_av.show(a)[:80]}` but gotran2c.main to `{_av.show(b)[:80]}`: ode2py and ode2c treat the same -o option differently", "")


def run(ctx: Ctx):
    sm = ctx.sm
    ctx.assume("exit codes as observed from a shell are not decided; typer's own argument validation (exists=True) is trusted")
    cmds = commands(ctx)

    # ---- R18.a option forwarding ------------------------------------------------------------------
    ctx.rule("R18.a", "every option of a conversion command reaches the dispatched main; every parameter of a main reaches get_code, the output path or logging; every get_code parameter is used", floor=40)
    dispatching = []
    dispatched: dict[str, list] = {}
    for f in cmds:
        f, calls, log, err = dispatched_calls(ctx)[f.name]
        if calls is None:
            ctx.undecided("R18.a", f.key("value"), f"command `{f.name}` could not be evaluated ({err})", f.where())
            continue
        by_node: dict[int, list] = {}
        for val, m, node in calls:
            by_node.setdefault(id(node), []).append((val, m, node))
        if not calls:
            continue
        dispatching.append(f)
        dispatched[f.name] = calls
        reached: set[str] = set()
        # the same call site is met once per path that leads to it (an option may be replaced on one of them)
        for group in by_node.values():
            check_value_forwarding(ctx, "R18.a", f, [v for v, _m, _n in group], group[0][1], group[0][2])
        for val, m, node in calls:
            reached |= {p for p in f.params if _mentions_param(val, p)}
        for caller, node, val in log:
            if val[0] in ("call", "mcall") and (val[1] if val[0] == "call" else val[2]).split(".")[-1] == "read_config":
                reached |= {p for p in f.params if _mentions_param(val, p)}
        conds = fl.condition_params(f)
        for p in f.params:
            if p in EXEMPT:
                continue
            ctx.check(
                p in reached,
                "R18.a",
                f.key(f"option::{p}"),
                f"option `{p}` reaches the dispatched main",
                f"command `{f.name}`: option `{p}` is accepted but never reaches a dispatched main" + (" (it is only tested in a condition)" if p in conds else " (it is never read)"),
                f.where(),
            )
    ctx.require(len(dispatching) >= 4, f"expected 4 dispatching commands (convert, ode2py, ode2c, cellml2ode), found {[f.name for f in dispatching]}")

    for short in ("cli/gotran2py.py", "cli/gotran2c.py"):
        main = sm.func(short, "main")
        gc = sm.func(short, "get_code")
        gvals = get_code_calls(ctx, short)
        if not gvals:
            ctx.undecided("R18.a", main.key("get_code"), f"{short}::main: no call of get_code is found in what it does", main.where())
        else:
            check_value_forwarding(ctx, "R18.a", main, gvals, gc, None, skip={"ode"})
        deps = fl.param_deps(main)
        used: set[str] = set()
        for u in fl.keyword_uses(main):
            used |= u.params
        for n in walk_no_nested(main.node):
            if isinstance(n, ast.Call) and isinstance(n.func, ast.Attribute):
                used |= fl.expr_params(n.func.value, deps)
        used |= fl.condition_params(main)
        for p in main.params:
            ctx.check(p in used, "R18.a", main.key(f"param::{p}"), f"`{p}` is used", f"{short}::main: parameter `{p}` is never used", main.where())
        check_get_code(ctx, "R18.a", short)
        check_generated_model(ctx, "R18.a", short)

    # the per-scheme keyword arguments: delta and stiff_states are honoured for every scheme that takes them
    common.check_scheme_kwargs(ctx, "R18.a", "delta")
    common.check_scheme_kwargs(ctx, "R18.a", "stiff_states")

    check_output_path(ctx, "R18.a")
    check_validate_scheme(ctx, "R18.a")

    # ---- R18.b write after generate ------------------------------------------------------------------
    ctx.rule("R18.b", "in each main the output file is touched only after load_ode and get_code have returned, with get_code's text unmodified, and no handler swallows their exceptions", floor=8)
    WRITE_ATTRS = ("write_text", "write_bytes", "open", "touch", "write", "writelines", "mkdir", "unlink")
    for short in ("cli/gotran2py.py", "cli/gotran2c.py", "cli/cellml2ode.py"):
        main = sm.func(short, "main")
        order = fl.eval_order(main.node)
        gen_name = "get_code" if not short.endswith("cellml2ode.py") else "cellml_to_gotran"
        gen = [i for i, c in enumerate(order) if (dotted(c.func) or "").split(".")[-1] == gen_name]
        load = [i for i, c in enumerate(order) if (dotted(c.func) or "").split(".")[-1] in ("load_ode", "cellml_to_gotran")]
        writes = [i for i, c in enumerate(order) if (isinstance(c.func, ast.Attribute) and c.func.attr in WRITE_ATTRS + ("save",) and not (dotted(c.func) or "").startswith("logger")) or (isinstance(c.func, ast.Name) and c.func.id == "open")]
        if not (gen and load):
            ctx.undecided("R18.b", main.key("order"), f"{short}::main: the load / generate calls are not found in the function itself (moved into helpers?); their order relative to the write is not judged", main.where())
            continue
        ctx.check(bool(writes), "R18.b", main.key("writes"), "main writes the result", f"{short}::main no longer writes an output file", main.where())
        if writes:
            first_w = order[writes[0]]
            ctx.check(
                min(writes) > max(gen) and min(load) < min(gen) + 1,
                "R18.b",
                main.key("order"),
                "load -> generate -> write",
                f"{short}::main touches the output file (`{norm(first_w)[:60]}`) before generation has finished: a model that fails to load or generate leaves an (empty / truncated) output file behind",
                main.where(first_w),
            )
        # every way through main that does not raise reaches the write: a run that returns without writing exits 0 and
        # leaves whatever an earlier run produced (other options, another model) under the requested name
        from sa import te as _te

        skipping = []
        try:
            paths = _te.enumerate_paths(main.node.body)
        except Exception:
            paths = None
        if paths is None:
            ctx.undecided("R18.b", main.key("always-writes"), "the paths of main could not be enumerated", main.where())
        else:
            write_nodes = {id(order[i]) for i in writes}
            for p_ in paths:
                if p_.exit == "raise":
                    continue
                if not any(id(c) in write_nodes for st in p_.effects for c in ast.walk(st)):
                    skipping.append(p_)
            ctx.check(
                not skipping,
                "R18.b",
                main.key("always-writes"),
                f"all {len(paths)} non-raising paths write the output",
                f"{short}::main can finish without writing the output file (path [{skipping[0].pred()[:120]}]): the command exits 0 and the file of that name - if any - still holds what an earlier run produced, so none of the options of this run is honoured" if skipping else "",
                main.where(),
            )
        trys = [n for n in ast.walk(main.node) if isinstance(n, ast.Try)]
        ctx.check(not trys, "R18.b", main.key("no-handler"), "no exception handler around load/generate/write", f"{short}::main wraps its work in try/except: a failing model may no longer exit non-zero", main.where())
        if gen_name == "get_code":
            # the written text is exactly get_code's result
            assigns = [n for n in walk_no_nested(main.node) if isinstance(n, ast.Assign) and isinstance(n.value, ast.Call) and (dotted(n.value.func) or "") == "get_code"]
            wt = [c for c in order if isinstance(c.func, ast.Attribute) and c.func.attr == "write_text"]
            okw = bool(assigns) and bool(wt) and len(wt[0].args) == 1 and isinstance(wt[0].args[0], ast.Name) and wt[0].args[0].id == norm(assigns[0].targets[0])
            if okw:
                var = wt[0].args[0].id
                others = [n for n in walk_no_nested(main.node) if isinstance(n, (ast.Assign, ast.AugAssign)) and n is not assigns[0] and any(isinstance(x, ast.Name) and x.id == var for t in (n.targets if isinstance(n, ast.Assign) else [n.target]) for x in ast.walk(t))]
                okw = not others
            ctx.check(okw, "R18.b", main.key("text"), "write_text(code) with code = get_code(...) unmodified", f"{short}::main does not write exactly the text returned by get_code", main.where())
            # output path = (outname or fname).with_suffix(suffix)
            deps = fl.param_deps(main)
            recv = fl.expr_params(wt[0].func.value, deps) if wt else set()
            ctx.check({"fname", "outname", "suffix"} <= recv, "R18.b", main.key("path"), "output path derives from fname/outname/suffix", f"{short}::main: the output path depends on {sorted(recv)}, expected fname, outname and suffix", main.where())
    for f in dispatching:
        trys = [n for n in ast.walk(f.node) if isinstance(n, ast.Try)]
        ctx.check(not trys, "R18.b", f.key("no-handler"), "no exception handler in the command", f"command `{f.name}` catches exceptions around the conversion", f.where())

    # ---- R18.c configuration keys ----------------------------------------------------------------------
    ctx.rule("R18.c", "configuration: an explicit --config path is honoured; every documented key is read with the command-line value as default and assigned to the forwarded variable", floor=12)
    rc = sm.func("cli/utils.py", "read_config")
    vd = util.same_as_reference(
        ctx,
        "R18.c",
        "cli/utils.py",
        "read_config",
        REF_READ_CONFIG,
        "table",
        "an explicit path wins (the discovered pyproject.toml is used only when path is None); the file at that path is read; [tool.gotranx] is returned, {} when there is none",
        "read_config no longer reads the file named by an explicit --config path (falling back to the discovered pyproject.toml only when none is given) and returns its [tool.gotranx] table",
    )
    check_config_discovery(ctx, "R18.c")
    check_discovery_only_without_path(ctx, "R18.c")
    check_option_defaults_agree(ctx, "R18.c")
    for k_ in ("explicit-path-wins", "reads-path"):
        (ctx.ok if vd == "ok" else (lambda *a, **kw: None))("R18.c", rc.key(k_), "see ::table (the whole function equals the vetted value)", rc.where())

    doc_keys = documented_keys(ctx)
    expected = EXPECTED_KEYS
    for section, keys in doc_keys.items():
        for k in keys:
            holders = [c for c, secs in expected.items() if k in secs.get(section, [])]
            ctx.check(bool(holders), "R18.c", f"docs/config.md::{section or 'tool.gotranx'}::{k}", "documented key is handled by a command", f"docs/config.md documents `{k}` under [{'tool.gotranx' + ('.' + section if section else '')}] but no command is expected to read it (checker table out of date)", "docs/config.md")
    check_config_keys(ctx, "R18.c")


EXPECTED_KEYS = {
    "ode2py": {"": ["verbose", "delta", "stiff_states", "scheme"], "python": ["format", "backend"]},
    "ode2c": {"": ["verbose", "delta", "stiff_states", "scheme"], "c": ["format", "to"]},
    "cellml2ode": {"": ["verbose"]},
}


def check_config_keys(ctx: Ctx, rule: str, only_keys: set | None = None):
    """every documented configuration key is read from the right table with the command-line value as default and
    lands in the dispatched main's parameter of that name"""
    from sa import av as _av

    disp = dispatched_calls(ctx)
    for cname, (f, calls, _log, _err) in disp.items():
        if f.name not in EXPECTED_KEYS or not calls:
            continue
        vals = [v for v, _m, _n in calls]
        gets = [g for v in vals for g in _av.find_all(v, "mcall") if g[2] == "get" and g[3] and g[3][0][0] == "c"]

        def is_root(t):
            return t[0] in ("call", "mcall") and (t[1] if t[0] == "call" else t[2]).split(".")[-1] == "read_config"

        def table_of(g):
            """'' for the [tool.gotranx] table, the section name for a sub-table, None otherwise"""
            t = g[1]
            if is_root(t):
                return ""
            if t[0] == "mcall" and t[2] == "get" and t[3] and t[3][0][0] == "c" and is_root(t[1]):
                return t[3][0][1]
            return None

        for section, keys in EXPECTED_KEYS[f.name].items():
            for k in keys:
                if only_keys is not None and k not in only_keys:
                    continue
                key = f.key(f"config::{section + '.' if section else ''}{k}")
                hits = [g for g in gets if g[3][0][1] == k and table_of(g) == section]
                if not hits:
                    if any(_av.has_unk(v) for v in vals):
                        ctx.undecided(rule, key, f"command `{f.name}`: what reaches the dispatched main is not understood", f.where())
                    elif section and not any(table_of(g) == section for g in gets):
                        ctx.fail(rule, key, f"command `{f.name}` does not read the [{section}] table of the configuration", f.where())
                    else:
                        ctx.fail(rule, key, f"command `{f.name}` never reads the documented configuration key `{k}`", f.where())
                    continue
                g = hits[0]
                dflt = g[3][1] if len(g[3]) > 1 else None
                # the value read lands in the main's parameter of that name (or the one it is mapped to)
                landed = []
                for v in vals:
                    kw = dict(v[3] if v[0] == "call" else v[4])
                    landed += [q for q, x in kw.items() if _has_term(x, g)]
                okq = any(q == k or k in MAP.get(q, set()) for q in landed)
                if dflt is not None and dflt != ("sym", k) and dflt[0] == "if" and any(_mentions_param(dflt[1], p_) for p_ in f.params if p_ != k):
                    other = [p_ for p_ in f.params if p_ != k and _mentions_param(dflt[1], p_)]
                    ctx.fail(rule, key, f"command `{f.name}`: the command-line value of `{k}` is replaced depending on `{', '.join(other)}` *before* the configuration is merged (`{_av.show(dflt)[:90]}`): what the configuration file says about {', '.join(other)} is not known at that point, so a value given on the command line can be thrown away although it is needed", f.where())
                    continue
                okk = dflt is not None and _mentions_param(dflt, k) and okq
                ctx.check(okk, rule, key, f"{k} = <table>.get('{k}', {k})", f"command `{f.name}`: `{_av.show(g)[:90]}` does not hand key `{k}` to the main's `{k}` with the command-line value as default (it reaches {sorted(set(landed)) or 'nothing'})", f.where())




def _has_term(v, t) -> bool:
    if v == t:
        return True
    return isinstance(v, tuple) and any(_has_term(x, t) for x in v if isinstance(x, tuple))


def documented_keys(ctx: Ctx) -> dict[str, list[str]]:
    p = ctx.repo / "docs" / "config.md"
    if not p.exists():
        ctx.notes.append("docs/config.md not found; documented-key cross-check skipped")
        return {}
    out: dict[str, list[str]] = {}
    section = None
    for ln in p.read_text().splitlines():
        m = re.match(r"^###\s+.*\(under `tool\.gotranx(?:\.(\w+))?`\)", ln)
        if m:
            section = m.group(1) or ""
            out.setdefault(section, [])
            continue
        if ln.startswith("## ") or ln.startswith("# "):
            section = None
        m = re.match(r"^- `(\w+)`", ln)
        if m and section is not None:
            out[section].append(m.group(1))
    return out


def check_get_code_forwards(ctx: Ctx, rule: str, option: str):
    """get_code hands its `option` to add_schemes (read from the value of get_code with the cli helpers expanded)"""
    for short in ("cli/gotran2py.py", "cli/gotran2c.py"):
        g = ctx.sm.func(short, "get_code")
        passed = add_schemes_call(ctx, short)
        key = g.key(option)
        if passed is None:
            ctx.undecided(rule, key, f"{short}::get_code: no call of add_schemes is found in what it computes", g.where())
            continue
        ctx.check(option in passed and _mentions_param(passed[option], option), rule, key, f"get_code forwards {option}", f"{short}::get_code does not forward {option} to add_schemes", g.where())


def check_discovery_only_without_path(ctx: Ctx, rule: str):
    """An explicit --config file *replaces* the discovered pyproject.toml (docs/config.md).  Whatever locates the project's
    own file - find_pyproject_toml_config() or read_config calling itself with None - may therefore only run where the
    path parameter is known to be None; anywhere else keys of a file nobody named leak into an explicitly configured run."""
    rc = ctx.sm.func("cli/utils.py", "read_config", required=False)
    if rc is None or not rc.params:
        return
    par = rc.params[0]
    parents = {ch: pa for pa in ast.walk(rc.node) for ch in ast.iter_child_nodes(pa)}

    def under_none_test(node) -> bool:
        cur = node
        while cur in parents:
            pa = parents[cur]
            if isinstance(pa, (ast.If, ast.IfExp)):
                t = norm(pa.test)
                body = pa.body if isinstance(pa.body, list) else [pa.body]
                orelse = pa.orelse if isinstance(pa.orelse, list) else [pa.orelse]
                in_body = any(cur is b or cur in list(ast.walk(b)) for b in body)
                in_else = any(cur is b or cur in list(ast.walk(b)) for b in orelse)
                if (t in (f"{par} is None", f"not {par}", f"{par} == None") and in_body) or (t in (f"{par} is not None", f"{par}", f"{par} != None") and in_else):
                    return True
            if isinstance(pa, ast.BoolOp) and isinstance(pa.op, ast.Or) and cur in pa.values and any(norm(v_) == par for v_ in pa.values[: pa.values.index(cur)]):
                return True  # `path or find...()`
            # an earlier statement of the same block returns / raises whenever a path was given
            for fld in ("body", "orelse", "finalbody"):
                blk = getattr(pa, fld, None)
                if isinstance(blk, list) and cur in blk:
                    for st in blk[: blk.index(cur)]:
                        if isinstance(st, ast.If) and norm(st.test) in (f"{par} is not None", f"{par}", f"{par} != None") and st.body and isinstance(st.body[-1], (ast.Return, ast.Raise)):
                            return True
            cur = pa
        return False

    sites = []
    for c in walk_no_nested(rc.node):
        if isinstance(c, ast.Call):
            tail = (dotted(c.func) or "").split(".")[-1]
            if tail in ("find_pyproject_toml_config", "find_pyproject_toml", "find_project_root") or (tail == rc.name and c.args and isinstance(c.args[0], ast.Constant) and c.args[0].value is None):
                sites.append(c)
    for c in sites:
        ctx.check(under_none_test(c), rule, rc.key(f"discovery-only-without-path::{norm(c)[:40]}"), "the project's own file is looked for only when no path was given", f"read_config evaluates `{norm(c)[:60]}` also when an explicit path was given: keys of the discovered pyproject.toml (scheme, stiff_states, delta ...) leak into a run that was told to use another configuration file", rc.where(c))


def check_config_discovery(ctx: Ctx, rule: str):
    """Without --config the project's pyproject.toml is found from any directory *inside* the project: the search starts at
    the current directory and walks up (black's find_pyproject_toml, or a loop over the parents).  A lookup in the current
    directory only silently ignores the whole [tool.gotranx] table when a command is run from a sub-directory."""
    from sa import av as _av

    f = ctx.sm.func("cli/utils.py", "find_pyproject_toml_config", required=False)
    if f is None:
        return
    v = util.value_of(ctx, f, everything=True)
    key = f.key("searches-upwards")
    if _av.has_unk(v):
        ctx.undecided(rule, key, "how the configuration file is located is not understood", f.where())
        return
    text = _av.show(v)
    upward = "find_pyproject_toml" in text or ".parents" in text or ".parent" in text or "find_project_root" in text or any(isinstance(n, (ast.While, ast.For)) for n in ast.walk(f.node))
    here_only = [o for o in _av.find_all(v, "op") if o[1] == "/" and "cwd" in _av.show(o[2]) and o[3] == _av.C("pyproject.toml")]
    if upward:
        ctx.ok(rule, key, "the search walks up from the current directory", f.where())
    elif here_only:
        ctx.fail(rule, key, f"find_pyproject_toml_config looks at `{_av.show(here_only[0])}` only: run from a sub-directory of the project, the commands silently ignore the [tool.gotranx] configuration (scheme, delta, formats) that the same command honours in the project root", f.where())
    else:
        ctx.undecided(rule, key, f"how the configuration file is located is not recognised ({text[:100]})", f.where())


def check_missing_values_passed_on(ctx: Ctx, rule: str, shorts=("cli/gotran2py.py", "cli/gotran2c.py")):
    """get_code hands the name -> slot mapping it was given to the generator's missing_values as it is: the caller chose
    those slots (they are the other model's missing-variable indices); a mapping rebuilt on the way (renumbered,
    re-ordered, filtered) makes the generated function fill other slots than the consumer reads."""
    from sa import av as _av

    for short in shorts:
        g = ctx.sm.func(short, "get_code", required=False)
        if g is None or "missing_values" not in g.params:
            continue
        v = util.value_of(ctx, g, everything=False)
        calls = [m for m in _av.find_all(v, "mcall") if m[2] == "missing_values"]
        key = g.key("missing_values-passed-on")
        if not calls:
            ctx.undecided(rule, key, f"{short}::get_code: no call of the generator's missing_values(...) is found in what it computes", g.where())
            continue
        bad = [m for m in calls if not (m[3] and m[3][0] == ("sym", "missing_values")) and dict(m[4]).get("values") != ("sym", "missing_values")]
        ctx.check(not bad, rule, key, "codegen.missing_values(missing_values)", f"{short}::get_code calls the generator's missing_values with `{_av.show(bad[0][3][0] if bad and bad[0][3] else (bad[0] if bad else ''))[:120]}`, not with the mapping it was given: the slots the caller requested are replaced", g.where())


def check_option_defaults_agree(ctx: Ctx, rule: str):
    """Sibling agreement of defaults: an option a command declares with a literal default (`typer.Option(1e-8, ...)`) and
    hands to a main that has a parameter of the same name with a literal default must use that same default - otherwise
    the command line without the option and the library call without the argument (and the sibling commands, which
    dispatch to mains with the same default) generate different code for the same model."""
    n = 0
    for cname, (cmd, calls, _log, _err) in dispatched_calls(ctx).items():
        a = cmd.node.args
        cdefs = dict(zip([x.arg for x in a.args][len(a.args) - len(a.defaults):], a.defaults))
        cdefs.update({x.arg: d for x, d in zip(a.kwonlyargs, a.kw_defaults) if d is not None})
        seen = set()
        for _val, mm, _node in calls or []:
            ma = mm.node.args
            mdefs = dict(zip([x.arg for x in ma.args][len(ma.args) - len(ma.defaults):], ma.defaults))
            mdefs.update({x.arg: d for x, d in zip(ma.kwonlyargs, ma.kw_defaults) if d is not None})
            for pname, d in cdefs.items():
                if pname in seen or pname not in mdefs or not isinstance(mdefs[pname], ast.Constant) or isinstance(mdefs[pname].value, (bool, type(None), str)):
                    continue
                opt = d
                if isinstance(d, ast.Call) and (dotted(d.func) or "").split(".")[-1] in ("Option", "Argument"):
                    opt = d.args[0] if d.args else call_kw(d, "default")
                if not isinstance(opt, ast.Constant):
                    continue
                seen.add(pname)
                n += 1
                ctx.check(opt.value == mdefs[pname].value, rule, cmd.key(f"default::{pname}"), f"--{pname} defaults to {opt.value!r} like {mm.rel.split('/')[-1]}::{mm.name}", f"command `{cmd.name}` declares `{pname}` with default {opt.value!r} but {mm.rel.split('/')[-1]}::{mm.name} (and the library functions behind it) default to {mdefs[pname].value!r}: without the option the command generates other code than the library call and the sibling commands", cmd.where(d))
    if not n:
        ctx.undecided(rule, "src/gotranx/cli/__init__.py::defaults", "no command option with a literal numeric default that its main also has was found", "")
